(* C17 — One document, one meaning: formats, tools and default algorithm agree.  Statements only.

   Models (coq/theories/Format.v): detect_format = policy_loader._detect_format, statement by statement;
   parse_policy_text over two parser oracles (json.loads, yaml.safe_load: library behaviour, tied only by
   the differential run); cli_rc / cli_main = the return-code logic of rbacx.cli cmd_validate / cmd_check /
   cmd_lint with validate_policy = Schema.schema_valid (the transcription of the bundled schema, compared
   with jsonschema on every run) and the linter's issue count as an input; lint_cross = the
   algorithm-dependent second pass of dsl.lint.analyze_policy.  The evaluators are those of C02/C03/C01:
   Policy.evaluate, PolicySet.decide, Compiler.compiled_decide, Engine.guard_eval.

   "names no algorithm" (algo_unnamed): the key is absent, null, "" — any falsy value, which is how
   every reader tests it.  fill_default / fill_deep write "deny-overrides" where no algorithm is named
   (top level / every level of a nested set).  Pure instance: state unit, relationship oracle rel. *)
From Coq Require Import ZArith List Bool String.
From Rbacx Require Import Value Cond Target Policy PolicySet Compiler Engine Schema
     PolicyProofs PolicySetProofs SchemaProofs Format FormatProofs.
Import ListNotations.
Local Open Scope string_scope.

(* ------------------------------------------------------------------------------------------ *)
(* format detection                                                                            *)
(* ------------------------------------------------------------------------------------------ *)
(* the complete decision table: a hint that is json / yaml in any ASCII case wins; otherwise a content
   type mentioning yaml (x-yaml is subsumed), then one mentioning json; otherwise (content type absent,
   empty or mentioning neither) the lower-cased file name's extension .yaml / .yml, then .json; else JSON *)
Theorem c17_detect_format : forall filename content_type fmt,
  (forall f, hint_names fmt f -> detect_format filename content_type fmt = f) /\
  (no_valid_hint fmt -> ct_mentions content_type "yaml" -> detect_format filename content_type fmt = FYaml) /\
  (no_valid_hint fmt -> ~ ct_mentions content_type "yaml" -> ct_mentions content_type "json" ->
     detect_format filename content_type fmt = FJson) /\
  (no_valid_hint fmt -> ~ ct_mentions content_type "yaml" -> ~ ct_mentions content_type "json" ->
     name_ends filename ".yaml" \/ name_ends filename ".yml" -> detect_format filename content_type fmt = FYaml) /\
  (no_valid_hint fmt -> ~ ct_mentions content_type "yaml" -> ~ ct_mentions content_type "json" ->
     ~ (name_ends filename ".yaml" \/ name_ends filename ".yml") ->
     detect_format filename content_type fmt = FJson).
Proof. exact detect_format_table. Qed.
Print Assumptions c17_detect_format.

(* never fails (a total function into the two formats); nothing given = JSON *)
Theorem c17_detect_format_never_fails : forall filename content_type fmt,
  (detect_format filename content_type fmt = FJson \/ detect_format filename content_type fmt = FYaml) /\
  detect_format None None None = FJson.
Proof. exact detect_format_total. Qed.
Print Assumptions c17_detect_format_never_fails.

(* an invalid hint ("yml", "toml", "") is ignored *)
Theorem c17_invalid_hint_ignored : forall filename content_type fmt,
  no_valid_hint fmt -> detect_format filename content_type fmt = detect_format filename content_type None.
Proof. exact invalid_hint_ignored. Qed.
Print Assumptions c17_invalid_hint_ignored.

(* the detected format alone selects the parser *)
Theorem c17_parse_dispatch : forall jl yl text fn ct fmt,
  parse_policy_text jl yl text fn ct fmt =
    match detect_format fn ct fmt with FJson => jl text | FYaml => parse_yaml yl text end.
Proof. exact parse_dispatch. Qed.
Print Assumptions c17_parse_dispatch.

(* ------------------------------------------------------------------------------------------ *)
(* command line                                                                                *)
(* ------------------------------------------------------------------------------------------ *)
(* validate, for all inputs of the return-code model: 0 iff every target (the document, or every child
   with --policyset) conforms, 6 iff some target does not, 5 for a missing jsonschema once the validator
   is reached, never 3 *)
Theorem c17_cli_validate_rc : forall parse dep t,
  (cmd_validate parse dep t = Rc EXIT_OK <->
     parse = None /\ targets_ok t = true /\ (dep = false \/ validator_called t = false)) /\
  (cmd_validate parse dep t = Rc EXIT_SCHEMA_ERRORS <-> parse = None /\ dep = false /\ targets_bad t = true) /\
  (cmd_validate parse dep t = Rc EXIT_ENV <->
     (exists e, parse = Some e /\ runtime_family e = true) \/
     (parse = None /\ dep = true /\ validator_called t = true) \/
     (parse = None /\ exists e, t = TEscapes e /\ runtime_family e = true)) /\
  cmd_validate parse dep t <> Rc EXIT_LINT_ERRORS.
Proof. exact cmd_validate_rc. Qed.
Print Assumptions c17_cli_validate_rc.

(* check: 6 iff some target does not conform; 3 only with --strict, lint issues, after the schema passed *)
Theorem c17_cli_check_rc : forall parse dep strict t l,
  (cmd_check parse dep strict t l = Rc EXIT_SCHEMA_ERRORS <-> parse = None /\ dep = false /\ targets_bad t = true) /\
  (cmd_check parse dep strict t l = Rc EXIT_LINT_ERRORS <->
     parse = None /\ validated dep t /\ strict = true /\ exists n, l = LIssues (S n)) /\
  (cmd_check parse dep strict t l = Rc EXIT_OK <->
     parse = None /\ validated dep t /\ exists n, l = LIssues n /\ (strict = false \/ n = 0)).
Proof. exact cmd_check_rc. Qed.
Print Assumptions c17_cli_check_rc.

(* lint never reports a schema status *)
Theorem c17_cli_lint_rc : forall parse strict l,
  (cmd_lint parse strict l = Rc EXIT_LINT_ERRORS <-> parse = None /\ strict = true /\ exists n, l = LIssues (S n)) /\
  (cmd_lint parse strict l = Rc EXIT_OK <-> parse = None /\ exists n, l = LIssues n /\ (strict = false \/ n = 0)) /\
  cmd_lint parse strict l <> Rc EXIT_SCHEMA_ERRORS.
Proof. exact cmd_lint_rc. Qed.
Print Assumptions c17_cli_lint_rc.

(* on a parsed document, in terms of the bundled schema *)
Theorem c17_cli_validate_doc : forall strict doc l,
  (cli_main CValidate false strict false (PDoc doc) l = Rc EXIT_OK <-> schema_valid doc = true) /\
  (cli_main CValidate false strict false (PDoc doc) l = Rc EXIT_SCHEMA_ERRORS <-> schema_valid doc = false).
Proof. exact cli_validate_doc. Qed.
Print Assumptions c17_cli_validate_doc.

Theorem c17_cli_validate_policyset : forall strict doc l cs,
  children_of doc = Ok cs ->
  (cli_main CValidate true strict false (PDoc doc) l = Rc EXIT_OK <-> forallb schema_valid cs = true) /\
  (cli_main CValidate true strict false (PDoc doc) l = Rc EXIT_SCHEMA_ERRORS <-> forallb schema_valid cs = false).
Proof. exact cli_validate_policyset. Qed.
Print Assumptions c17_cli_validate_policyset.

Theorem c17_cli_check_doc : forall strict doc l,
  (cli_main CCheck false strict false (PDoc doc) l = Rc EXIT_SCHEMA_ERRORS <-> schema_valid doc = false) /\
  (cli_main CCheck false strict false (PDoc doc) l = Rc EXIT_LINT_ERRORS <->
     schema_valid doc = true /\ strict = true /\ exists n, l = LIssues (S n)) /\
  (cli_main CCheck false strict false (PDoc doc) l = Rc EXIT_OK <->
     schema_valid doc = true /\ exists n, l = LIssues n /\ (strict = false \/ n = 0)).
Proof. exact cli_check_doc. Qed.
Print Assumptions c17_cli_check_doc.

Theorem c17_cli_check_policyset : forall strict doc l cs,
  children_of doc = Ok cs ->
  (cli_main CCheck true strict false (PDoc doc) l = Rc EXIT_SCHEMA_ERRORS <-> forallb schema_valid cs = false) /\
  (cli_main CCheck true strict false (PDoc doc) l = Rc EXIT_LINT_ERRORS <->
     forallb schema_valid cs = true /\ strict = true /\ exists n, l = LIssues (S n)) /\
  (cli_main CCheck true strict false (PDoc doc) l = Rc EXIT_OK <->
     forallb schema_valid cs = true /\ exists n, l = LIssues n /\ (strict = false \/ n = 0)).
Proof. exact cli_check_policyset. Qed.
Print Assumptions c17_cli_check_policyset.

Theorem c17_cli_missing_dependency : forall c policyset strict doc l,
  c <> CLint -> validator_called (targets_of policyset doc) = true ->
  cli_main c policyset strict true (PDoc doc) l = Rc EXIT_ENV.
Proof. exact cli_missing_dependency. Qed.
Print Assumptions c17_cli_missing_dependency.

(* ------------------------------------------------------------------------------------------ *)
(* no algorithm named = deny-overrides                                                         *)
(* ------------------------------------------------------------------------------------------ *)
(* absent, null and the empty string are the three ways a document names no algorithm *)
Theorem c17_unnamed_forms : forall kvs,
  (assoc "algorithm" kvs = None -> algo_unnamed (VObj kvs) = true) /\
  (assoc "algorithm" kvs = Some VNull -> algo_unnamed (VObj kvs) = true) /\
  (assoc "algorithm" kvs = Some (VStr "") -> algo_unnamed (VObj kvs) = true).
Proof. exact (fun kvs => conj (unnamed_absent kvs) (conj (unnamed_null kvs) (unnamed_empty kvs))). Qed.
Print Assumptions c17_unnamed_forms.

(* interpreter (policy.evaluate, policy.decide): any applicable deny wins, else permit iff some
   applicable permit, else deny — and it is literally the evaluation with "deny-overrides" *)
Theorem c17_default_algorithm_interpreter : forall rel kvs env rules evs,
  algo_unnamed (VObj kvs) = true ->
  policy_rules (VObj kvs) = Some rules ->
  events_of rel rules env evs ->
  policy_algo None (VObj kvs) = Some DenyOverrides /\
  evaluate unit (relh_pure rel) None (VObj kvs) env tt =
    evaluate unit (relh_pure rel) (Some "deny-overrides") (VObj kvs) env tt /\
  forall r, fst (evaluate unit (relh_pure rel) None (VObj kvs) env tt) = ERaw r ->
    (ex_deny rel rules env -> r_decision r = "deny") /\
    (r_decision r = "deny" <-> ex_deny rel rules env \/ ~ ex_permit rel rules env) /\
    (r_decision r = "permit" <-> ~ ex_deny rel rules env /\ ex_permit rel rules env).
Proof. exact default_interpreter. Qed.
Print Assumptions c17_default_algorithm_interpreter.

(* every child of a set is evaluated by that interpreter (no algorithm argument), nested sets by the
   set evaluator itself: so the two theorems around this one apply to every node of a nested set *)
Theorem c17_default_algorithm_children : forall rel pol env,
  (has_key "policies" pol = false ->
     child_result rel pol env = fst (evaluate unit (relh_pure rel) None pol env tt)) /\
  (has_key "policies" pol = true ->
     child_result rel pol env = fst (decide unit (relh_pure rel) pol env tt)).
Proof. exact (fun rel pol env => conj (default_children rel pol env) (default_nested_children rel pol env)). Qed.
Print Assumptions c17_default_algorithm_children.

(* the set evaluator's own combining: a denying applicable child wins, else permit iff some applicable
   child permits, else deny *)
Theorem c17_default_algorithm_set : forall rel kvs env children crs,
  algo_unnamed (VObj kvs) = true ->
  assoc "policies" kvs = Some (VList children) ->
  child_results rel children env crs ->
  set_algo (VObj kvs) = Some DenyOverrides /\
  exists r, decide unit (relh_pure rel) (VObj kvs) env tt = (ERaw r, tt) /\
    (ex_child_deny crs -> r_decision r = "deny") /\
    (r_decision r = "deny" <-> ex_child_deny crs \/ ~ ex_child_permit crs) /\
    (r_decision r = "permit" <-> ~ ex_child_deny crs /\ ex_child_permit crs).
Proof. exact default_set. Qed.
Print Assumptions c17_default_algorithm_set.

(* at any nesting depth: writing "deny-overrides" at every level that names no algorithm changes
   nothing, for the set evaluator, the interpreter and Guard's interpreter dispatch — for every document *)
Theorem c17_default_algorithm_any_depth : forall rel p env,
  decide unit (relh_pure rel) (fill_deep p) env tt = decide unit (relh_pure rel) p env tt /\
  evaluate unit (relh_pure rel) None (fill_deep p) env tt = evaluate unit (relh_pure rel) None p env tt /\
  interpret unit (relh_pure rel) (fill_deep p) env tt = interpret unit (relh_pure rel) p env tt.
Proof.
  exact (fun rel p env => conj (fill_deep_decide rel p env) (conj (fill_deep_evaluate rel p env) (fill_deep_interpret rel p env))).
Qed.
Print Assumptions c17_default_algorithm_any_depth.

(* the linter: analysed as deny-overrides — the deny-overlap pass, never the first-applicable one *)
Theorem c17_default_algorithm_linter : forall kvs,
  algo_unnamed (VObj kvs) = true ->
  lint_algo (VObj kvs) = Some "deny-overrides" /\
  lint_cross (VObj kvs) = lint_cross (with_algorithm "deny-overrides" (VObj kvs)) /\
  (py_truthy (get_key "lint" (VObj kvs)) = false ->
   forall rules, py_or (get_key "rules" (VObj kvs)) (VList []) = VList rules ->
     lint_cross (VObj kvs) = (_ <- all_first_pass rules ;; do_pass rules 0)).
Proof. exact lint_default_is_deny_overrides. Qed.
Print Assumptions c17_default_algorithm_linter.

(* what that pass reports: exactly the deny rules that cover a later rule's resource and share an action
   with it (the first such later rule each) *)
Theorem c17_linter_overlap_sound : forall rules idx issues,
  do_pass rules idx = Ok issues ->
  forall i, In i issues ->
    i_code i = OverlappedByDeny /\
    idx <= i_earlier i < i_later i /\ i_later i < idx + List.length rules /\
    py_eq (rule_eff_raw (nth (i_earlier i - idx) rules VNull)) (VStr "deny") = true /\
    do_hit (nth (i_earlier i - idx) rules VNull) (nth (i_later i - idx) rules VNull) = Ok true /\
    forall k, i_earlier i < k < i_later i ->
      do_hit (nth (i_earlier i - idx) rules VNull) (nth (k - idx) rules VNull) = Ok false.
Proof. exact do_pass_sound. Qed.
Print Assumptions c17_linter_overlap_sound.

Theorem c17_linter_overlap_complete : forall rules idx issues,
  do_pass rules idx = Ok issues ->
  forall e l, e < l < List.length rules ->
    py_eq (rule_eff_raw (nth e rules VNull)) (VStr "deny") = true ->
    do_hit (nth e rules VNull) (nth l rules VNull) = Ok true ->
    exists i, In i issues /\ i_earlier i = idx + e /\ i_later i <= idx + l.
Proof. exact do_pass_complete. Qed.
Print Assumptions c17_linter_overlap_complete.

(* ------------------------------------------------------------------------------------------ *)
(* the engine's compiled path: finding F12                                                     *)
(* ------------------------------------------------------------------------------------------ *)
(* what the code does: a single policy naming no algorithm is compiled as permit-overrides *)
Theorem c17_compiled_default_is_permit_overrides : forall rel policy env,
  is_set policy = false -> algo_unnamed policy = true ->
  compiled_decide unit (relh_pure rel) policy env tt =
  compiled_decide unit (relh_pure rel) (with_algorithm "permit-overrides" policy) env tt.
Proof. exact compiled_default_is_permit_overrides. Qed.
Print Assumptions c17_compiled_default_is_permit_overrides.

(* the faithful model REFUTES "deny-overrides applies" for the engine: a schema-valid single policy
   without algorithm, [permit, deny] both applicable: the reference evaluator denies, Guard permits,
   and with "deny-overrides" written out Guard denies *)
Theorem c17_refuted_engine_default :
  exists policy req,
    schema_valid policy = true /\ algo_unnamed policy = true /\ is_set policy = false /\
    (forall env, build_env false req None = Some env ->
       eres_decision (fst (evaluate unit (relh_pure (fun _ => false)) None policy env tt)) = Some "deny") /\
    gres_effect (run_engine (fun _ => false) builtin_oblig false req None policy) = Some "permit" /\
    gres_effect (run_engine (fun _ => false) builtin_oblig false req None (fill_default policy)) = Some "deny" /\
    f12_class (fun _ => false) builtin_oblig false req None policy.
Proof. exact refuted_engine_default. Qed.
Print Assumptions c17_refuted_engine_default.

(* everything outside the narrow class: whenever the policy names an algorithm, or is a policy set, or
   permit-overrides and deny-overrides agree on it (and the compiled function does not raise internally),
   the engine's effect is that of the document with deny-overrides written out *)
Theorem c17_engine_default_outside_class : forall rel oblig strict req resolved policy,
  algo_unnamed policy = false \/ is_set policy = true \/
  (compiled_no_raise rel strict req resolved (with_algorithm "permit-overrides" policy) /\
   gres_effect (run_engine rel oblig strict req resolved (with_algorithm "permit-overrides" policy)) =
   gres_effect (run_engine rel oblig strict req resolved (with_algorithm "deny-overrides" policy))) ->
  gres_effect (run_engine rel oblig strict req resolved policy) =
  gres_effect (run_engine rel oblig strict req resolved (fill_default policy)).
Proof. exact engine_default_outside_class. Qed.
Print Assumptions c17_engine_default_outside_class.

(* the same with the class predicate of the known finding; for schema-valid documents and JSON-valued
   requests the side condition is discharged *)
Theorem c17_engine_default_schema_valid : forall rel oblig strict req resolved kvs,
  schema_valid (VObj kvs) = true -> request_ok req ->
  ~ f12_class rel oblig strict req resolved (VObj kvs) ->
  gres_effect (run_engine rel oblig strict req resolved (VObj kvs)) =
  gres_effect (run_engine rel oblig strict req resolved (fill_default (VObj kvs))).
Proof. exact engine_default_schema_valid. Qed.
Print Assumptions c17_engine_default_schema_valid.

(* ------------------------------------------------------------------------------------------ *)
(* one document, one meaning                                                                   *)
(* ------------------------------------------------------------------------------------------ *)
(* equal parsed objects mean the same on every path, whatever text, name, content type and hint
   delivered them (trivial here: the content is the correspondence run on the parsers and sources) *)
Theorem c17_same_document_same_decision :
  forall (jl yl : string -> res value) t1 fn1 ct1 f1 t2 fn2 ct2 f2 d1 d2,
  parse_policy_text jl yl t1 fn1 ct1 f1 = Ok d1 ->
  parse_policy_text jl yl t2 fn2 ct2 f2 = Ok d2 ->
  d1 = d2 ->
  forall (rel : rel_query -> bool) oblig strict req resolved env c ps st dep l,
    guard_eval unit (relh_pure rel) oblig strict d1 req resolved tt =
      guard_eval unit (relh_pure rel) oblig strict d2 req resolved tt /\
    evaluate unit (relh_pure rel) None d1 env tt = evaluate unit (relh_pure rel) None d2 env tt /\
    decide unit (relh_pure rel) d1 env tt = decide unit (relh_pure rel) d2 env tt /\
    compiled_decide unit (relh_pure rel) d1 env tt = compiled_decide unit (relh_pure rel) d2 env tt /\
    schema_valid d1 = schema_valid d2 /\
    lint_cross d1 = lint_cross d2 /\
    cli_main c ps st dep (PDoc d1) l = cli_main c ps st dep (PDoc d2) l.
Proof. exact same_document_same_decision. Qed.
Print Assumptions c17_same_document_same_decision.

(* key order, PARTIAL: the order of the keys of the policy / policy-set objects at every nesting level,
   of every rule object and of every rule's "resource" object matters to no evaluator (equal results,
   not merely equal effects).  Missing for the full statement: key order inside conditions, inside
   constraint values (resource id / type / attrs values), inside obligations and rel ctx objects — and
   there it is FALSE in lax mode, see c17_refuted_key_order (finding F23). *)
Theorem c17_key_order_partial : forall rel oblig strict req resolved env p1 p2,
  pol_equiv p1 p2 ->
  evaluate unit (relh_pure rel) None p1 env tt = evaluate unit (relh_pure rel) None p2 env tt /\
  decide unit (relh_pure rel) p1 env tt = decide unit (relh_pure rel) p2 env tt /\
  compiled_decide unit (relh_pure rel) p1 env tt = compiled_decide unit (relh_pure rel) p2 env tt /\
  guard_eval unit (relh_pure rel) oblig strict p1 req resolved tt =
    guard_eval unit (relh_pure rel) oblig strict p2 req resolved tt.
Proof.
  exact (fun rel oblig strict req resolved env p1 p2 H =>
           conj (proj1 (proj2 (key_order_interpreter rel p1 p2 env H)))
          (conj (proj1 (key_order_interpreter rel p1 p2 env H))
          (conj (proj1 (proj2 (key_order_compiled rel p1 p2 env H)))
                (key_order_engine rel oblig strict req resolved p1 p2 H)))).
Qed.
Print Assumptions c17_key_order_partial.

(* F23: two schema-valid documents that Python's == calls equal (they differ in the key order of an
   object-valued resource attribute constraint): lax mode permits one and denies the other; strict
   mode does not distinguish them *)
Theorem c17_refuted_key_order :
  exists p1 p2 req,
    schema_valid p1 = true /\ schema_valid p2 = true /\
    py_eq p1 p2 = true /\
    gres_effect (run_engine (fun _ => false) builtin_oblig false req None p1) = Some "permit" /\
    gres_effect (run_engine (fun _ => false) builtin_oblig false req None p2) = Some "deny" /\
    gres_effect (run_engine (fun _ => false) builtin_oblig true req None p1) =
    gres_effect (run_engine (fun _ => false) builtin_oblig true req None p2).
Proof. exact refuted_key_order. Qed.
Print Assumptions c17_refuted_key_order.

(* ------------------------------------------------------------------------------------------ *)
(* non-vacuity                                                                                 *)
(* ------------------------------------------------------------------------------------------ *)
Example c17_example_detect :
  detect_format (Some "p.json") (Some "application/json") (Some "YAML") = FYaml /\       (* hint first *)
  detect_format (Some "p.json") (Some "text/yaml; charset=utf-8") (Some "yml") = FYaml /\ (* bad hint ignored, content type next *)
  detect_format (Some "p.yaml") (Some "application/json+yaml") None = FYaml /\             (* yaml marker tested first *)
  detect_format (Some "P.YML") (Some "text/plain") (Some "toml") = FYaml /\                (* neither marker: the extension *)
  detect_format (Some "p.yaml.json") None (Some "") = FJson /\
  detect_format (Some "p.txt") None None = FJson.
Proof. vm_compute. repeat split. Qed.

Definition c17_good : value :=
  VObj [("rules", VList [VObj [("id", VStr "r"); ("effect", VStr "permit"); ("actions", VList [VStr "read"]);
                               ("resource", VObj [("type", VStr "doc")])]])].
Definition c17_bad : value := VObj [("rules", VList [VObj [("id", VStr "r")]])].
Example c17_example_cli :
  cli_main CValidate false false false (PDoc c17_good) (LIssues 0) = Rc 0 /\
  cli_main CValidate false true false (PDoc c17_bad) (LIssues 3) = Rc 6 /\
  cli_main CCheck false true false (PDoc c17_good) (LIssues 2) = Rc 3 /\
  cli_main CCheck false true false (PDoc c17_bad) (LIssues 2) = Rc 6 /\
  cli_main CCheck true false false (PDoc (VObj [("policies", VList [c17_good; c17_bad])])) (LIssues 0) = Rc 6 /\
  cli_main CValidate true false false (PDoc (VObj [("policies", VList [c17_good; c17_good])])) (LIssues 0) = Rc 0 /\
  cli_main CValidate true false false (PDoc c17_bad) (LIssues 0) = Rc 0 /\          (* no children: nothing to reject *)
  cli_main CValidate false false true (PDoc c17_good) (LIssues 0) = Rc 5 /\
  cli_main CLint false true false (PDoc c17_bad) (LIssues 3) = Rc 3.
Proof. vm_compute. repeat split. Qed.

(* the F12 witness through the other paths: interpreter, child of a set, nested set, linter *)
Example c17_example_default :
  eres_decision (fst (evaluate unit (relh_pure (fun _ => false)) None f12_policy
                        (VObj [("action", VStr "read"); ("resource", VObj [("type", VStr "doc"); ("id", VStr "1")])]) tt))
    = Some "deny" /\
  eres_decision (fst (decide unit (relh_pure (fun _ => false))
                        (VObj [("policies", VList [VObj [("policies", VList [f12_policy])]])])
                        (VObj [("action", VStr "read"); ("resource", VObj [("type", VStr "doc"); ("id", VStr "1")])]) tt))
    = Some "deny" /\
  fill_deep (VObj [("policies", VList [f12_policy])]) =
    VObj [("policies", VList [with_algorithm "deny-overrides" f12_policy]); ("algorithm", VStr "deny-overrides")] /\
  lint_cross f12_policy = Ok [] /\
  lint_cross (VObj [("rules", VList [
      VObj [("id", VStr "d"); ("effect", VStr "deny"); ("actions", VList [VStr "read"]); ("resource", VObj [("type", VStr "doc")])];
      VObj [("id", VStr "p"); ("effect", VStr "permit"); ("actions", VList [VStr "read"]); ("resource", VObj [("type", VStr "doc")])]])])
    = Ok [{| i_code := OverlappedByDeny; i_later := 1; i_earlier := 0 |}].
Proof. vm_compute. repeat split. Qed.

(* a reordered rendering in the sense of c17_key_order_partial *)
Example c17_example_key_order :
  pol_equiv
    (VObj [("algorithm", VStr "first-applicable");
           ("rules", VList [VObj [("id", VStr "r"); ("effect", VStr "deny"); ("actions", VList [VStr "read"]);
                                  ("resource", VObj [("type", VStr "doc"); ("id", VStr "1")])]])])
    (VObj [("rules", VList [VObj [("actions", VList [VStr "read"]); ("effect", VStr "deny"); ("id", VStr "r");
                                  ("resource", VObj [("id", VStr "1"); ("type", VStr "doc")])]]);
           ("algorithm", VStr "first-applicable")]).
Proof.
  apply pe_obj.
  - intros k Hr Hp. simpl. rewrite Hr. destruct (String.eqb k "algorithm"); reflexivity.
  - simpl. right. eexists _, _. repeat split. constructor; [|constructor].
    right. eexists _, _. repeat split.
    + intros k Hk. simpl. rewrite Hk.
      destruct (String.eqb k "id") eqn:E1; [apply String.eqb_eq in E1; subst k; reflexivity|].
      destruct (String.eqb k "effect") eqn:E2; [apply String.eqb_eq in E2; subst k; reflexivity|].
      destruct (String.eqb k "actions"); reflexivity.
    + simpl. right. eexists _, _. repeat split. intros k. simpl.
      destruct (String.eqb k "type") eqn:E1; destruct (String.eqb k "id") eqn:E2; try reflexivity.
      apply String.eqb_eq in E1. apply String.eqb_eq in E2. congruence.
  - left. reflexivity.
Qed.
