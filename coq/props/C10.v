(* C10 — Hot reload is fail-safe, version-tag gated and converges to the source.
   Statements only, about the model Reload.v (HotReloader) and Sources.v (the sources).
   W = type of worlds, St = type of the source object's own state; both arbitrary in the
   safety theorems (any source whatsoever), the shipped sources in the convergence ones.

   The statement's convergence clause does NOT hold for the code as it is:
     - c10_refuted_http_etag  (finding F9, HTTP source behind a server that sends ETags)
     - c10_refuted_aba        (finding F20, sources whose tag is a function of the content)
   c10_converges therefore carries the explicit side condition [sched_fine] (no content
   change falls between etag() and load() of a check that holds a content tag), which is
   vacuous for sources whose tags name a write (c10_version_tags_immune), and the HTTP
   source with ETags is covered outside the class of F9 by c10_converges_http. *)
From Coq Require Import List Bool Arith QArith.
From Rbacx Require Import Reload Sources ReloadProofs SourcesProofs.
Import ListNotations.
Local Open Scope Q_scope.

(* ================= the active policy was loaded ================= *)

(* Over every interleaving of any number of checks (plain or forced) with each other and with
   arbitrary changes of the world, for every source: the guard's policy is the initial one or a
   document returned by a successful load(); set_policy was called exactly once per check that
   returned True; a check about to apply holds a document that a load returned. *)
Theorem c10_active_policy_was_loaded :
  forall (W St : Type) (c : cfg) (src : source W St) (s0 : sys W St) (ls : list (label W)),
    let cf := run c src ls {| cs := s0; thr := [] |} in
    (policy (gd (cs cf)) = policy (gd s0) \/ In (policy (gd (cs cf))) (loaded (cs cf)))
    /\ sets (gd (cs cf)) = (sets (gd s0) + count_true (thr cf))%nat
    /\ Forall (apply_ok (loaded (cs cf))) (thr cf).
Proof. exact @safe_from_start. Qed.
Print Assumptions c10_active_policy_was_loaded.

(* Only the last step of a check that then returns True touches the guard, and it installs the
   document that very check loaded (any interleaving: this is about one atomic step). *)
Theorem c10_applied_by_the_check_that_returns_true :
  forall (W St : Type) (c : cfg) (src : source W St) now u (s s' : sys W St) p p',
    step c src now u s p = (s', p') ->
    (gd s' = gd s /\ p' <> PDone true \/ p = PDone true /\ p' = PDone true /\ s' = s)
    \/ exists now0 e d, p = PApply now0 e d /\ p' = PDone true /\ gd s' = set_policy d (gd s)
                        /\ rl s' = applied c e (rl s) /\ loaded s' = loaded s.
Proof. exact @step_guard. Qed.
Print Assumptions c10_applied_by_the_check_that_returns_true.

(* When checks do not overlap (the world may change anywhere, also between etag() and load()):
   the active policy is the most recently loaded document. *)
Theorem c10_most_recent_when_sequential :
  forall (W St : Type) (c : cfg) (src : source W St) (p0 : doc) (its : list (@sitem W)) (s : sys W St),
    most_recent p0 s -> most_recent p0 (run_seq c src its s).
Proof. exact @most_recent_seq. Qed.
Print Assumptions c10_most_recent_when_sequential.

(* A whole check that returns True installed the document its own load() returned, cleared the
   cache once, reset the back-off and the error, and left the window alone. *)
Theorem c10_true_means_applied :
  forall (W St : Type) (c : cfg) (src : source W St) force now u mid (s : sys W St),
    snd (run_check c src force now u mid s) = PDone true ->
    let s' := fst (run_check c src force now u mid s) in
    exists d, loaded s' = d :: loaded s /\ gd s' = set_policy d (gd s)
              /\ last_error (rl s') = false /\ backoff (rl s') = bmin c
              /\ suppress_until (rl s') = suppress_until (rl s)
              /\ n_load s' = S (n_load s) /\ wld s' = mid (wld s).
Proof. exact @run_check_true. Qed.
Print Assumptions c10_true_means_applied.

(* The sequential semantics used above is one schedule of the interleaving semantics. *)
Theorem c10_check_is_a_schedule :
  forall (W St : Type) (c : cfg) (src : source W St) force now u mid (s : sys W St) ths,
    let n := length ths in
    run c src [LSpawn force; LStep n now u; LStep n now u; LWorld mid; LStep n now u; LStep n now u]
        {| cs := s; thr := ths |}
    = {| cs := fst (run_check c src force now u mid s); thr := ths ++ [snd (run_check c src force now u mid s)] |}.
Proof. exact @run_check_is_schedule. Qed.
Print Assumptions c10_check_is_a_schedule.

(* ================= failure is inert ================= *)

(* A check always returns a boolean (four steps suffice; the model has no other exit). *)
Theorem c10_check_returns :
  forall (W St : Type) (c : cfg) (src : source W St) force now u mid (s : sys W St),
    exists r, snd (run_check c src force now u mid s) = PDone r.
Proof. exact @run_check_done. Qed.
Print Assumptions c10_check_returns.

(* A check in which etag() raises (unforced), or the tag is unchanged (unforced), or load()
   raises, returns False ... *)
Theorem c10_failure_returns_false :
  forall (W St : Type) (c : cfg) (src : source W St) force now u mid (s : sys W St),
    let r1 := snd (s_etag src (sst s) (wld s)) in
    let st1 := fst (s_etag src (sst s) (wld s)) in
    (force = false /\ r1 = SErr)
    \/ (force = false /\ exists raw, r1 = SOk raw /\ same_tag (norm raw) (last_etag (rl s)) = true)
    \/ snd (s_load src st1 (mid (wld s))) = SErr ->
    snd (run_check c src force now u mid s) = PDone false.
Proof. exact @check_fails. Qed.
Print Assumptions c10_failure_returns_false.

(* ... and a check that returns False leaves policy, cache-clear count, stored tag and the log of
   loaded documents exactly as they were. *)
Theorem c10_failure_is_inert :
  forall (W St : Type) (c : cfg) (src : source W St) force now u mid (s : sys W St),
    snd (run_check c src force now u mid s) = PDone false ->
    let s' := fst (run_check c src force now u mid s) in
    gd s' = gd s /\ loaded s' = loaded s /\ last_etag (rl s') = last_etag (rl s)
    /\ wld s' = mid (wld s).
Proof. exact @run_check_false. Qed.
Print Assumptions c10_failure_is_inert.

(* The complete case analysis of one check (suppressed / etag raised / unchanged / load raised /
   applied), as an equation. *)
Theorem c10_check_cases :
  forall (W St : Type) (c : cfg) (src : source W St) force now u mid (s : sys W St),
    run_check c src force now u mid s = check_big c src force now u mid s.
Proof. exact @run_check_big. Qed.
Print Assumptions c10_check_cases.

(* ================= the back-off window ================= *)

(* One check: the window moves only when the check fails, and then to within
   [now + 0.2, now + max(0.2, backoff_max*(1+jitter_ratio))]; the back-off is doubled and clamped. *)
Theorem c10_backoff_bounded :
  forall (W St : Type) (c : cfg) (src : source W St) force now u mid (s : sys W St),
    cfg_ok c -> -1 <= u -> u <= 1 ->
    let s' := fst (run_check c src force now u mid s) in
    suppress_until (rl s') = suppress_until (rl s)
    \/ (snd (run_check c src force now u mid s) = PDone false
        /\ now + fifth <= suppress_until (rl s') <= now + window c
        /\ last_error (rl s') = true
        /\ backoff (rl s') = qmin (bmax c) (qmax (bmin c) (backoff (rl s) * 2))).
Proof. exact @check_window. Qed.
Print Assumptions c10_backoff_bounded.

(* Every interleaving: as long as no check read a clock value above T, the window ends by
   T + max(0.2, backoff_max*(1+jitter_ratio)) (or where it was to begin with). *)
Theorem c10_backoff_bounded_interleaved :
  forall (W St : Type) (c : cfg) (src : source W St) (T B : Q) (ls : list (label W)) (cf : conf W St),
    cfg_ok c -> T + window c <= B -> Forall (label_ok T) ls -> win_inv T B cf ->
    win_inv T B (run c src ls cf).
Proof. exact @window_run. Qed.
Print Assumptions c10_backoff_bounded_interleaved.

Theorem c10_backoff_doubles :
  forall c now u r, bmin c <= backoff r * 2 -> backoff r * 2 <= bmax c ->
    backoff (register_error c now u r) == backoff r * 2.
Proof. exact register_error_doubles. Qed.
Print Assumptions c10_backoff_doubles.

(* inside the window an unforced check does nothing at all (no source call, no state change) *)
Theorem c10_suppressed_check_is_a_noop :
  forall (W St : Type) (c : cfg) (src : source W St) now u mid (s : sys W St),
    now < suppress_until (rl s) ->
    run_check c src false now u mid s = (set_world (mid (wld s)) s, PDone false).
Proof. exact @check_suppressed. Qed.
Print Assumptions c10_suppressed_check_is_a_noop.

(* at or after suppress_until an unforced check consults the source *)
Theorem c10_window_ends :
  forall (W St : Type) (c : cfg) (src : source W St) now u mid (s : sys W St),
    suppress_until (rl s) <= now ->
    n_etag (fst (run_check c src false now u mid s)) = S (n_etag s).
Proof. exact @check_unsuppressed. Qed.
Print Assumptions c10_window_ends.

(* a forced check ignores the window: it always calls etag() and load() and applies what load() returns *)
Theorem c10_forced_ignores_window :
  forall (W St : Type) (c : cfg) (src : source W St) now u mid (s : sys W St),
    let st1 := fst (s_etag src (sst s) (wld s)) in
    let s' := fst (run_check c src true now u mid s) in
    n_etag s' = S (n_etag s) /\ n_load s' = S (n_load s) /\
    match snd (s_load src st1 (mid (wld s))) with
    | SOk d => snd (run_check c src true now u mid s) = PDone true /\ policy (gd s') = d
    | SErr => snd (run_check c src true now u mid s) = PDone false
    end.
Proof. exact @check_forced. Qed.
Print Assumptions c10_forced_ignores_window.

(* ================= convergence ================= *)

(* Generic form: the world has become w (document d, reported tag tg) and stays; the source is
   honest in w (hypotheses Hetag, Hload over an invariant I of its own state); the stored tag does
   not lie about w (coh).  A first check of any kind during which - between etag() and load(), or
   earlier - the world became w, then one unforced check outside the window: settled, i.e. the
   engine enforces d and the stored tag is tg. *)
Theorem c10_converges_generic :
  forall (W St : Type) (c : cfg) (src : source W St) (w : W) (d : doc) (tg : option tag) (I : St -> Prop),
    (forall st, I st -> exists st' raw, s_etag src st w = (st', SOk raw) /\ norm raw = tg /\ I st') ->
    (forall st, I st -> exists st', s_load src st w = (st', SOk d) /\ I st') ->
    forall force1 now1 u1 now2 u2 (s : sys W St),
      I (sst s) -> I (fst (s_etag src (sst s) (wld s))) -> coh d tg s ->
      let s1 := fst (run_check c src force1 now1 u1 (fun _ => w) s) in
      suppress_until (rl s1) <= now2 ->
      settled w d tg I (fst (run_check c src false now2 u2 idw s1)).
Proof. exact @converge_two. Qed.
Print Assumptions c10_converges_generic.

(* and settled is for ever: every later check keeps it; with a tag, unforced checks return False
   without calling load(); without a tag they reload the same document *)
Theorem c10_settled_is_stable :
  forall (W St : Type) (c : cfg) (src : source W St) (w : W) (d : doc) (tg : option tag) (I : St -> Prop),
    (forall st, I st -> exists st' raw, s_etag src st w = (st', SOk raw) /\ norm raw = tg /\ I st') ->
    (forall st, I st -> exists st', s_load src st w = (st', SOk d) /\ I st') ->
    forall force now u (s : sys W St),
      settled w d tg I s ->
      settled w d tg I (fst (run_check c src force now u idw s))
      /\ (forall t, tg = Some t -> force = false ->
            snd (run_check c src force now u idw s) = PDone false
            /\ n_load (fst (run_check c src force now u idw s)) = n_load s
            /\ gd (fst (run_check c src force now u idw s)) = gd s)
      /\ (tg = None -> suppress_until (rl s) <= now ->
            snd (run_check c src force now u idw s) = PDone true).
Proof. exact @settled_check. Qed.
Print Assumptions c10_settled_is_stable.

(* The shipped sources are honest: custom sources (content tag, version tag, no tag, non-str tag),
   FilePolicySource with and without mtime in the tag, S3PolicySource with each detector, and
   HTTPPolicySource behind a server that sends no ETag.  (Definitions carrying proofs.) *)
Definition c10_honest_custom : forall m, honest (gen_source m) := honest_gen.
Definition c10_honest_file : forall incl, honest (file_source incl) := honest_file.
Definition c10_honest_s3 : forall det, honest (s3_source det) := honest_s3.
Definition c10_honest_http_without_etags : honest (http_source false) := honest_http_noetag.
Print Assumptions c10_honest_custom.
Print Assumptions c10_honest_file.
Print Assumptions c10_honest_s3.
Print Assumptions c10_honest_http_without_etags.

(* Convergence for every honest source, from construction (initial_load on or off, sync or async
   source), through ANY interleaving [ls] of any number of checks and world events that satisfies
   [sched_fine] (no content change while a check holds a content tag between its etag() and its
   load()); then the world takes its final, loadable form w - possibly by events [es] landing
   between etag() and load() of the first of two checks - and after the second (unforced, outside
   the window) the engine enforces w's document d; all later checks keep it; if the source reports
   a tag every later unforced check returns False without calling load().
   Proviso (the statement's, made precise): if nothing was applied yet, the tag read at
   construction differs from w's tag, or the guard was built from d. *)
Theorem c10_converges :
  forall (St : Type) (c : cfg) (src : source world St) (H : honest src)
         il asy p0 w0 st0 (ls : list slabel) (es : list event) d force1 now1 u1 now2 u2,
    wf w0 -> h_inv H w0 st0 ->
    let cf0 := cf_init c src il asy p0 w0 st0 in
    sched_fine c src ls cf0 ->
    let s := cs (run c src (map to_label ls) cf0) in
    let w := apply_evs es (wld s) in
    loadable w d ->
    (sets (gd s) = O -> last_etag (rl (cs cf0)) <> h_tag H w \/ p0 = d) ->
    let s1 := fst (run_check c src force1 now1 u1 (fun _ => w) s) in
    suppress_until (rl s1) <= now2 ->
    let s2 := fst (run_check c src false now2 u2 idw s1) in
    policy (gd s2) = d /\
    forall its, only_checks its ->
      let s3 := run_seq c src its s2 in
      policy (gd s3) = d
      /\ (forall t, h_tag H w = Some t -> forall now u,
            snd (run_check c src false now u idw s3) = PDone false
            /\ n_load (fst (run_check c src false now u idw s3)) = n_load s3)
      /\ (h_tag H w = None -> forall now u, suppress_until (rl s3) <= now ->
            snd (run_check c src false now u idw s3) = PDone true
            /\ policy (gd (fst (run_check c src false now u idw s3))) = d).
Proof. exact @converge_honest_full. Qed.
Print Assumptions c10_converges.

(* Sources whose tags name a write (custom version tag, file with mtime in the tag): every
   schedule is fine - convergence over all interleavings without side condition. *)
Theorem c10_version_tags_immune :
  forall (St : Type) (c : cfg) (src : source world St) (ls : list slabel) (cf : conf world St),
    versioned src -> no_content_wait cf -> sched_fine c src ls cf.
Proof. exact @versioned_fine. Qed.
Print Assumptions c10_version_tags_immune.
Theorem c10_versioned_custom : versioned (gen_source GVersion).
Proof. exact versioned_gen. Qed.
Print Assumptions c10_versioned_custom.
Theorem c10_versioned_file_mtime : versioned (file_source true).
Proof. exact versioned_file. Qed.
Print Assumptions c10_versioned_file_mtime.

(* The invariant behind it, over all fine interleavings: the stored tag does not lie (rl_ok). *)
Theorem c10_stored_tag_is_truthful :
  forall (St : Type) (c : cfg) (src : source world St) (H : honest src) e0 p0 (ls : list slabel) cf,
    J src H e0 p0 cf -> sched_fine c src ls cf -> J src H e0 p0 (run c src (map to_label ls) cf).
Proof. exact @J_run. Qed.
Print Assumptions c10_stored_tag_is_truthful.

(* HTTP source behind a server that sends ETags: outside the class of F9 (stored tag = the tag the
   source object remembers) two unforced checks converge; the first already installs d. *)
Theorem c10_converges_http :
  forall (c : cfg) w d now1 u1 now2 u2 (s : sys world hsrc),
    wld s = w -> loadable w d -> http_inv (sst s) -> ~ f9_class s ->
    suppress_until (rl s) <= now1 ->
    let s1 := fst (run_check c http false now1 u1 idw s) in
    suppress_until (rl s1) <= now2 ->
    let s2 := fst (run_check c http false now2 u2 idw s1) in
    policy (gd s1) = d /\ http_settled w d s2.
Proof. exact http_converges. Qed.
Print Assumptions c10_converges_http.

(* The HTTP source's load() hands out nothing but the server's current document, and a failed
   load (unparsable body, 5xx, 404) leaves the source object as it was - the repair of F22
   (commit e788bd5); [http_inv] is preserved by every load (c10_http_inv_preserved). *)
Theorem c10_http_load_is_honest :
  forall w st d, http_inv st -> snd (s_load http st w) = SOk d -> exists m, store w = Some (BDoc d, m).
Proof. exact http_load_honest. Qed.
Print Assumptions c10_http_load_is_honest.
Theorem c10_http_failed_load_is_inert :
  forall w st, snd (s_load http st w) = SErr -> fst (s_load http st w) = st.
Proof. exact http_failed_load_inert. Qed.
Print Assumptions c10_http_failed_load_is_inert.
Theorem c10_http_inv_preserved :
  forall w st, http_inv st -> http_inv (fst (s_load http st w)).
Proof. exact http_inv_load. Qed.
Print Assumptions c10_http_inv_preserved.

(* ... but inside the class NOTHING short of a forced check ever loads again, whatever happens to
   the server (finding F9) ... *)
Theorem c10_http_etag_stuck :
  forall (c : cfg) (its : list (@sitem world)) (s : sys world hsrc),
    f9_class s -> no_forced its ->
    gd (run_seq c http its s) = gd s /\ n_load (run_seq c http its s) = n_load s.
Proof. exact f9_forever. Qed.
Print Assumptions c10_http_etag_stuck.

(* ... and the class is where every converged HTTP source ends up. *)
Theorem c10_http_settled_is_in_class :
  forall w d (s : sys world hsrc), http_settled w d s -> f9_class s.
Proof. exact http_settled_f9. Qed.
Print Assumptions c10_http_settled_is_in_class.

(* REFUTED (F9): initial_load=True on document 1, two polls, the server's document becomes 2 and
   stays: loadable, no window, yet every later history without a forced check leaves the engine on
   document 1 and never calls load(). *)
Theorem c10_refuted_http_etag :
  loadable (wld f9_state) 2%nat /\ suppress_until (rl f9_state) <= 0 /\ policy (gd f9_state) = 1%nat /\
  forall its, no_forced its ->
    policy (gd (run_seq cfg0 http its f9_state)) = 1%nat
    /\ n_load (run_seq cfg0 http its f9_state) = n_load f9_state.
Proof. exact f9_refutes. Qed.
Print Assumptions c10_refuted_http_etag.

(* REFUTED (F20): file source, content tag; one check during which document 2 replaces document 1
   between etag() and load(); the file is rolled back to document 1 and stays: loadable, no window,
   yet every later sequence of unforced checks leaves the engine on document 2 without loading. *)
Theorem c10_refuted_aba :
  loadable (wld aba_state) 1%nat /\ suppress_until (rl aba_state) <= 0 /\ policy (gd aba_state) = 2%nat /\
  forall its, unforced_checks its ->
    policy (gd (run_seq cfg0 (file_source false) its aba_state)) = 2%nat
    /\ n_load (run_seq cfg0 (file_source false) its aba_state) = n_load aba_state.
Proof. exact aba_refutes. Qed.
Print Assumptions c10_refuted_aba.

(* ================= non-vacuity ================= *)
Definition ev (e : event) : @sitem world := SEv (apply_ev e).
Definition st_file : fsrc := {| fc_sig := None; fc_sha := None |}.

(* two overlapping checks on a version-tagged custom source, the document changing between the
   first one's etag() and load(): both return True, two set_policy calls, engine on document 2 *)
Example c10_example_interleaved :
  let cf := run cfg0 (gen_source GVersion)
                [LSpawn false; LSpawn false; LStep 0%nat 1 0; LStep 0%nat 1 0; LWorld (apply_ev (EWrite (BDoc 2%nat)));
                 LStep 1%nat 1 0; LStep 1%nat 1 0; LStep 1%nat 1 0; LStep 1%nat 1 0; LStep 0%nat 1 0; LStep 0%nat 1 0]
                (cf_init cfg0 (gen_source GVersion) true false 1%nat w1 tt) in
  thr cf = [PDone true; PDone true] /\ sets (gd (cs cf)) = 2%nat /\ policy (gd (cs cf)) = 2%nat
  /\ loaded (cs cf) = [2%nat; 2%nat] /\ last_etag (rl (cs cf)) = Some (TVersion 1%nat).
Proof. vm_compute. repeat split. Qed.

(* a failing check (invalid JSON): False, guard untouched, error recorded, window = now + 4*(1+1/8) *)
Example c10_example_failure :
  let s := init cfg0 (file_source false) true false 1%nat w1 st_file in
  let r := run_check cfg0 (file_source false) false 10 1 idw (set_world (apply_ev (EWrite (BBad 1%nat)) w1) s) in
  snd r = PDone false /\ gd (fst r) = gd s /\ last_error (rl (fst r)) = true
  /\ suppress_until (rl (fst r)) == 145 # 10 /\ backoff (rl (fst r)) == 4
  /\ n_etag (fst r) = 1%nat /\ n_load (fst r) = 1%nat.
Proof. vm_compute. repeat split; discriminate. Qed.

(* cfg_ok, label_ok are satisfiable: the library defaults *)
Example c10_example_cfg : cfg_ok cfg0 /\ window cfg0 == 135 # 4.
Proof. unfold cfg_ok. vm_compute. repeat split; discriminate. Qed.

(* the hypotheses of c10_converges hold on: file source with mtime in the tag, reloader primed on
   document 1 (initial_load off, guard built from document 7), a schedule with a write between
   the etag() and the load() of a check, then document 3 landing inside the first of the two final
   checks; the outcome is computed independently: engine on 3, third check False without load *)
Definition ex_ls : list slabel :=
  [SLEv (EWrite (BDoc 2%nat)); SLSpawn false; SLStep 0%nat 1 0; SLStep 0%nat 1 0; SLEv (EWrite (BDoc 4%nat));
   SLStep 0%nat 1 0; SLStep 0%nat 1 0;
   SLEv (EWrite (BBad 1%nat)); SLSpawn false; SLStep 1%nat 2 1; SLStep 1%nat 2 1; SLStep 1%nat 2 1; SLStep 1%nat 2 1].
Example c10_example_converges :
  let src := file_source true in
  let cf0 := cf_init cfg0 src false false 7%nat w1 st_file in
  let s := cs (run cfg0 src (map to_label ex_ls) cf0) in
  let w := apply_evs [EWrite (BDoc 3%nat)] (wld s) in
  let s1 := fst (run_check cfg0 src false 100 0 (fun _ => w) s) in
  let s2 := fst (run_check cfg0 src false 200 0 idw s1) in
  let r3 := run_check cfg0 src false 300 0 idw s2 in
  wf w1 /\ h_inv (honest_file true) w1 st_file /\ sched_fine cfg0 src ex_ls cf0 /\ loadable w 3%nat
  /\ sets (gd s) = 1%nat /\ last_error (rl s) = true /\ suppress_until (rl s1) <= 200
  /\ policy (gd s2) = 3%nat /\ snd r3 = PDone false /\ n_load (fst r3) = n_load s2.
Proof.
  intros src cf0 s w s1 s2 r3.
  split. { intros b m E. inversion E; subst. simpl. auto. }
  split. { intros sz mt b' E. discriminate. }
  split. { apply versioned_fine; [exact versioned_file|constructor]. }
  split. { unfold loadable. vm_compute. repeat split; eauto. }
  vm_compute. repeat split; try reflexivity; discriminate.
Qed.

(* the side condition [sched_fine] is satisfiable for a content-tagged source (file source without
   mtime in the tag) on a schedule with world changes before and after a check *)
Definition ex_ls_content : list slabel :=
  [SLEv (EWrite (BDoc 2%nat)); SLSpawn false; SLStep 0%nat 1 0; SLStep 0%nat 1 0; SLStep 0%nat 1 0; SLStep 0%nat 1 0;
   SLEv (EWrite (BDoc 5%nat))].
Example c10_example_sched_fine_content :
  let src := file_source false in
  let cf0 := cf_init cfg0 src false false 1%nat w1 st_file in
  sched_fine cfg0 src ex_ls_content cf0
  /\ policy (gd (cs (run cfg0 src (map to_label ex_ls_content) cf0))) = 2%nat
  /\ loadable (wld (cs (run cfg0 src (map to_label ex_ls_content) cf0))) 5%nat.
Proof.
  intros src cf0. split; [|split].
  - cbn [sched_fine ex_ls_content]. repeat split; try exact I;
      intro Hex; exfalso; vm_compute in Hex;
      repeat match goal with H : Exists _ _ |- _ => inversion H; clear H; subst end; auto.
  - vm_compute. reflexivity.
  - unfold loadable. vm_compute. repeat split; eauto.
Qed.
