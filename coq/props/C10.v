(* C10 — Hot reload is fail-safe, version-tag gated and converges to the source.
   Statements only, about the model Reload.v (HotReloader) and Sources.v (the sources).
   W = type of worlds, St = type of the source object's own state; both arbitrary in the
   safety theorems (any source whatsoever), the shipped sources in the convergence ones.

   The statement's convergence clause does NOT hold for the code as it is:
     - c10_refuted_http_etag  (finding F9, HTTP source behind a server that sends ETags)
     - c10_refuted_aba        (finding F20, sources whose tag is a function of the content)
   c10_converges therefore carries the explicit side condition [sched_fine] (no content
   change falls between etag() and load() of a check that holds a content tag), which is
   vacuous for sources whose tags name a write (c10_version_tags_immune), and the HTTP
   source with ETags is covered outside the class of F9 by c10_converges_http. *)
From Coq Require Import List Bool Arith QArith.
From Rbacx Require Import Reload Sources ReloadProofs SourcesProofs.
Import ListNotations.
Local Open Scope Q_scope.

(* ================= the active policy was loaded ================= *)

(* Over every interleaving of any number of checks (plain or forced) with each other and with
   arbitrary changes of the world, for every source: the guard's policy is the initial one or a
   document returned by a successful load(); set_policy was called exactly once per check that
   returned True; a check about to apply holds a document that a load returned. *)
Theorem c10_active_policy_was_loaded :
  forall (W St : Type) (c : cfg) (src : source W St) (s0 : sys W St) (ls : list (label W)),
    let cf := run c src ls {| cs := s0; thr := [] |} in
    (policy (gd (cs cf)) = policy (gd s0) \/ In (policy (gd (cs cf))) (loaded (cs cf)))
    /\ sets (gd (cs cf)) = (sets (gd s0) + count_true (thr cf))%nat
    /\ Forall (apply_ok (loaded (cs cf))) (thr cf).
Proof. exact @safe_from_start. Qed.
Print Assumptions c10_active_policy_was_loaded.

(* Only the last step of a check that then returns True touches the guard, and it installs the
   document that very check loaded (any interleaving: this is about one atomic step). *)
Theorem c10_applied_by_the_check_that_returns_true :
  forall (W St : Type) (c : cfg) (src : source W St) now u (s s' : sys W St) p p',
    step c src now u s p = (s', p') ->
    (gd s' = gd s /\ p' <> PDone true \/ p = PDone true /\ p' = PDone true /\ s' = s)
    \/ exists now0 e d, p = PApply now0 e d /\ p' = PDone true /\ gd s' = set_policy d (gd s)
                        /\ rl s' = applied c e (rl s) /\ loaded s' = loaded s.
Proof. exact @step_guard. Qed.
Print Assumptions c10_applied_by_the_check_that_returns_true.

(* When checks do not overlap (the world may change anywhere, also between etag() and load()):
   the active policy is the most recently loaded document. *)
Theorem c10_most_recent_when_sequential :
  forall (W St : Type) (c : cfg) (src : source W St) (p0 : doc) (its : list (@sitem W)) (s : sys W St),
    most_recent p0 s -> most_recent p0 (run_seq c src its s).
Proof. exact @most_recent_seq. Qed.
Print Assumptions c10_most_recent_when_sequential.

(* A whole check that returns True installed the document its own load() returned, cleared the
   cache once, reset the back-off and the error, and left the window alone. *)
Theorem c10_true_means_applied :
  forall (W St : Type) (c : cfg) (src : source W St) force now u mid (s : sys W St),
    snd (run_check c src force now u mid s) = PDone true ->
    let s' := fst (run_check c src force now u mid s) in
    exists d, loaded s' = d :: loaded s /\ gd s' = set_policy d (gd s)
              /\ last_error (rl s') = false /\ backoff (rl s') = bmin c
              /\ suppress_until (rl s') = suppress_until (rl s)
              /\ n_load s' = S (n_load s) /\ wld s' = mid (wld s).
Proof. exact @run_check_true. Qed.
Print Assumptions c10_true_means_applied.

(* The sequential semantics used above is one schedule of the interleaving semantics. *)
Theorem c10_check_is_a_schedule :
  forall (W St : Type) (c : cfg) (src : source W St) force now u mid (s : sys W St) ths,
    let n := length ths in
    run c src [LSpawn force; LStep n now u; LStep n now u; LWorld mid; LStep n now u; LStep n now u]
        {| cs := s; thr := ths |}
    = {| cs := fst (run_check c src force now u mid s); thr := ths ++ [snd (run_check c src force now u mid s)] |}.
Proof. exact @run_check_is_schedule. Qed.
Print Assumptions c10_check_is_a_schedule.

(* ================= failure is inert ================= *)

(* A check always returns a boolean (four steps suffice; the model has no other exit). *)
Theorem c10_check_returns :
  forall (W St : Type) (c : cfg) (src : source W St) force now u mid (s : sys W St),
    exists r, snd (run_check c src force now u mid s) = PDone r.
Proof. exact @run_check_done. Qed.
Print Assumptions c10_check_returns.

(* A check in which etag() raises (unforced), or the tag is unchanged (unforced), or load()
   raises, returns False ... *)
Theorem c10_failure_returns_false :
  forall (W St : Type) (c : cfg) (src : source W St) force now u mid (s : sys W St),
    let r1 := snd (s_etag src (sst s) (wld s)) in
    let st1 := fst (s_etag src (sst s) (wld s)) in
    (force = false /\ r1 = SErr)
    \/ (force = false /\ exists raw, r1 = SOk raw /\ same_tag (norm raw) (last_etag (rl s)) = true)
    \/ snd (s_load src st1 (mid (wld s))) = SErr ->
    snd (run_check c src force now u mid s) = PDone false.
Proof. exact @check_fails. Qed.
Print Assumptions c10_failure_returns_false.

(* ... and a check that returns False leaves policy, cache-clear count, stored tag and the log of
   loaded documents exactly as they were. *)
Theorem c10_failure_is_inert :
  forall (W St : Type) (c : cfg) (src : source W St) force now u mid (s : sys W St),
    snd (run_check c src force now u mid s) = PDone false ->
    let s' := fst (run_check c src force now u mid s) in
    gd s' = gd s /\ loaded s' = loaded s /\ last_etag (rl s') = last_etag (rl s)
    /\ wld s' = mid (wld s).
Proof. exact @run_check_false. Qed.
Print Assumptions c10_failure_is_inert.

(* The complete case analysis of one check (suppressed / etag raised / unchanged / load raised /
   applied), as an equation. *)
Theorem c10_check_cases :
  forall (W St : Type) (c : cfg) (src : source W St) force now u mid (s : sys W St),
    run_check c src force now u mid s = check_big c src force now u mid s.
Proof. exact @run_check_big. Qed.
Print Assumptions c10_check_cases.

(* ================= the back-off window ================= *)

(* One check: the window moves only when the check fails, and then to within
   [now + 0.2, now + max(0.2, backoff_max*(1+jitter_ratio))]; the back-off is doubled and clamped. *)
Theorem c10_backoff_bounded :
  forall (W St : Type) (c : cfg) (src : source W St) force now u mid (s : sys W St),
    cfg_ok c -> -1 <= u -> u <= 1 ->
    let s' := fst (run_check c src force now u mid s) in
    suppress_until (rl s') = suppress_until (rl s)
    \/ (snd (run_check c src force now u mid s) = PDone false
        /\ now + fifth <= suppress_until (rl s') <= now + window c
        /\ last_error (rl s') = true
        /\ backoff (rl s') = qmin (bmax c) (qmax (bmin c) (backoff (rl s) * 2))).
Proof. exact @check_window. Qed.
Print Assumptions c10_backoff_bounded.

(* Every interleaving: as long as no check read a clock value above T, the window ends by
   T + max(0.2, backoff_max*(1+jitter_ratio)) (or where it was to begin with). *)
Theorem c10_backoff_bounded_interleaved :
  forall (W St : Type) (c : cfg) (src : source W St) (T B : Q) (ls : list (label W)) (cf : conf W St),
    cfg_ok c -> T + window c <= B -> Forall (label_ok T) ls -> win_inv T B cf ->
    win_inv T B (run c src ls cf).
Proof. exact @window_run. Qed.
Print Assumptions c10_backoff_bounded_interleaved.

Theorem c10_backoff_doubles :
  forall c now u r, bmin c <= backoff r * 2 -> backoff r * 2 <= bmax c ->
    backoff (register_error c now u r) == backoff r * 2.
Proof. exact register_error_doubles. Qed.
Print Assumptions c10_backoff_doubles.

(* inside the window an unforced check does nothing at all (no source call, no state change) *)
Theorem c10_suppressed_check_is_a_noop :
  forall (W St : Type) (c : cfg) (src : source W St) now u mid (s : sys W St),
    now < suppress_until (rl s) ->
    run_check c src false now u mid s = (set_world (mid (wld s)) s, PDone false).
Proof. exact @check_suppressed. Qed.
Print Assumptions c10_suppressed_check_is_a_noop.

(* at or after suppress_until an unforced check consults the source *)
Theorem c10_window_ends :
  forall (W St : Type) (c : cfg) (src : source W St) now u mid (s : sys W St),
    suppress_until (rl s) <= now ->
    n_etag (fst (run_check c src false now u mid s)) = S (n_etag s).
Proof. exact @check_unsuppressed. Qed.
Print Assumptions c10_window_ends.

(* a forced check ignores the window: it always calls etag() and load() and applies what load() returns *)
Theorem c10_forced_ignores_window :
  forall (W St : Type) (c : cfg) (src : source W St) now u mid (s : sys W St),
    let st1 := fst (s_etag src (sst s) (wld s)) in
    let s' := fst (run_check c src true now u mid s) in
    n_etag s' = S (n_etag s) /\ n_load s' = S (n_load s) /\
    match snd (s_load src st1 (mid (wld s))) with
    | SOk d => snd (run_check c src true now u mid s) = PDone true /\ policy (gd s') = d
    | SErr => snd (run_check c src true now u mid s) = PDone false
    end.
Proof. exact @check_forced. Qed.
Print Assumptions c10_forced_ignores_window.

(* ================= convergence ================= *)

(* Generic form: the world has become w (document d, reported tag tg) and stays; the source is
   honest in w (hypotheses Hetag, Hload over an invariant I of its own state); the stored tag does
   not lie about w (coh).  A first check of any kind during which - between etag() and load(), or
   earlier - the world became w, then one unforced check outside the window: settled, i.e. the
   engine enforces d and the stored tag is tg. *)
Theorem c10_converges_generic :
  forall (W St : Type) (c : cfg) (src : source W St) (w : W) (d : doc) (tg : option tag) (I : St -> Prop),
    (forall st, I st -> exists st' raw, s_etag src st w = (st', SOk raw) /\ norm raw = tg /\ I st') ->
    (forall st, I st -> exists st', s_load src st w = (st', SOk d) /\ I st') ->
    forall force1 now1 u1 now2 u2 (s : sys W St),
      I (sst s) -> I (fst (s_etag src (sst s) (wld s))) -> coh d tg s ->
      let s1 := fst (run_check c src force1 now1 u1 (fun _ => w) s) in
      suppress_until (rl s1) <= now2 ->
      settled w d tg I (fst (run_check c src false now2 u2 idw s1)).
Proof. exact @converge_two. Qed.
Print Assumptions c10_converges_generic.

(* and settled is for ever: every later check keeps it; with a tag, unforced checks return False
   without calling load(); without a tag they reload the same document *)
Theorem c10_settled_is_stable :
  forall (W St : Type) (c : cfg) (src : source W St) (w : W) (d : doc) (tg : option tag) (I : St -> Prop),
    (forall st, I st -> exists st' raw, s_etag src st w = (st', SOk raw) /\ norm raw = tg /\ I st') ->
    (forall st, I st -> exists st', s_load src st w = (st', SOk d) /\ I st') ->
    forall force now u (s : sys W St),
      settled w d tg I s ->
      settled w d tg I (fst (run_check c src force now u idw s))
      /\ (forall t, tg = Some t -> force = false ->
            snd (run_check c src force now u idw s) = PDone false
            /\ n_load (fst (run_check c src force now u idw s)) = n_load s
            /\ gd (fst (run_check c src force now u idw s)) = gd s)
      /\ (tg = None -> suppress_until (rl s) <= now ->
            snd (run_check c src force now u idw s) = PDone true).
Proof. exact @settled_check. Qed.
Print Assumptions c10_settled_is_stable.

(* The shipped sources are honest: custom sources (content tag, version tag, no tag, non-str tag),
   FilePolicySource with and without mtime in the tag, S3PolicySource with each detector, and
   HTTPPolicySource behind a server that sends no ETag.  (Definitions carrying proofs.) *)
Definition c10_honest_custom : forall m, honest (gen_source m) := honest_gen.
Definition c10_honest_file : forall incl, honest (file_source incl) := honest_file.
Definition c10_honest_s3 : forall det, honest (s3_source det) := honest_s3.
Definition c10_honest_http_without_etags : honest (http_source false) := honest_http_noetag.
Print Assumptions c10_honest_custom.
Print Assumptions c10_honest_file.
Print Assumptions c10_honest_s3.
Print Assumptions c10_honest_http_without_etags.

(* Convergence for every honest source, from construction (initial_load on or off, sync or async
   source), through ANY interleaving [ls] of any number of checks and world events that satisfies
   [sched_fine] (no content change while a check holds a content tag between its etag() and its
   load()); then the world takes its final, loadable form w - possibly by events [es] landing
   between etag() and load() of the first of two checks - and after the second (unforced, outside
   the window) the engine enforces w's document d; all later checks keep it; if the source reports
   a tag every later unforced check returns False without calling load().
   Proviso (the statement's, made precise): if nothing was applied yet, the tag read at
   construction differs from w's tag, or the guard was built from d. *)
Theorem c10_converges :
  forall (St : Type) (c : cfg) (src : source world St) (H : honest src)
         il asy p0 w0 st0 (ls : list slabel) (es : list event) d force1 now1 u1 now2 u2,
    wf w0 -> h_inv H w0 st0 ->
    let cf0 := cf_init c src il asy p0 w0 st0 in
    sched_fine c src ls cf0 ->
    let s := cs (run c src (map to_label ls) cf0) in
    let w := apply_evs es (wld s) in
    loadable w d ->
    (sets (gd s) = O -> last_etag (rl (cs cf0)) <> h_tag H w \/ p0 = d) ->
    let s1 := fst (run_check c src force1 now1 u1 (fun _ => w) s) in
    suppress_until (rl s1) <= now2 ->
    let s2 := fst (run_check c src false now2 u2 idw s1) in
    policy (gd s2) = d /\
    forall its, only_checks its ->
      let s3 := run_seq c src its s2 in
      policy (gd s3) = d
      /\ (forall t, h_tag H w = Some t -> forall now u,
            snd (run_check c src false now u idw s3) = PDone false
            /\ n_load (fst (run_check c src false now u idw s3)) = n_load s3)
      /\ (h_tag H w = None -> forall now u, suppress_until (rl s3) <= now ->
            snd (run_check c src false now u idw s3) = PDone true
            /\ policy (gd (fst (run_check c src false now u idw s3))) = d).
Proof. exact @converge_honest_full. Qed.
Print Assumptions c10_converges.

(* Sources whose tags name a write (custom version tag, file with mtime in the tag): every
   schedule is fine - convergence over all interleavings without side condition. *)
Theorem c10_version_tags_immune :
  forall (St : Type) (c : cfg) (src : source world St) (ls : list slabel) (cf : conf world St),
    versioned src -> no_content_wait cf -> sched_fine c src ls cf.
Proof. exact @versioned_fine. Qed.
Print Assumptions c10_version_tags_immune.
Theorem c10_versioned_custom : versioned (gen_source GVersion).
Proof. exact versioned_gen. Qed.
Print Assumptions c10_versioned_custom.
Theorem c10_versioned_file_mtime : versioned (file_source true).
Proof. exact versioned_file. Qed.
Print Assumptions c10_versioned_file_mtime.

(* The invariant behind it, over all fine interleavings: the stored tag does not lie (rl_ok). *)
Theorem c10_stored_tag_is_truthful :
  forall (St : Type) (c : cfg) (src : source world St) (H : honest src) e0 p0 (ls : list slabel) cf,
    J src H e0 p0 cf -> sched_fine c src ls cf -> J src H e0 p0 (run c src (map to_label ls) cf).
Proof. exact @J_run. Qed.
Print Assumptions c10_stored_tag_is_truthful.

(* HTTP source behind a server that sends ETags: outside the class of F9 (stored tag = the tag the
   source object remembers) two unforced checks converge; the first already installs d. *)
Theorem c10_converges_http :
  forall (c : cfg) w d now1 u1 now2 u2 (s : sys world hsrc),
    wld s = w -> loadable w d -> http_inv (sst s) -> ~ f9_class s ->
    suppress_until (rl s) <= now1 ->
    let s1 := fst (run_check c http false now1 u1 idw s) in
    suppress_until (rl s1) <= now2 ->
    let s2 := fst (run_check c http false now2 u2 idw s1) in
    policy (gd s1) = d /\ http_settled w d s2.
Proof. exact http_converges. Qed.
Print Assumptions c10_converges_http.

(* The HTTP source's load() hands out nothing but the server's current document, and a failed
   load (unparsable body, 5xx, 404) leaves the source object as it was - the repair of F22
   (commit e788bd5); [http_inv] is preserved by every load (c10_http_inv_preserved). *)
Theorem c10_http_load_is_honest :
  forall w st d, http_inv st -> snd (s_load http st w) = SOk d -> exists m, store w = Some (BDoc d, m).
Proof. exact http_load_honest. Qed.
Print Assumptions c10_http_load_is_honest.
Theorem c10_http_failed_load_is_inert :
  forall w st, snd (s_load http st w) = SErr -> fst (s_load http st w) = st.
Proof. exact http_failed_load_inert. Qed.
Print Assumptions c10_http_failed_load_is_inert.
Theorem c10_http_inv_preserved :
  forall w st, http_inv st -> http_inv (fst (s_load http st w)).
Proof. exact http_inv_load. Qed.
Print Assumptions c10_http_inv_preserved.

(* ... but inside the class NOTHING short of a forced check ever loads again, whatever happens to
   the server (finding F9) ... *)
Theorem c10_http_etag_stuck :
  forall (c : cfg) (its : list (@sitem world)) (s : sys world hsrc),
    f9_class s -> no_forced its ->
    gd (run_seq c http its s) = gd s /\ n_load (run_seq c http its s) = n_load s.
Proof. exact f9_forever. Qed.
Print Assumptions c10_http_etag_stuck.

(* ... and the class is where every converged HTTP source ends up. *)
Theorem c10_http_settled_is_in_class :
  forall w d (s : sys world hsrc), http_settled w d s -> f9_class s.
Proof. exact http_settled_f9. Qed.
Print Assumptions c10_http_settled_is_in_class.

(* REFUTED (F9): initial_load=True on document 1, two polls, the server's document becomes 2 and
   stays: loadable, no window, yet every later history without a forced check leaves the engine on
   document 1 and never calls load(). *)
Theorem c10_refuted_http_etag :
  loadable (wld f9_state) 2%nat /\ suppress_until (rl f9_state) <= 0 /\ policy (gd f9_state) = 1%nat /\
  forall its, no_forced its ->
    policy (gd (run_seq cfg0 http its f9_state)) = 1%nat
    /\ n_load (run_seq cfg0 http its f9_state) = n_load f9_state.
Proof. exact f9_refutes. Qed.
Print Assumptions c10_refuted_http_etag.

(* REFUTED (F20): file source, content tag; one check during which document 2 replaces document 1
   between etag() and load(); the file is rolled back to document 1 and stays: loadable, no window,
   yet every later sequence of unforced checks leaves the engine on document 2 without loading. *)
Theorem c10_refuted_aba :
  loadable (wld aba_state) 1%nat /\ suppress_until (rl aba_state) <= 0 /\ policy (gd aba_state) = 2%nat /\
  forall its, unforced_checks its ->
    policy (gd (run_seq cfg0 (file_source false) its aba_state)) = 2%nat
    /\ n_load (run_seq cfg0 (file_source false) its aba_state) = n_load aba_state.
Proof. exact aba_refutes. Qed.
Print Assumptions c10_refuted_aba.

(* ================= non-vacuity ================= *)
Definition ev (e : event) : @sitem world := SEv (apply_ev e).
Definition st_file : fsrc := {| fc_sig := None; fc_sha := None |}.

(* two overlapping checks on a version-tagged custom source, the document changing between the
   first one's etag() and load(): both return True, two set_policy calls, engine on document 2 *)
Example c10_example_interleaved :
  let cf := run cfg0 (gen_source GVersion)
                [LSpawn false; LSpawn false; LStep 0%nat 1 0; LStep 0%nat 1 0; LWorld (apply_ev (EWrite (BDoc 2%nat)));
                 LStep 1%nat 1 0; LStep 1%nat 1 0; LStep 1%nat 1 0; LStep 1%nat 1 0; LStep 0%nat 1 0; LStep 0%nat 1 0]
                (cf_init cfg0 (gen_source GVersion) true false 1%nat w1 tt) in
  thr cf = [PDone true; PDone true] /\ sets (gd (cs cf)) = 2%nat /\ policy (gd (cs cf)) = 2%nat
  /\ loaded (cs cf) = [2%nat; 2%nat] /\ last_etag (rl (cs cf)) = Some (TVersion 1%nat).
Proof. vm_compute. repeat split. Qed.

(* a failing check (invalid JSON): False, guard untouched, error recorded, window = now + 4*(1+1/8) *)
Example c10_example_failure :
  let s := init cfg0 (file_source false) true false 1%nat w1 st_file in
  let r := run_check cfg0 (file_source false) false 10 1 idw (set_world (apply_ev (EWrite (BBad 1%nat)) w1) s) in
  snd r = PDone false /\ gd (fst r) = gd s /\ last_error (rl (fst r)) = true
  /\ suppress_until (rl (fst r)) == 145 # 10 /\ backoff (rl (fst r)) == 4
  /\ n_etag (fst r) = 1%nat /\ n_load (fst r) = 1%nat.
Proof. vm_compute. repeat split; discriminate. Qed.

(* cfg_ok, label_ok are satisfiable: the library defaults *)
Example c10_example_cfg : cfg_ok cfg0 /\ window cfg0 == 135 # 4.
Proof. unfold cfg_ok. vm_compute. repeat split; discriminate. Qed.

(* the hypotheses of c10_converges hold on: file source with mtime in the tag, reloader primed on
   document 1 (initial_load off, guard built from document 7), a schedule with a write between
   the etag() and the load() of a check, then document 3 landing inside the first of the two final
   checks; the outcome is computed independently: engine on 3, third check False without load *)
Definition ex_ls : list slabel :=
  [SLEv (EWrite (BDoc 2%nat)); SLSpawn false; SLStep 0%nat 1 0; SLStep 0%nat 1 0; SLEv (EWrite (BDoc 4%nat));
   SLStep 0%nat 1 0; SLStep 0%nat 1 0;
   SLEv (EWrite (BBad 1%nat)); SLSpawn false; SLStep 1%nat 2 1; SLStep 1%nat 2 1; SLStep 1%nat 2 1; SLStep 1%nat 2 1].
Example c10_example_converges :
  let src := file_source true in
  let cf0 := cf_init cfg0 src false false 7%nat w1 st_file in
  let s := cs (run cfg0 src (map to_label ex_ls) cf0) in
  let w := apply_evs [EWrite (BDoc 3%nat)] (wld s) in
  let s1 := fst (run_check cfg0 src false 100 0 (fun _ => w) s) in
  let s2 := fst (run_check cfg0 src false 200 0 idw s1) in
  let r3 := run_check cfg0 src false 300 0 idw s2 in
  wf w1 /\ h_inv (honest_file true) w1 st_file /\ sched_fine cfg0 src ex_ls cf0 /\ loadable w 3%nat
  /\ sets (gd s) = 1%nat /\ last_error (rl s) = true /\ suppress_until (rl s1) <= 200
  /\ policy (gd s2) = 3%nat /\ snd r3 = PDone false /\ n_load (fst r3) = n_load s2.
Proof.
  intros src cf0 s w s1 s2 r3.
  split. { intros b m E. inversion E; subst. simpl. auto. }
  split. { intros sz mt b' E. discriminate. }
  split. { apply versioned_fine; [exact versioned_file|constructor]. }
  split. { unfold loadable. vm_compute. repeat split; eauto. }
  vm_compute. repeat split; try reflexivity; discriminate.
Qed.

(* the side condition [sched_fine] is satisfiable for a content-tagged source (file source without
   mtime in the tag) on a schedule with world changes before and after a check *)
Definition ex_ls_content : list slabel :=
  [SLEv (EWrite (BDoc 2%nat)); SLSpawn false; SLStep 0%nat 1 0; SLStep 0%nat 1 0; SLStep 0%nat 1 0; SLStep 0%nat 1 0;
   SLEv (EWrite (BDoc 5%nat))].
Example c10_example_sched_fine_content :
  let src := file_source false in
  let cf0 := cf_init cfg0 src false false 1%nat w1 st_file in
  sched_fine cfg0 src ex_ls_content cf0
  /\ policy (gd (cs (run cfg0 src (map to_label ex_ls_content) cf0))) = 2%nat
  /\ loadable (wld (cs (run cfg0 src (map to_label ex_ls_content) cf0))) 5%nat.
Proof.
  intros src cf0. split; [|split].
  - cbn [sched_fine ex_ls_content]. repeat split; try exact I;
      intro Hex; exfalso; vm_compute in Hex;
      repeat match goal with H : Exists _ _ |- _ => inversion H; clear H; subst end; auto.
  - vm_compute. reflexivity.
  - unfold loadable. vm_compute. repeat split; eauto.
Qed.

(* ================= the file deployment: atomic_write under a polling reloader ================= *)
(* Composition with C16 (theories/ReloadFile.v).  W := FileStore.fsys (the directory), St :=
   FileStore's FilePolicySource state (_cached_stat_sig, _cached_sha); [RF.fs_source] is
   FileStore's etag()/load() as a source of this model; the bridge between the vocabularies is
   explicit: [h] = SHA-256 of a text as the tag model names it, [code] = the reloader model's name
   (a nat) of a parsed policy, parse = FileStore's parse_file (by extension, then the optional
   schema validation).  [FS.atomic_write fs0 path new now cands sc] with its fault script [sc]
   (every step Done / Fail / Crash, the write piecewise) yields the directories after its completed
   steps, [RF.aw_states]; a schedule [its] interleaves  RF.IWrite  (the writer's next step; nothing
   once it has finished or died) with the spawning and the atomic steps of any number of checks;
   [RF.run_sys] runs it with Reload.v's [run]. *)
From Rbacx Require Value FileStore FileStoreProofs ReloadFile.
Module FS := FileStore.
Module FSP := FileStoreProofs.
Module RF := ReloadFile.

(* For every directory in which the path holds a complete file [fold], every fault script (crash
   point, partial write) of  atomic_write(path, new) , every schedule of checks - plain or forced,
   overlapping - among the writer's steps and after them: the path shows the old or the new file;
   the engine enforces its initial policy, parse(old) or parse(new); every document load() ever
   returned and every document a check in flight is about to install is parse(old) or parse(new)
   (never the parse of a prefix, although the prefix is on the disk and may be valid: example
   below); and set_policy ran once per check that returned True - a failed or invalid load leaves
   the previous policy active. *)
Theorem c10_reload_never_sees_torn_policy :
  forall (h : FS.bytes -> bytes) (json_loads yaml_safe_load : FS.bytes -> Value.res Value.value)
         (schema_ok : Value.value -> bool) (code : Value.value -> doc) (fcfg : FS.config) (c : cfg)
         (fs0 : FS.fsys) (fold : FS.file) (new : FS.bytes) (now : BinNums.Z)
         (cands : list String.string) (sc : FS.script),
    FSP.not_candidate (FS.c_path fcfg) cands ->
    FS.lookup (FS.c_path fcfg) fs0 = Some fold ->
    forall (s0 : sys FS.fsys (FS.source bytes)) (its : list RF.item),
    wld s0 = fs0 -> loaded s0 = [] ->
    let path := FS.c_path fcfg in
    let fnew := FS.mkFile new now in
    let parse := RF.parse_at json_loads yaml_safe_load schema_ok fcfg in
    let whole d := exists v, (parse (Some fold) = Value.Ok v \/ parse (Some fnew) = Value.Ok v) /\ d = code v in
    let cf := RF.run_sys h json_loads yaml_safe_load schema_ok code fcfg c its
                (RF.aw_states (FS.atomic_write fs0 path new now cands sc)) {| cs := s0; thr := [] |} in
    (FS.lookup path (wld (cs cf)) = Some fold \/ FS.lookup path (wld (cs cf)) = Some fnew)
    /\ (policy (gd (cs cf)) = policy (gd s0)
        \/ (exists v, parse (Some fold) = Value.Ok v /\ policy (gd (cs cf)) = code v)
        \/ (exists v, parse (Some fnew) = Value.Ok v /\ policy (gd (cs cf)) = code v))
    /\ Forall whole (loaded (cs cf))
    /\ Forall (fun p => match p with PApply _ _ d => whole d | _ => True end) (thr cf)
    /\ sets (gd (cs cf)) = (sets (gd s0) + count_true (thr cf))%nat.
Proof. exact RF.reload_never_sees_torn_policy. Qed.
Print Assumptions c10_reload_never_sees_torn_policy.

(* The fail-safe clause at any point of the write (mid-write, after a crash, file missing): if what
   stands at the path when load() runs is missing or does not parse / validate, the check returns
   False and guard, log and stored tag are as before. *)
Theorem c10_reload_failed_load_keeps_policy :
  forall (h : FS.bytes -> bytes) (json_loads yaml_safe_load : FS.bytes -> Value.res Value.value)
         (schema_ok : Value.value -> bool) (code : Value.value -> doc) (fcfg : FS.config) (c : cfg)
         force now u (mid : FS.fsys -> FS.fsys) (s : sys FS.fsys (FS.source bytes)),
    (forall v, RF.parse_at json_loads yaml_safe_load schema_ok fcfg
                 (FS.lookup (FS.c_path fcfg) (mid (wld s))) <> Value.Ok v) ->
    let r := run_check c (RF.fs_source h json_loads yaml_safe_load schema_ok code fcfg) force now u mid s in
    snd r = PDone false /\ gd (fst r) = gd s /\ loaded (fst r) = loaded s
    /\ last_etag (rl (fst r)) = last_etag (rl s).
Proof. exact RF.reload_failed_load_keeps_policy. Qed.
Print Assumptions c10_reload_failed_load_keeps_policy.

(* atomic_write returned (no crash, no exception) and [new] parses (and validates) to [vnew];
   [s] is the system at any later moment, the directory as the write left it.  Hypotheses on the
   tag, as c10_converges_generic has them: the (size, mtime_ns)-keyed hash cache is coherent with
   the new file (FileStoreProofs.coherent: c10_file_cache_coherent_after_write says when) and the
   stored tag is not already the new file's (c10_file_tag_differs: a different content hash
   suffices).  Then the next check that is due, or a forced one, returns True and installs
   parse(new); every later unforced check returns False, calls no load() and leaves the guard. *)
Theorem c10_reload_converges_after_atomic_write :
  forall (h : FS.bytes -> bytes) (json_loads yaml_safe_load : FS.bytes -> Value.res Value.value)
         (schema_ok : Value.value -> bool) (code : Value.value -> doc) (fcfg : FS.config) (c : cfg)
         (fs0 : FS.fsys) (new : FS.bytes) (now : BinNums.Z) (cands : list String.string) (sc : FS.script),
    FSP.not_candidate (FS.c_path fcfg) cands ->
    forall (vnew : Value.value) (s : sys FS.fsys (FS.source bytes)) force now1 u1,
    let r := FS.atomic_write fs0 (FS.c_path fcfg) new now cands sc in
    let fnew := FS.mkFile new now in
    let src := RF.fs_source h json_loads yaml_safe_load schema_ok code fcfg in
    FS.r_out r = FS.Returned ->
    wld s = FS.r_fs r ->
    RF.parse_at json_loads yaml_safe_load schema_ok fcfg (Some fnew) = Value.Ok vnew ->
    FSP.coherent bytes h fcfg (sst s) (FS.r_fs r) ->
    last_etag (rl s) <> Some (RF.ftag h fcfg fnew) ->
    force = true \/ suppress_until (rl s) <= now1 ->
    let r1 := run_check c src force now1 u1 idw s in
    snd r1 = PDone true
    /\ gd (fst r1) = set_policy (code vnew) (gd s)
    /\ last_etag (rl (fst r1)) = Some (RF.ftag h fcfg fnew)
    /\ last_error (rl (fst r1)) = false
    /\ forall its, only_checks its ->
         let s3 := run_seq c src its (fst r1) in
         policy (gd s3) = code vnew /\ wld s3 = FS.r_fs r /\
         forall now' u',
           let r4 := run_check c src false now' u' idw s3 in
           snd r4 = PDone false /\ gd (fst r4) = gd s3 /\ n_load (fst r4) = n_load s3.
Proof. exact RF.reload_converges_after_atomic_write. Qed.
Print Assumptions c10_reload_converges_after_atomic_write.

(* The whole story in one statement.  Start: the path holds [fold]; no check in flight; the hash
   cache is empty or stems from the old or new file (RF.cache_ok); the stored tag is not the new
   file's unless the guard already enforces parse(new) (coh - C10's proviso; holds when the
   reloader was primed on, or last loaded, the old file).  The tag separates the two files
   (ftag fold <> ftag fnew) and a file with old's (size, mtime_ns) has old's hash.  ANY schedule
   of plain / forced / overlapping checks with the writer's steps in which the writer finishes and
   returns; then one more check, due or forced: the engine enforces parse(new), the stored tag is
   the new file's, and every later unforced check returns False without loading.  (Checks still in
   flight at the end of the schedule take no further step, as in c10_converges.) *)
Theorem c10_reload_converges_through_atomic_write :
  forall (h : FS.bytes -> bytes) (json_loads yaml_safe_load : FS.bytes -> Value.res Value.value)
         (schema_ok : Value.value -> bool) (code : Value.value -> doc) (fcfg : FS.config) (c : cfg)
         (fs0 : FS.fsys) (fold : FS.file) (new : FS.bytes) (now : BinNums.Z)
         (cands : list String.string) (sc : FS.script),
    FSP.not_candidate (FS.c_path fcfg) cands ->
    FS.lookup (FS.c_path fcfg) fs0 = Some fold ->
    forall vnew : Value.value,
    let r := FS.atomic_write fs0 (FS.c_path fcfg) new now cands sc in
    let fnew := FS.mkFile new now in
    let src := RF.fs_source h json_loads yaml_safe_load schema_ok code fcfg in
    RF.parse_at json_loads yaml_safe_load schema_ok fcfg (Some fnew) = Value.Ok vnew ->
    RF.ftag h fcfg fold <> RF.ftag h fcfg fnew ->
    (FSP.sig_of fold = FSP.sig_of fnew -> h (FS.f_data fold) = h new) ->
    forall (s0 : sys FS.fsys (FS.source bytes)) (its : list RF.item) force now1 u1,
    FS.r_out r = FS.Returned ->
    wld s0 = fs0 -> RF.cache_ok h fold new now (sst s0) ->
    coh (code vnew) (Some (RF.ftag h fcfg fnew)) s0 ->
    RF.pending its (RF.aw_states r) = [] ->
    let s := cs (RF.run_sys h json_loads yaml_safe_load schema_ok code fcfg c its (RF.aw_states r)
                   {| cs := s0; thr := [] |}) in
    force = true \/ suppress_until (rl s) <= now1 ->
    let s1 := fst (run_check c src force now1 u1 idw s) in
    wld s = FS.r_fs r
    /\ policy (gd s1) = code vnew /\ last_etag (rl s1) = Some (RF.ftag h fcfg fnew)
    /\ forall its', only_checks its' ->
         let s3 := run_seq c src its' s1 in
         policy (gd s3) = code vnew /\ wld s3 = FS.r_fs r /\
         forall now' u',
           let r4 := run_check c src false now' u' idw s3 in
           snd r4 = PDone false /\ gd (fst r4) = gd s3 /\ n_load (fst r4) = n_load s3.
Proof. exact RF.reload_converges_through_atomic_write. Qed.
Print Assumptions c10_reload_converges_through_atomic_write.

(* the hypotheses on the tag, from what an operator can see: a different content hash (or, with
   include_mtime_in_etag, a different mtime) gives a different tag ... *)
Theorem c10_file_tag_differs :
  forall (h : FS.bytes -> bytes) (fcfg : FS.config) (fold : FS.file) (new : FS.bytes) (now : BinNums.Z),
    h (FS.f_data fold) <> h new -> RF.ftag h fcfg fold <> RF.ftag h fcfg (FS.mkFile new now).
Proof. exact RF.ftag_differs. Qed.
Print Assumptions c10_file_tag_differs.
Theorem c10_file_tag_differs_by_mtime :
  forall (h : FS.bytes -> bytes) (fcfg : FS.config) (fold : FS.file) (new : FS.bytes) (now : BinNums.Z),
    FS.c_incl_mtime fcfg = true -> FS.f_mtime fold <> now ->
    RF.ftag h fcfg fold <> RF.ftag h fcfg (FS.mkFile new now).
Proof. exact RF.ftag_differs_mtime. Qed.
Print Assumptions c10_file_tag_differs_by_mtime.

(* ... and the stat-signature cache is coherent after the write when it is empty or was filled from
   the old file and the new file's (size, mtime_ns) differs from the old one's (or the hash is the
   same): atomic_write stamps the time of its last write, so this fails only for a same-length
   rewrite within one mtime tick (then c16_stale_without_sig_change applies). *)
Theorem c10_file_cache_coherent_after_write :
  forall (h : FS.bytes -> bytes) (fcfg : FS.config) (fs0 : FS.fsys) (fold : FS.file) (new : FS.bytes)
         (now : BinNums.Z) (cands : list String.string) (sc : FS.script),
    FSP.not_candidate (FS.c_path fcfg) cands ->
    forall st : FS.source bytes,
    let r := FS.atomic_write fs0 (FS.c_path fcfg) new now cands sc in
    FS.r_out r = FS.Returned ->
    RF.cache_of_old h fold st ->
    (FSP.sig_of fold = FSP.sig_of (FS.mkFile new now) -> h (FS.f_data fold) = h new) ->
    FSP.coherent bytes h fcfg st (FS.r_fs r).
Proof. exact RF.coherent_from_old. Qed.
Print Assumptions c10_file_cache_coherent_after_write.

(* the combined world is faithful to the writer: after a schedule the directory is the one after
   the writer's last performed step, and when all steps were performed it is atomic_write's result *)
Theorem c10_file_world_follows_writer :
  forall (h : FS.bytes -> bytes) (json_loads yaml_safe_load : FS.bytes -> Value.res Value.value)
         (schema_ok : Value.value -> bool) (code : Value.value -> doc) (fcfg : FS.config) (c : cfg)
         (its : list RF.item) (states : list FS.fsys) (cf : conf FS.fsys (FS.source bytes)),
    wld (cs (RF.run_sys h json_loads yaml_safe_load schema_ok code fcfg c its states cf)) =
    last (firstn (List.length states - List.length (RF.pending its states))%nat states) (wld (cs cf)).
Proof. exact RF.run_sys_world. Qed.
Print Assumptions c10_file_world_follows_writer.

Import Coq.Strings.String.   (* from here on only: string literals in the examples *)

(* non-vacuity (vm_compute in ReloadFile.v): "policy.yaml" holds "v: 1", the operator writes "v: 22";
   the prefix "v: 2" is itself a valid document.  (a) the writer is killed when "v: 2" has reached the
   temp file; a forced and an unforced check run among its steps: the partial text is on the disk,
   would parse, and the engine stays on parse(old). *)
Example c10_example_write_crashes :
  let r := RF.Example.ex_write RF.Example.sc_crash in
  let cf := RF.Example.ex_run RF.Example.its_crash (RF.aw_states r) {| cs := RF.Example.s0; thr := [] |} in
  FS.r_out r = FS.Crashed
  /\ FS.lookup ".rbacx.tmp.k3"%string (wld (cs cf)) = Some (FS.mkFile "v: 2"%string 9)
  /\ RF.Example.ex_parse (Some (FS.mkFile "v: 2"%string 9)) = Value.Ok (RF.Example.pol 2)
  /\ FS.lookup "policy.yaml"%string (wld (cs cf)) = Some (FS.mkFile "v: 1"%string 5)
  /\ thr cf = [PDone true; PDone false] /\ policy (gd (cs cf)) = 1%nat /\ sets (gd (cs cf)) = 1%nat.
Proof. vm_compute. repeat split. Qed.

(* (b) the write completes; a forced check straddles the rename (old tag stored with the new policy);
   the hypotheses of c10_reload_converges_through_atomic_write hold; the next due check returns True
   with the new tag, the one after it False without loading *)
Example c10_example_write_completes :
  let r := RF.Example.ex_write RF.Example.sc_done in
  let cf := RF.Example.ex_run RF.Example.its_done (RF.aw_states r) {| cs := RF.Example.s0; thr := [] |} in
  let r1 := run_check RF.Example.ex_c RF.Example.ex_src false 20 0 idw (cs cf) in
  let r2 := run_check RF.Example.ex_c RF.Example.ex_src false 30 0 idw (fst r1) in
  FS.r_out r = FS.Returned /\ RF.pending RF.Example.its_done (RF.aw_states r) = []
  /\ thr cf = [PDone false; PDone true] /\ policy (gd (cs cf)) = 22%nat
  /\ last_etag (rl (cs cf)) = Some (TSha (RF.Example.ex_h "v: 1"%string))
  /\ snd r1 = PDone true /\ policy (gd (fst r1)) = 22%nat
  /\ last_etag (rl (fst r1)) = Some (TSha (RF.Example.ex_h "v: 22"%string))
  /\ snd r2 = PDone false /\ n_load (fst r2) = n_load (fst r1).
Proof. vm_compute. repeat split. Qed.
Example c10_example_write_hypotheses :
  let fnew := FS.mkFile "v: 22"%string 9 in
  FSP.not_candidate "policy.yaml"%string RF.Example.cands
  /\ RF.Example.ex_parse (Some fnew) = Value.Ok (RF.Example.pol 22)
  /\ RF.ftag RF.Example.ex_h RF.Example.ex_fcfg RF.Example.fold <> RF.ftag RF.Example.ex_h RF.Example.ex_fcfg fnew
  /\ (FSP.sig_of RF.Example.fold = FSP.sig_of fnew -> RF.Example.ex_h (FS.f_data RF.Example.fold) = RF.Example.ex_h "v: 22"%string)
  /\ RF.cache_ok RF.Example.ex_h RF.Example.fold "v: 22"%string 9 (sst RF.Example.s0)
  /\ coh (RF.Example.ex_code (RF.Example.pol 22)) (Some (RF.ftag RF.Example.ex_h RF.Example.ex_fcfg fnew)) RF.Example.s0.
Proof.
  split; [exact RF.Example.ex_not_candidate|].
  destruct RF.Example.ex_hypotheses as (A & B & C & D & E & _). auto.
Qed.

(* (c) what atomic_write buys: the same rewrite done in place lets a check install the policy parsed
   from the prefix - neither the initial policy, nor parse(old), nor parse(new) *)
Example c10_example_in_place_write_tears :
  let cf := run RF.Example.ex_c RF.Example.ex_src
              [LWorld (FS.apply_wop "policy.yaml"%string (FS.WSet "v: 2"%string 9));
               LSpawn false; LStep 0%nat 10 0; LStep 0%nat 10 0; LStep 0%nat 10 0; LStep 0%nat 10 0;
               LWorld (FS.apply_wop "policy.yaml"%string (FS.WSet "v: 22"%string 9))]
              {| cs := RF.Example.s0; thr := [] |} in
  thr cf = [PDone true] /\ policy (gd (cs cf)) = 2%nat.
Proof. vm_compute. repeat split. Qed.
