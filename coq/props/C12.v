(* C12 — Local ReBAC checker = bounded least fixpoint; limits only fail closed.
   Statements only.  Model: Rbacx.Rebac (LocalRelationshipChecker.check /
   batch_check, _direct_allowed, _expand, _caveat_holds, the in-memory store);
   specification: RebacProofs.derivable, an inductive relation that does not
   mention the search (direct tuple whose caveat holds; or one rewrite step —
   computed userset on the same object, tuple-to-userset over an object->object
   edge whose caveat holds, member of a union — to a node derivable one level
   lower).  As in the code, the direct tuples of a node count whether or not its
   rule mentions This().

   Quantification: every store (a list of tuples: duplicates, cycles, self-loops
   allowed), every rule map, every caveat registry, every query, every
   max_depth / max_nodes in Z, every deadline oracle [hit] (hence every clock
   script through Rebac.hit_of_clock). *)
From Coq Require Import List String ZArith.
From Rbacx Require Import Value Rebac RebacProofs RebacMono.
Import ListNotations.
Local Open Scope string_scope.

(* never true for a non-derivable relation, WHATEVER max_nodes and the deadline are *)
Theorem c12_sound : forall cfg hit s rel obj,
  check cfg hit s rel obj = true ->
  derivable_within cfg (c_max_depth cfg) (s, rel, obj).
Proof. exact check_sound. Qed.
Print Assumptions c12_sound.

(* derivable within max_depth: the answer is true unless the node budget or the
   deadline fired in this very run *)
Theorem c12_complete : forall cfg hit s rel obj,
  derivable_within cfg (c_max_depth cfg) (s, rel, obj) ->
  check cfg hit s rel obj = true \/ limit_hit cfg hit (s, rel, obj).
Proof. exact check_complete. Qed.
Print Assumptions c12_complete.

(* a budget of [node_bound] nodes is never exhausted; with it and no deadline hit
   the checker answers true EXACTLY for the relations derivable within max_depth *)
Theorem c12_exact : forall cfg hit s rel obj,
  (forall k, hit k = false) ->
  (Z.of_nat (node_bound cfg (s, rel, obj)) <= c_max_nodes cfg)%Z ->
  (check cfg hit s rel obj = true <-> derivable_within cfg (c_max_depth cfg) (s, rel, obj)).
Proof. exact check_exact. Qed.
Print Assumptions c12_exact.

(* a limit that fires answers False; an answer True obtained under any limits is
   also the answer under every more generous, deadline-free configuration *)
Theorem c12_limits_fail_closed : forall cfg hit s rel obj,
  (limit_hit cfg hit (s, rel, obj) -> check cfg hit s rel obj = false) /\
  (check cfg hit s rel obj = true ->
   forall md' mn', (c_max_depth cfg <= md')%Z ->
     (Z.of_nat (node_bound cfg (s, rel, obj)) <= mn')%Z ->
     check (with_limits cfg md' mn') (fun _ => false) s rel obj = true).
Proof. exact limits_fail_closed. Qed.
Print Assumptions c12_limits_fail_closed.

(* the search ends on every store, cyclic or not (the model's fuel is never exhausted) *)
Theorem c12_terminates : forall cfg hit root, exists o v, run cfg hit root = Some (o, v).
Proof. exact run_total. Qed.
Print Assumptions c12_terminates.

(* batch_check = the individual checks, memo included, when every call sees the
   same deadline oracle — in particular in a deadline-free run *)
Theorem c12_batch : forall cfg hits h triples,
  (forall j k, hits j k = h k) ->
  batch_check cfg hits triples = map (check_node cfg h) triples.
Proof. exact batch_is_map. Qed.
Print Assumptions c12_batch.

(* caveats: an unregistered name, a false or a raising predicate never hold, a true
   one does; and the relations derivable (hence the answers true) are those of the
   store with the non-holding caveated tuples removed and the others unconditional *)
Theorem c12_caveat_cases : forall reg name,
  (alookup name reg = None -> caveat_holds reg name = false) /\
  (alookup name reg = Some None -> caveat_holds reg name = false) /\
  (alookup name reg = Some (Some false) -> caveat_holds reg name = false) /\
  (alookup name reg = Some (Some true) -> caveat_holds reg name = true).
Proof. exact caveat_cases. Qed.
Print Assumptions c12_caveat_cases.

Theorem c12_caveats : forall cfg hit s rel obj,
  (forall d n, derivable cfg d n <-> derivable (strip cfg) d n) /\
  (check cfg hit s rel obj = true ->
   derivable_within (strip cfg) (c_max_depth cfg) (s, rel, obj)).
Proof. exact caveats_count_only_when_true. Qed.
Print Assumptions c12_caveats.

(* the oracle is what the code computes from its clock readings (clock 0 = start, clock (S k) = the
   k-th read in the loop): no reading past start + deadline_ms * 10^6 ns means no deadline hit, so
   c12_exact applies to every such clock *)
Theorem c12_clock : forall ms clock,
  (forall k, (clock (S k) <= clock 0%nat + ms * 1000000)%Z) ->
  forall k, hit_of_clock ms clock k = false.
Proof. exact no_deadline_hit. Qed.
Print Assumptions c12_clock.

(* the executable specification used by the harness on the implementation's answers *)
Theorem c12_within_b_spec : forall cfg root,
  within_b cfg root = true <-> derivable_within cfg (c_max_depth cfg) root.
Proof. exact within_b_spec. Qed.
Print Assumptions c12_within_b_spec.

(* ---- the store enters the answer only as a set, and positively (RebacMono.v) ---- *)

(* insertion order and duplicate tuples: two stores with the same elements derive
   exactly the same relations at every depth *)
Theorem c12_store_is_a_set : forall cfg1 cfg2,
  (forall t, In t (c_store cfg1) <-> In t (c_store cfg2)) ->
  c_rules cfg1 = c_rules cfg2 -> c_reg cfg1 = c_reg cfg2 ->
  forall d n, derivable cfg1 d n <-> derivable cfg2 d n.
Proof. exact derivable_store_set. Qed.
Print Assumptions c12_store_is_a_set.

(* ... and so do the checkers themselves when no limit can fire *)
Theorem c12_same_tuples_same_answer : forall cfg1 cfg2 s rel obj,
  (forall t, In t (c_store cfg1) <-> In t (c_store cfg2)) ->
  c_rules cfg1 = c_rules cfg2 -> c_reg cfg1 = c_reg cfg2 -> c_max_depth cfg1 = c_max_depth cfg2 ->
  (Z.of_nat (node_bound cfg1 (s, rel, obj)) <= c_max_nodes cfg1)%Z ->
  (Z.of_nat (node_bound cfg2 (s, rel, obj)) <= c_max_nodes cfg2)%Z ->
  check cfg1 (fun _ => false) s rel obj = check cfg2 (fun _ => false) s rel obj.
Proof. exact same_tuples_same_answer. Qed.
Print Assumptions c12_same_tuples_same_answer.

(* adding tuples never revokes: an answer True under ANY limits and deadline is the
   answer of every checker over a larger store with a deeper limit, a sufficient
   node budget and no deadline *)
Theorem c12_more_tuples_only_grant : forall cfg hit s rel obj st' md' mn',
  incl (c_store cfg) st' ->
  (c_max_depth cfg <= md')%Z ->
  (Z.of_nat (node_bound (with_store cfg st') (s, rel, obj)) <= mn')%Z ->
  check cfg hit s rel obj = true ->
  check (with_limits (with_store cfg st') md' mn') (fun _ => false) s rel obj = true.
Proof. exact more_tuples_only_grant. Qed.
Print Assumptions c12_more_tuples_only_grant.

(* removing tuples never grants: what a store does not derive within max_depth no
   sub-store makes check() answer True, whatever the limits and the deadline *)
Theorem c12_fewer_tuples_only_revoke : forall cfg hit s rel obj st',
  incl (c_store cfg) st' ->
  ~ derivable_within (with_store cfg st') (c_max_depth cfg) (s, rel, obj) ->
  check cfg hit s rel obj = false.
Proof. exact fewer_tuples_only_revoke. Qed.
Print Assumptions c12_fewer_tuples_only_revoke.

(* the depth limit alone only fails closed *)
Theorem c12_deeper_only_grants : forall cfg D D' n,
  (D <= D')%Z -> derivable_within cfg D n -> derivable_within cfg D' n.
Proof. exact deeper_only_grants. Qed.
Print Assumptions c12_deeper_only_grants.

(* ---------------- non-vacuity ---------------- *)
Definition ex_rules : rulemap :=
  [("doc", [("viewer", Union [This; Computed "editor"; TTU "parent" "viewer"]);
            ("editor", Union [This])]);
   ("folder", [("viewer", Union [This; TTU "parent" "viewer"])])].
(* a parent cycle folder:1 <-> folder:2, a self-loop, a duplicate tuple, a caveated edge *)
Definition ex_store : store :=
  [mkT "folder:1" "parent" "doc:1" None;
   mkT "folder:2" "parent" "folder:1" None;
   mkT "folder:1" "parent" "folder:2" None;
   mkT "folder:2" "parent" "folder:2" None;
   mkT "folder:1" "parent" "doc:1" None;
   mkT "user:a" "viewer" "folder:2" None;
   mkT "folder:3" "parent" "doc:2" (Some "office_hours");
   mkT "user:a" "viewer" "folder:3" None].
Definition ex_cfg (reg : registry) (md mn : Z) : config := mkCfg ex_store ex_rules reg md mn.
Definition no_deadline : nat -> bool := fun _ => false.

(* derivable at depth 2 through the cycle; found with max_depth 2, not with 1 *)
Example c12_example_depth :
  check (ex_cfg [] 2 10000) no_deadline "user:a" "viewer" "doc:1" = true /\
  check (ex_cfg [] 1 10000) no_deadline "user:a" "viewer" "doc:1" = false /\
  run (ex_cfg [] 1 10000) no_deadline ("user:a", "viewer", "doc:1") = Some (OEnd, 4%nat).
Proof. vm_compute. auto. Qed.

(* the hypotheses of c12_exact are satisfiable: the bound for this query is finite and small *)
Example c12_example_bound :
  node_bound (ex_cfg [] 8 10000) ("user:a", "viewer", "doc:1") = 28%nat.
Proof. vm_compute. reflexivity. Qed.

(* limits fire and answer False although the relation is derivable *)
Example c12_example_limits :
  run (ex_cfg [] 8 2) no_deadline ("user:a", "viewer", "doc:1") = Some (ONodes, 3%nat) /\
  run (ex_cfg [] 8 10000) (fun k => Nat.eqb k 1) ("user:a", "viewer", "doc:1") = Some (ODeadline, 2%nat) /\
  within_b (ex_cfg [] 8 2) ("user:a", "viewer", "doc:1") = true.
Proof. vm_compute. auto. Qed.

(* F15 (repaired by 4339aa0): the caveated parent edge folder:3 -> doc:2 is followed
   only when its predicate returns true *)
Example c12_example_caveated_edge :
  check (ex_cfg [("office_hours", Some true)] 8 10000) no_deadline "user:a" "viewer" "doc:2" = true /\
  check (ex_cfg [("office_hours", Some false)] 8 10000) no_deadline "user:a" "viewer" "doc:2" = false /\
  check (ex_cfg [("office_hours", None)] 8 10000) no_deadline "user:a" "viewer" "doc:2" = false /\
  check (ex_cfg [] 8 10000) no_deadline "user:a" "viewer" "doc:2" = false.
Proof. vm_compute. auto. Qed.

(* batch with a repeated triple *)
Example c12_example_batch :
  batch_check (ex_cfg [] 8 10000) (fun _ => no_deadline)
              [("user:a", "viewer", "doc:1"); ("user:b", "viewer", "doc:1"); ("user:a", "viewer", "doc:1")]
  = [true; false; true].
Proof. vm_compute. reflexivity. Qed.

(* the store reversed and with every tuple doubled has the same elements: same answers
   (hypotheses of c12_same_tuples_same_answer met by a non-trivial pair of stores) *)
Example c12_example_store_set :
  let c1 := ex_cfg [] 8 10000 in
  let c2 := with_store c1 (rev ex_store ++ ex_store)%list in
  (forall t, In t (c_store c1) <-> In t (c_store c2)) /\
  (Z.of_nat (node_bound c2 ("user:a", "viewer", "doc:1")) <= c_max_nodes c2)%Z /\
  check c1 no_deadline "user:a" "viewer" "doc:1" = true /\
  check c2 no_deadline "user:a" "viewer" "doc:1" = true /\
  check c2 no_deadline "user:b" "viewer" "doc:1" = false.
Proof.
  cbv zeta. split.
  - intros t. change (In t ex_store <-> In t (rev ex_store ++ ex_store)%list).
    rewrite in_app_iff, <- in_rev. tauto.
  - vm_compute. repeat split; congruence.
Qed.
