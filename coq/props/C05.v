(* C05 — Targets match as documented in lax and strict mode, on every path.
   Statements only.  Clause results: Ok b | Ood (str() of a value outside the model). *)
From Coq Require Import ZArith List Bool String.
From Rbacx Require Import Value Cond Target Policy PolicyProofs Engine TargetProofs.
Import ListNotations.
Local Open Scope string_scope.

(* actions: the rule lists the request's action, or "*" *)
Theorem c05_actions : forall rule action acts,
  string_actions rule = Some acts ->
  (match_actions rule action = Ok true <-> In action acts \/ In "*" acts).
Proof. exact match_actions_iff. Qed.
Print Assumptions c05_actions.

(* the resource target = type clause /\ id clause /\ every attribute clause; {} matches everything *)
Theorem c05_resource_is_conjunction : forall k kvs res sa,
  let rdef := VObj (k :: kvs) in
  let resource := VObj res in
  let strict := match sa with Some b => b | None => py_truthy (get_key "__strict_types__" resource) end in
  forall b1 b2 b3,
  type_clause strict (get_key "type" rdef) (get_key "type" resource) = Ok b1 ->
  id_clause strict (get_key "id" rdef) (get_key "id" resource) = Ok b2 ->
  (match attrs_of rdef with
   | VObj r_attrs => match attrs_of resource with
                     | VObj res_attrs => attrs_clause strict r_attrs res_attrs
                     | _ => Ok false end
   | _ => Ok true end) = Ok b3 ->
  match_resource rdef resource sa = Ok (b1 && b2 && b3).
Proof. exact match_resource_clauses. Qed.
Print Assumptions c05_resource_is_conjunction.
Theorem c05_empty_target : forall resource sa, match_resource (VObj []) resource sa = Ok true.
Proof. exact match_resource_empty. Qed.
Print Assumptions c05_empty_target.

(* type: absent or "*" matches anything; lax = string forms; strict = a string equal to a listed string *)
Theorem c05_type_absent : forall strict res_type, type_clause strict VNull res_type = Ok true.
Proof. exact type_clause_absent. Qed.
Print Assumptions c05_type_absent.
Theorem c05_type_wildcard : forall strict r_type res_type strs,
  is_null r_type = false -> strs_of (allowed_of r_type) = Some strs -> In "*" strs ->
  type_clause strict r_type res_type = Ok true.
Proof. exact type_clause_wildcard. Qed.
Print Assumptions c05_type_wildcard.
Theorem c05_type_lax : forall r_type res_type strs,
  is_null r_type = false -> strs_of (allowed_of r_type) = Some strs -> ~ In "*" strs ->
  type_clause false r_type res_type =
    if is_null res_type then Ok false
    else match py_str res_type with Some t => Ok (mem_str t strs) | None => Ood end.
Proof. exact type_clause_lax. Qed.
Print Assumptions c05_type_lax.
Theorem c05_type_strict : forall r_type res_type strs,
  is_null r_type = false -> strs_of (allowed_of r_type) = Some strs -> ~ In "*" strs ->
  type_clause true r_type res_type =
    match res_type with
    | VStr t => if forallb is_str (allowed_of r_type)
                then Ok (existsb (fun x => py_eq x res_type) (allowed_of r_type)) else Ok false
    | _ => Ok false
    end.
Proof. exact type_clause_strict. Qed.
Print Assumptions c05_type_strict.

(* id: absent matches; a missing request id never matches; lax = string forms; strict = Python == *)
Theorem c05_id_absent : forall strict res_id, id_clause strict VNull res_id = Ok true.
Proof. exact id_clause_absent. Qed.
Print Assumptions c05_id_absent.
Theorem c05_id_missing_in_request : forall strict r_id, is_null r_id = false -> id_clause strict r_id VNull = Ok false.
Proof. exact id_clause_missing_request_id. Qed.
Print Assumptions c05_id_missing_in_request.
Theorem c05_id_lax : forall r_id res_id a b,
  is_null r_id = false -> is_null res_id = false -> py_str res_id = Some a -> py_str r_id = Some b ->
  id_clause false r_id res_id = Ok (String.eqb a b).
Proof. exact id_clause_lax. Qed.
Print Assumptions c05_id_lax.
Theorem c05_id_strict : forall r_id res_id,
  is_null r_id = false -> is_null res_id = false -> nested_nan r_id = false -> nested_nan res_id = false ->
  id_clause true r_id res_id = Ok (py_eq res_id r_id).
Proof. exact id_clause_strict. Qed.
Print Assumptions c05_id_strict.

(* attributes: every listed key must be present; scalar = equality, list = one of its elements *)
Theorem c05_attr_missing : forall strict k v rest res_attrs,
  assoc k res_attrs = None -> attrs_clause strict ((k, v) :: rest) res_attrs = Ok false.
Proof. exact attrs_missing_key. Qed.
Print Assumptions c05_attr_missing.
Theorem c05_attr_each : forall strict k v rest res_attrs rv b,
  assoc k res_attrs = Some rv -> attr_clause strict v rv = Ok b ->
  attrs_clause strict ((k, v) :: rest) res_attrs = if b then attrs_clause strict rest res_attrs else Ok false.
Proof. exact attrs_step. Qed.
Print Assumptions c05_attr_each.
Theorem c05_attr_scalar_lax : forall v rv a b,
  is_list v = false -> py_str rv = Some a -> py_str v = Some b -> attr_clause false v rv = Ok (String.eqb a b).
Proof. exact attr_scalar_lax. Qed.
Print Assumptions c05_attr_scalar_lax.
Theorem c05_attr_scalar_strict : forall v rv,
  is_list v = false -> nested_nan v = false -> nested_nan rv = false -> attr_clause true v rv = Ok (py_eq rv v).
Proof. exact attr_scalar_strict. Qed.
Print Assumptions c05_attr_scalar_strict.
Theorem c05_attr_oneof_lax : forall opts rv s strs,
  py_str rv = Some s -> strs_of opts = Some strs -> attr_clause false (VList opts) rv = Ok (mem_str s strs).
Proof. exact attr_oneof_lax. Qed.
Print Assumptions c05_attr_oneof_lax.
Theorem c05_attr_oneof_strict : forall opts rv,
  has_nan (VList opts) = false -> has_nan rv = false ->
  attr_clause true (VList opts) rv = Ok (existsb (fun x => py_eq rv x) opts).
Proof. exact attr_oneof_strict. Qed.
Print Assumptions c05_attr_oneof_strict.

(* strict: "1" never matches 1 — id, attribute, one-of; and a non-string request type never matches a named type *)
Theorem c05_strict_no_string_number : forall s n,
  id_clause true (VNum n) (VStr s) = Ok false /\ id_clause true (VStr s) (VNum n) = Ok false /\
  attr_clause true (VNum n) (VStr s) = Ok false /\ attr_clause true (VStr s) (VNum n) = Ok false /\
  (is_nan_num n = false -> attr_clause true (VList [VNum n]) (VStr s) = Ok false) /\
  (is_nan_num n = false -> attr_clause true (VList [VStr s]) (VNum n) = Ok false).
Proof. exact strict_no_string_number. Qed.
Print Assumptions c05_strict_no_string_number.
Theorem c05_strict_type_non_string : forall r_type res_type strs,
  is_null r_type = false -> strs_of (allowed_of r_type) = Some strs -> ~ In "*" strs ->
  is_str res_type = false -> type_clause true r_type res_type = Ok false.
Proof. exact type_strict_non_string. Qed.
Print Assumptions c05_strict_type_non_string.

(* every path: a rule is applicable (interpreter, compiled bucket, child of a set alike — all
   decide applicability through rule_outcome) only if its target matches in the mode of the
   environment, and the environment built by the engine carries exactly Guard's strict flag *)
Theorem c05_applicable_only_if_target_matches : forall rel rule env,
  applicable rel rule env ->
  match_resource (py_or (get_key "resource" rule) (VObj [])) (py_or (get_key "resource" env) (VObj []))
                 (if strict_of env then Some true else None) = Ok true.
Proof. exact applicable_target_matches. Qed.
Print Assumptions c05_applicable_only_if_target_matches.
Theorem c05_engine_mode : forall strict req resolved env,
  build_env strict req resolved = Some env ->
  strict_of env = strict /\
  py_truthy (get_key "__strict_types__" (py_or (get_key "resource" env) (VObj []))) = false.
Proof. exact build_env_mode. Qed.
Print Assumptions c05_engine_mode.

(* non-vacuity: rule id 1 against request id "1": matches lax, not strict; one-of list; legacy key *)
Example c05_example :
  match_resource (VObj [("type", VStr "doc"); ("id", VNum (NInt 1%Z))])
                 (VObj [("type", VStr "doc"); ("id", VStr "1")]) None = Ok true /\
  match_resource (VObj [("type", VStr "doc"); ("id", VNum (NInt 1%Z))])
                 (VObj [("type", VStr "doc"); ("id", VStr "1")]) (Some true) = Ok false /\
  match_resource (VObj [("type", VList [VStr "img"; VStr "doc"]); ("attributes", VObj [("k", VList [VStr "a"; VStr "b"])])])
                 (VObj [("type", VStr "doc"); ("attrs", VObj [("k", VStr "b")])]) (Some true) = Ok true /\
  match_resource (VObj [("type", VStr "doc"); ("attrs", VObj [("k", VNum (NInt 1%Z))])])
                 (VObj [("type", VStr "doc"); ("attrs", VObj [])]) None = Ok false.
Proof. vm_compute. repeat split. Qed.
