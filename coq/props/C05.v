(* C05 — Targets match as documented in lax and strict mode, on every path.
   Statements only.  Clause results: Ok b | Ood (str() of a value outside the model). *)
From Coq Require Import ZArith List Bool String.
From Rbacx Require Import Value Cond Target Policy PolicyProofs Engine TargetProofs.
From Rbacx Require Import PolicySet PolicySetProofs Compiler CompilerProofs Oblig EngineProofs Cache CacheProofs CacheKey CacheKeyProofs CacheGuard
  CacheGuardProofs CacheExplain CacheExplain2 CacheExplain3.
Import ListNotations.
Local Open Scope string_scope.

(* actions: the rule lists the request's action, or "*" *)
Theorem c05_actions : forall rule action acts,
  string_actions rule = Some acts ->
  (match_actions rule action = Ok true <-> In action acts \/ In "*" acts).
Proof. exact match_actions_iff. Qed.
Print Assumptions c05_actions.

(* the resource target = type clause /\ id clause /\ every attribute clause; {} matches everything *)
Theorem c05_resource_is_conjunction : forall k kvs res sa,
  let rdef := VObj (k :: kvs) in
  let resource := VObj res in
  let strict := match sa with Some b => b | None => py_truthy (get_key "__strict_types__" resource) end in
  forall b1 b2 b3,
  type_clause strict (get_key "type" rdef) (get_key "type" resource) = Ok b1 ->
  id_clause strict (get_key "id" rdef) (get_key "id" resource) = Ok b2 ->
  (match attrs_of rdef with
   | VObj r_attrs => match attrs_of resource with
                     | VObj res_attrs => attrs_clause strict r_attrs res_attrs
                     | _ => Ok false end
   | _ => Ok true end) = Ok b3 ->
  match_resource rdef resource sa = Ok (b1 && b2 && b3).
Proof. exact match_resource_clauses. Qed.
Print Assumptions c05_resource_is_conjunction.
Theorem c05_empty_target : forall resource sa, match_resource (VObj []) resource sa = Ok true.
Proof. exact match_resource_empty. Qed.
Print Assumptions c05_empty_target.

(* type: absent or "*" matches anything; lax = string forms; strict = a string equal to a listed string *)
Theorem c05_type_absent : forall strict res_type, type_clause strict VNull res_type = Ok true.
Proof. exact type_clause_absent. Qed.
Print Assumptions c05_type_absent.
Theorem c05_type_wildcard : forall strict r_type res_type strs,
  is_null r_type = false -> strs_of (allowed_of r_type) = Some strs -> In "*" strs ->
  type_clause strict r_type res_type = Ok true.
Proof. exact type_clause_wildcard. Qed.
Print Assumptions c05_type_wildcard.
Theorem c05_type_lax : forall r_type res_type strs,
  is_null r_type = false -> strs_of (allowed_of r_type) = Some strs -> ~ In "*" strs ->
  type_clause false r_type res_type =
    if is_null res_type then Ok false
    else match py_str res_type with Some t => Ok (mem_str t strs) | None => Ood end.
Proof. exact type_clause_lax. Qed.
Print Assumptions c05_type_lax.
Theorem c05_type_strict : forall r_type res_type strs,
  is_null r_type = false -> strs_of (allowed_of r_type) = Some strs -> ~ In "*" strs ->
  type_clause true r_type res_type =
    match res_type with
    | VStr t => if forallb is_str (allowed_of r_type)
                then Ok (existsb (fun x => py_eq x res_type) (allowed_of r_type)) else Ok false
    | _ => Ok false
    end.
Proof. exact type_clause_strict. Qed.
Print Assumptions c05_type_strict.

(* id: absent matches; a missing request id never matches; lax = string forms; strict = Python == *)
Theorem c05_id_absent : forall strict res_id, id_clause strict VNull res_id = Ok true.
Proof. exact id_clause_absent. Qed.
Print Assumptions c05_id_absent.
Theorem c05_id_missing_in_request : forall strict r_id, is_null r_id = false -> id_clause strict r_id VNull = Ok false.
Proof. exact id_clause_missing_request_id. Qed.
Print Assumptions c05_id_missing_in_request.
Theorem c05_id_lax : forall r_id res_id a b,
  is_null r_id = false -> is_null res_id = false -> py_str res_id = Some a -> py_str r_id = Some b ->
  id_clause false r_id res_id = Ok (String.eqb a b).
Proof. exact id_clause_lax. Qed.
Print Assumptions c05_id_lax.
Theorem c05_id_strict : forall r_id res_id,
  is_null r_id = false -> is_null res_id = false -> nested_nan r_id = false -> nested_nan res_id = false ->
  id_clause true r_id res_id = Ok (py_eq res_id r_id).
Proof. exact id_clause_strict. Qed.
Print Assumptions c05_id_strict.

(* attributes: every listed key must be present; scalar = equality, list = one of its elements *)
Theorem c05_attr_missing : forall strict k v rest res_attrs,
  assoc k res_attrs = None -> attrs_clause strict ((k, v) :: rest) res_attrs = Ok false.
Proof. exact attrs_missing_key. Qed.
Print Assumptions c05_attr_missing.
Theorem c05_attr_each : forall strict k v rest res_attrs rv b,
  assoc k res_attrs = Some rv -> attr_clause strict v rv = Ok b ->
  attrs_clause strict ((k, v) :: rest) res_attrs = if b then attrs_clause strict rest res_attrs else Ok false.
Proof. exact attrs_step. Qed.
Print Assumptions c05_attr_each.
Theorem c05_attr_scalar_lax : forall v rv a b,
  is_list v = false -> py_str rv = Some a -> py_str v = Some b -> attr_clause false v rv = Ok (String.eqb a b).
Proof. exact attr_scalar_lax. Qed.
Print Assumptions c05_attr_scalar_lax.
Theorem c05_attr_scalar_strict : forall v rv,
  is_list v = false -> nested_nan v = false -> nested_nan rv = false -> attr_clause true v rv = Ok (py_eq rv v).
Proof. exact attr_scalar_strict. Qed.
Print Assumptions c05_attr_scalar_strict.
Theorem c05_attr_oneof_lax : forall opts rv s strs,
  py_str rv = Some s -> strs_of opts = Some strs -> attr_clause false (VList opts) rv = Ok (mem_str s strs).
Proof. exact attr_oneof_lax. Qed.
Print Assumptions c05_attr_oneof_lax.
Theorem c05_attr_oneof_strict : forall opts rv,
  has_nan (VList opts) = false -> has_nan rv = false ->
  attr_clause true (VList opts) rv = Ok (existsb (fun x => py_eq rv x) opts).
Proof. exact attr_oneof_strict. Qed.
Print Assumptions c05_attr_oneof_strict.

(* strict: "1" never matches 1 — id, attribute, one-of; and a non-string request type never matches a named type *)
Theorem c05_strict_no_string_number : forall s n,
  id_clause true (VNum n) (VStr s) = Ok false /\ id_clause true (VStr s) (VNum n) = Ok false /\
  attr_clause true (VNum n) (VStr s) = Ok false /\ attr_clause true (VStr s) (VNum n) = Ok false /\
  (is_nan_num n = false -> attr_clause true (VList [VNum n]) (VStr s) = Ok false) /\
  (is_nan_num n = false -> attr_clause true (VList [VStr s]) (VNum n) = Ok false).
Proof. exact strict_no_string_number. Qed.
Print Assumptions c05_strict_no_string_number.
Theorem c05_strict_type_non_string : forall r_type res_type strs,
  is_null r_type = false -> strs_of (allowed_of r_type) = Some strs -> ~ In "*" strs ->
  is_str res_type = false -> type_clause true r_type res_type = Ok false.
Proof. exact type_strict_non_string. Qed.
Print Assumptions c05_strict_type_non_string.

(* every path: a rule is applicable (interpreter, compiled bucket, child of a set alike — all
   decide applicability through rule_outcome) only if its target matches in the mode of the
   environment, and the environment built by the engine carries exactly Guard's strict flag *)
Theorem c05_applicable_only_if_target_matches : forall rel rule env,
  applicable rel rule env ->
  match_resource (py_or (get_key "resource" rule) (VObj [])) (py_or (get_key "resource" env) (VObj []))
                 (if strict_of env then Some true else None) = Ok true.
Proof. exact applicable_target_matches. Qed.
Print Assumptions c05_applicable_only_if_target_matches.
Theorem c05_engine_mode : forall strict req resolved env,
  build_env strict req resolved = Some env ->
  strict_of env = strict /\
  py_truthy (get_key "__strict_types__" (py_or (get_key "resource" env) (VObj []))) = false.
Proof. exact build_env_mode. Qed.
Print Assumptions c05_engine_mode.

(* non-vacuity: rule id 1 against request id "1": matches lax, not strict; one-of list; legacy key *)
Example c05_example :
  match_resource (VObj [("type", VStr "doc"); ("id", VNum (NInt 1%Z))])
                 (VObj [("type", VStr "doc"); ("id", VStr "1")]) None = Ok true /\
  match_resource (VObj [("type", VStr "doc"); ("id", VNum (NInt 1%Z))])
                 (VObj [("type", VStr "doc"); ("id", VStr "1")]) (Some true) = Ok false /\
  match_resource (VObj [("type", VList [VStr "img"; VStr "doc"]); ("attributes", VObj [("k", VList [VStr "a"; VStr "b"])])])
                 (VObj [("type", VStr "doc"); ("attrs", VObj [("k", VStr "b")])]) (Some true) = Ok true /\
  match_resource (VObj [("type", VStr "doc"); ("attrs", VObj [("k", VNum (NInt 1%Z))])])
                 (VObj [("type", VStr "doc"); ("attrs", VObj [])]) None = Ok false.
Proof. vm_compute. repeat split. Qed.

(* ------------------------------------------------------------------ *)
(* at Guard level and through the decision cache (theories/CacheExplain3.v) *)
(* ------------------------------------------------------------------ *)
Local Open Scope list_scope.   (* ++ is list append below *)
(* target_clauses strict rdef resource: the target is {} or the type, id and attribute clauses above all
   answer Ok true in mode [strict] — what match_resource = Ok true means (c05_resource_is_conjunction read
   backwards); effective_strict: the caller's flag, else the legacy key of the resource dict.
   action_matches rule env: match_actions rule (the request's action) = Ok true (c05_actions).
   Cached statements: vocabulary and hypotheses as in props/C01.v. *)

Theorem c05_match_means_clauses : forall rdef resource sa,
  match_resource rdef resource sa = Ok true -> target_clauses (effective_strict sa resource) rdef resource.
Proof. exact match_resource_true_clauses. Qed.
Print Assumptions c05_match_means_clauses.

(* the documented table for a target that matched: lax compares str() forms, strict compares typed values *)
Theorem c05_target_clauses_table : forall strict rdef resource,
  target_clauses strict rdef resource ->
  (forall strs, is_null (get_key "type" rdef) = false ->
     strs_of (allowed_of (get_key "type" rdef)) = Some strs -> ~ In "*" strs ->
     if strict then is_str (get_key "type" resource) = true /\
                    forallb is_str (allowed_of (get_key "type" rdef)) = true /\
                    existsb (fun x => py_eq x (get_key "type" resource)) (allowed_of (get_key "type" rdef)) = true
     else is_null (get_key "type" resource) = false /\
          exists t, py_str (get_key "type" resource) = Some t /\ In t strs) /\
  (is_null (get_key "id" rdef) = false ->
     is_null (get_key "id" resource) = false /\
     if strict then py_eq (get_key "id" resource) (get_key "id" rdef) = true
     else exists a, py_str (get_key "id" resource) = Some a /\ py_str (get_key "id" rdef) = Some a) /\
  (forall r_attrs k v, attrs_of rdef = VObj r_attrs -> In (k, v) r_attrs ->
     exists res_attrs rv, attrs_of resource = VObj res_attrs /\ assoc k res_attrs = Some rv /\
                          attr_clause strict v rv = Ok true).
Proof. exact target_clauses_table. Qed.
Print Assumptions c05_target_clauses_table.

(* the environment Guard builds: its mode is Guard's strict flag, its resource dict is {type, id, attrs} of
   the request *)
Theorem c05_engine_effective_strict : forall strict req resolved env,
  build_env strict req resolved = Some env ->
  strict_of env = strict /\
  effective_strict (if strict_of env then Some true else None) (py_or (get_key "resource" env) (VObj [])) = strict.
Proof. exact engine_effective_strict. Qed.
Print Assumptions c05_engine_effective_strict.
Theorem c05_engine_resource : forall strict req resolved env,
  build_env strict req resolved = Some env ->
  exists rattrs, obj_or_empty (get_key "attrs" (get_key "resource" req)) = Some rattrs /\
    py_or (get_key "resource" env) (VObj [])
    = VObj [("type", get_key "type" (get_key "resource" req)); ("id", get_key "id" (get_key "resource" req));
            ("attrs", rattrs)].
Proof. exact build_env_resource. Qed.
Print Assumptions c05_engine_resource.

(* applicable (C11's notion, on every path) = action matched and target matched clause by clause *)
Theorem c05_applicable_target_clauses : forall rel rule env,
  applicable rel rule env ->
  action_matches rule env /\
  match_resource (rule_resource rule) (py_or (get_key "resource" env) (VObj []))
                 (if strict_of env then Some true else None) = Ok true /\
  target_clauses (effective_strict (if strict_of env then Some true else None)
                                   (py_or (get_key "resource" env) (VObj [])))
                 (rule_resource rule) (py_or (get_key "resource" env) (VObj [])).
Proof. exact applicable_target_clauses. Qed.
Print Assumptions c05_applicable_target_clauses.

(* (3) the rule a Decision reports (corollary of c11_rule_id_truthful): a rule of the policy with that id
   whose action matches and whose resource target matches the request's resource by match_resource in
   GUARD's type mode — hence by the table above, lax or strict *)
Theorem c05_guard_target_semantics : forall rel strict kvs req resolved d s oblig,
  tree_ok (VObj kvs) ->
  guard_eval unit (relh_pure rel) oblig strict (VObj kvs) req resolved tt = (GDecision d, tt) ->
  d_rule_id d = Some s -> (has_key "policies" (VObj kvs) = true -> s <> "") ->
  exists env rule,
    build_env strict req resolved = Some env /\
    In rule (all_rules (VObj kvs)) /\ rule_id rule = VStr s /\ applicable rel rule env /\
    action_matches rule env /\
    match_resource (rule_resource rule) (py_or (get_key "resource" env) (VObj []))
                   (if strict then Some true else None) = Ok true /\
    target_clauses strict (rule_resource rule) (py_or (get_key "resource" env) (VObj [])).
Proof. exact guard_target_semantics. Qed.
Print Assumptions c05_guard_target_semantics.

(* read the other way: a rule id all of whose bearers mismatch the request's resource is never reported *)
Theorem c05_guard_mismatching_rule_never_decides : forall rel strict kvs req resolved d s oblig env,
  tree_ok (VObj kvs) ->
  guard_eval unit (relh_pure rel) oblig strict (VObj kvs) req resolved tt = (GDecision d, tt) ->
  build_env strict req resolved = Some env ->
  (has_key "policies" (VObj kvs) = true -> s <> "") ->
  (forall rule, In rule (all_rules (VObj kvs)) -> rule_id rule = VStr s ->
     match_resource (rule_resource rule) (py_or (get_key "resource" env) (VObj []))
                    (if strict then Some true else None) <> Ok true) ->
  d_rule_id d <> Some s.
Proof. exact guard_mismatching_rule_never_decides. Qed.
Print Assumptions c05_guard_mismatching_rule_never_decides.

(* through the cache, at every site — hit or miss — in the type mode of the evaluating guard *)
Theorem c05_target_semantics_cached :
  forall (rel : rel_query -> bool) (T : Type) (tag : value -> T) (teqb : T -> T -> bool),
  (forall a b, teqb a b = true <-> a = b) ->
  forall (M : cache_impl T), contract T teqb M ->
  forall (copying : bool) (g1 g2 : gcfg) (h : list hop),
  tag_inj T tag (policies_all g1 g2 h) ->
  (forall e, In e (envs_all g1 g2 h) -> key_safe e = true) ->
  (forall p, In p (policies_all g1 g2 h) -> tree_ok p) ->
  forall pre w req post hit d s,
  h = pre ++ HEval w req :: post ->
  nth_error (snd (run_cached unit (relh_pure rel) T tag canon builtin_both M copying h (init unit T M g1 g2 tt)))
            (evals_in pre) = Some (hit, GDecision d) ->
  d_rule_id d = Some s ->
  (has_key "policies" (policy_at w pre g1 g2) = true -> s <> "") ->
  exists env rule,
    build_env (guard_strict w g1 g2) req None = Some env /\
    In rule (all_rules (policy_at w pre g1 g2)) /\ rule_id rule = VStr s /\ applicable rel rule env /\
    action_matches rule env /\
    match_resource (rule_resource rule) (py_or (get_key "resource" env) (VObj []))
                   (if guard_strict w g1 g2 then Some true else None) = Ok true /\
    target_clauses (guard_strict w g1 g2) (rule_resource rule) (py_or (get_key "resource" env) (VObj [])).
Proof. exact target_semantics_cached. Qed.
Print Assumptions c05_target_semantics_cached.

Theorem c05_mismatching_rule_never_decides_cached :
  forall (rel : rel_query -> bool) (T : Type) (tag : value -> T) (teqb : T -> T -> bool),
  (forall a b, teqb a b = true <-> a = b) ->
  forall (M : cache_impl T), contract T teqb M ->
  forall (copying : bool) (g1 g2 : gcfg) (h : list hop),
  tag_inj T tag (policies_all g1 g2 h) ->
  (forall e, In e (envs_all g1 g2 h) -> key_safe e = true) ->
  (forall p, In p (policies_all g1 g2 h) -> tree_ok p) ->
  forall pre w req post hit d s env,
  h = pre ++ HEval w req :: post ->
  nth_error (snd (run_cached unit (relh_pure rel) T tag canon builtin_both M copying h (init unit T M g1 g2 tt)))
            (evals_in pre) = Some (hit, GDecision d) ->
  build_env (guard_strict w g1 g2) req None = Some env ->
  (has_key "policies" (policy_at w pre g1 g2) = true -> s <> "") ->
  (forall rule, In rule (all_rules (policy_at w pre g1 g2)) -> rule_id rule = VStr s ->
     match_resource (rule_resource rule) (py_or (get_key "resource" env) (VObj []))
                    (if guard_strict w g1 g2 then Some true else None) <> Ok true) ->
  d_rule_id d <> Some s.
Proof. exact mismatching_rule_never_decides_cached. Qed.
Print Assumptions c05_mismatching_rule_never_decides_cached.

(* non-vacuity (theories/CacheExplain3.v): rule n7 names the id 7 (a number), the request the id "7".  Two
   guards, lax and strict, hold [permit n7 ; deny doc] and SHARE DefaultInMemoryCache(4); history: lax
   evaluate (miss, permit n7), strict evaluate (miss, deny d), lax again (HIT), strict again (HIT) *)
Example c05_cached_example_answers :
  map summary uouts =
  [(false, Some (true, Some "n7", "matched")); (false, Some (false, Some "d", "explicit_deny"));
   (true, Some (true, Some "n7", "matched")); (true, Some (false, Some "d", "explicit_deny"))].
Proof. exact u_answers. Qed.
Example c05_cached_example_modes :
  match_resource (rule_resource rule_n7) (py_or (get_key "resource" tenv) (VObj [])) None = Ok true /\
  match_resource (rule_resource rule_n7) (py_or (get_key "resource" tenv_s) (VObj [])) (Some true) = Ok false.
Proof. exact u_modes. Qed.
Example c05_cached_example_hypotheses :
  tag_inj value canon (policies_all ug1 ug2 uh) /\
  (forall e, In e (envs_all ug1 ug2 uh) -> key_safe e = true) /\
  (forall p, In p (policies_all ug1 ug2 uh) -> tree_ok p).
Proof. exact u_history_hypotheses. Qed.
(* the strict guard's HIT never reports n7; the lax guard's HIT reports n7, whose target matched by the lax table *)
Example c05_cached_example_hits :
  (forall d, nth_error uouts 3 = Some (true, GDecision d) -> d_rule_id d <> Some "n7") /\
  (forall d, nth_error uouts 2 = Some (true, GDecision d) -> d_rule_id d = Some "n7" ->
     exists env rule,
       build_env false treq None = Some env /\ In rule (all_rules (VObj num_kvs)) /\ rule_id rule = VStr "n7" /\
       target_clauses false (rule_resource rule) (py_or (get_key "resource" env) (VObj []))) /\
  (exists d, nth_error uouts 2 = Some (true, GDecision d) /\ d_rule_id d = Some "n7" /\ d_allowed d = true) /\
  (exists d, nth_error uouts 3 = Some (true, GDecision d) /\ d_rule_id d = Some "d" /\ d_allowed d = false).
Proof. exact (conj u_strict_hit_not_n7 (conj u_lax_hit_matches u_hits_exist)). Qed.
