(* C11 — Decisions explain themselves truthfully and the audit trail agrees with them.
   Statements only.  Same model and hypotheses as C01; oblig is ANY obligation checker. *)
From Coq Require Import List Bool String.
From Rbacx Require Import Value Cond Target Policy PolicySet Compiler Oblig Engine
     PolicyProofs PolicySetProofs ObligProofs EngineProofs.
Import ListNotations.
Local Open Scope string_scope.

(* a non-null rule id names a rule of the policy (any depth, any path) that is applicable and has
   the reported effect: explicit_deny for deny, matched for a granted permit, obligation_failed for
   a permit revoked by the obligation checker; obligations returned with a permit are that rule's *)
Theorem c11_rule_id_truthful : forall rel strict kvs req resolved d s oblig,
  tree_ok (VObj kvs) ->
  guard_eval unit (relh_pure rel) oblig strict (VObj kvs) req resolved tt = (GDecision d, tt) ->
  d_rule_id d = Some s -> (has_key "policies" (VObj kvs) = true -> s <> "") ->
  exists env rule eff,
    build_env strict req resolved = Some env /\
    In rule (all_rules (VObj kvs)) /\ applicable rel rule env /\ rule_id rule = VStr s /\
    rule_effect rule = Some eff /\
    ((eff = "deny" /\ d_effect d = "deny" /\ d_allowed d = false /\ d_reason d = "explicit_deny") \/
     (eff = "permit" /\ d_obligations d = rule_obls rule /\
      ((d_effect d = "permit" /\ d_allowed d = true /\ d_reason d = "matched") \/
       (d_effect d = "deny" /\ d_allowed d = false /\ d_reason d = "obligation_failed")))).
Proof. exact rule_id_truthful. Qed.
Print Assumptions c11_rule_id_truthful.

(* when no rule is reported the decision is a deny whose reason is no_match or a mismatch kind that
   some rule of the policy actually exhibited on this request *)
Theorem c11_no_rule : forall rel strict kvs req resolved d oblig,
  guard_eval unit (relh_pure rel) oblig strict (VObj kvs) req resolved tt = (GDecision d, tt) ->
  d_rule_id d = None ->
  exists env, build_env strict req resolved = Some env /\
              exhibited rel env (all_rules (VObj kvs)) (d_reason d) /\
              d_allowed d = false /\ d_effect d = "deny".
Proof. exact no_rule_reason. Qed.
Print Assumptions c11_no_rule.

(* single policies: every reported rule explains the raw decision *)
Theorem c11_policy_explained : forall rel override kvs env r s,
  evaluate unit (relh_pure rel) override (VObj kvs) env tt = (ERaw r, tt) ->
  policy_algo override (VObj kvs) <> Some OtherAlgo ->
  r_rule_id r = Some s ->
  exists rules rule, policy_rules (VObj kvs) = Some rules /\ In rule rules /\ explains rel env rule r.
Proof. exact evaluate_explained. Qed.
Print Assumptions c11_policy_explained.

(* sets: the reported rule, obligations and decision are those of a leaf policy's own result; the id
   reported as policy_id is attached by the set evaluator (C02: the deciding top-level child) *)
Theorem c11_set_explained : forall rel ps env r s,
  Forall (leaf_ok rel env) (all_leaves ps) ->
  decide unit (relh_pure rel) ps env tt = (ERaw r, tt) ->
  r_rule_id r = Some s -> s <> "" -> explained_by_leaf rel env ps r.
Proof. exact set_explained. Qed.
Print Assumptions c11_set_explained.

(* exactly one audit payload and one metric per evaluation, carrying the decision's effect, allowed
   flag, rule id and reason; whatever the sinks do (including failing) the decision is the same *)
Theorem c11_audit_agrees : forall log inc env d,
  let e := emit log inc env d in
  e_decision e = d /\
  e_counted e = [d_effect d] /\
  exists p, e_logged e = [p] /\ get_key "decision" p = VStr (d_effect d) /\ get_key "allowed" p = VBool (d_allowed d) /\
            get_key "rule_id" p = match d_rule_id d with Some s => VStr s | None => VNull end /\
            get_key "reason" p = VStr (d_reason d) /\ get_key "env" p = env.
Proof. exact audit_agrees. Qed.
Print Assumptions c11_audit_agrees.
Theorem c11_sinks_inert : forall log1 inc1 log2 inc2 env d, emit log1 inc1 env d = emit log2 inc2 env d.
Proof. exact sinks_inert. Qed.
Print Assumptions c11_sinks_inert.
