(* C11 — Decisions explain themselves truthfully and the audit trail agrees with them.
   Statements only.  Same model and hypotheses as C01; oblig is ANY obligation checker.
   Last section: the same through the decision cache (theories/CacheExplain.v = C08 composed with these). *)
From Coq Require Import List Bool String.
From Rbacx Require Import Value Cond Target Policy PolicySet Compiler Oblig Engine
     PolicyProofs PolicySetProofs ObligProofs EngineProofs
     Cache CacheKey CacheGuard CacheGuardProofs CacheExplain.
Import ListNotations.
Local Open Scope string_scope.

(* a non-null rule id names a rule of the policy (any depth, any path) that is applicable and has
   the reported effect: explicit_deny for deny, matched for a granted permit, obligation_failed for
   a permit revoked by the obligation checker; obligations returned with a permit are that rule's *)
Theorem c11_rule_id_truthful : forall rel strict kvs req resolved d s oblig,
  tree_ok (VObj kvs) ->
  guard_eval unit (relh_pure rel) oblig strict (VObj kvs) req resolved tt = (GDecision d, tt) ->
  d_rule_id d = Some s -> (has_key "policies" (VObj kvs) = true -> s <> "") ->
  exists env rule eff,
    build_env strict req resolved = Some env /\
    In rule (all_rules (VObj kvs)) /\ applicable rel rule env /\ rule_id rule = VStr s /\
    rule_effect rule = Some eff /\
    ((eff = "deny" /\ d_effect d = "deny" /\ d_allowed d = false /\ d_reason d = "explicit_deny") \/
     (eff = "permit" /\ d_obligations d = rule_obls rule /\
      ((d_effect d = "permit" /\ d_allowed d = true /\ d_reason d = "matched") \/
       (d_effect d = "deny" /\ d_allowed d = false /\ d_reason d = "obligation_failed")))).
Proof. exact rule_id_truthful. Qed.
Print Assumptions c11_rule_id_truthful.

(* when no rule is reported the decision is a deny whose reason is no_match or a mismatch kind that
   some rule of the policy actually exhibited on this request *)
Theorem c11_no_rule : forall rel strict kvs req resolved d oblig,
  guard_eval unit (relh_pure rel) oblig strict (VObj kvs) req resolved tt = (GDecision d, tt) ->
  d_rule_id d = None ->
  exists env, build_env strict req resolved = Some env /\
              exhibited rel env (all_rules (VObj kvs)) (d_reason d) /\
              d_allowed d = false /\ d_effect d = "deny".
Proof. exact no_rule_reason. Qed.
Print Assumptions c11_no_rule.

(* single policies: every reported rule explains the raw decision *)
Theorem c11_policy_explained : forall rel override kvs env r s,
  evaluate unit (relh_pure rel) override (VObj kvs) env tt = (ERaw r, tt) ->
  policy_algo override (VObj kvs) <> Some OtherAlgo ->
  r_rule_id r = Some s ->
  exists rules rule, policy_rules (VObj kvs) = Some rules /\ In rule rules /\ explains rel env rule r.
Proof. exact evaluate_explained. Qed.
Print Assumptions c11_policy_explained.

(* sets: the reported rule, obligations and decision are those of a leaf policy's own result; the id
   reported as policy_id is attached by the set evaluator (C02: the deciding top-level child) *)
Theorem c11_set_explained : forall rel ps env r s,
  Forall (leaf_ok rel env) (all_leaves ps) ->
  decide unit (relh_pure rel) ps env tt = (ERaw r, tt) ->
  r_rule_id r = Some s -> s <> "" -> explained_by_leaf rel env ps r.
Proof. exact set_explained. Qed.
Print Assumptions c11_set_explained.

(* exactly one audit payload and one metric per evaluation, carrying the decision's effect, allowed
   flag, rule id and reason; whatever the sinks do (including failing) the decision is the same *)
Theorem c11_audit_agrees : forall log inc env d,
  let e := emit log inc env d in
  e_decision e = d /\
  e_counted e = [d_effect d] /\
  exists p, e_logged e = [p] /\ get_key "decision" p = VStr (d_effect d) /\ get_key "allowed" p = VBool (d_allowed d) /\
            get_key "rule_id" p = match d_rule_id d with Some s => VStr s | None => VNull end /\
            get_key "reason" p = VStr (d_reason d) /\ get_key "env" p = env.
Proof. exact audit_agrees. Qed.
Print Assumptions c11_audit_agrees.
Theorem c11_sinks_inert : forall log1 inc1 log2 inc2 env d, emit log1 inc1 env d = emit log2 inc2 env d.
Proof. exact sinks_inert. Qed.
Print Assumptions c11_sinks_inert.

(* ------------------------------------------------------------------ *)
(* through the decision cache (C08 composed with the theorems above)    *)
(* ------------------------------------------------------------------ *)
Local Open Scope list_scope.   (* ++ is list append below *)
(* Vocabulary as in props/C01.v (sites h = pre ++ HEval w req :: post, answer number evals_in pre,
   policy_at w pre g1 g2 = the policy guard w holds at that point, guard_strict w g1 g2 = its type
   mode) and props/C08.v (histories, run_cached, contract, tag_inj, key_safe).  Every answer of the
   cached engines, hits included, explains itself truthfully w.r.t. the policy held AT THAT TIME. *)
Theorem c11_rule_id_truthful_cached :
  forall (rel : rel_query -> bool) (T : Type) (tag : value -> T) (teqb : T -> T -> bool),
  (forall a b, teqb a b = true <-> a = b) ->
  forall (M : cache_impl T), contract T teqb M ->
  forall (copying : bool) (g1 g2 : gcfg) (h : list hop),
  tag_inj T tag (policies_all g1 g2 h) ->
  (forall p, In p (policies_all g1 g2 h) -> tree_ok p) ->
  (forall e, In e (envs_all g1 g2 h) -> key_safe e = true) ->
  forall pre w req post hit d s,
  h = pre ++ HEval w req :: post ->
  nth_error (snd (run_cached unit (relh_pure rel) T tag canon builtin_both M copying h (init unit T M g1 g2 tt)))
            (evals_in pre) = Some (hit, GDecision d) ->
  d_rule_id d = Some s -> (has_key "policies" (policy_at w pre g1 g2) = true -> s <> "") ->
  exists env rule eff,
    build_env (guard_strict w g1 g2) req None = Some env /\
    In rule (all_rules (policy_at w pre g1 g2)) /\ applicable rel rule env /\ rule_id rule = VStr s /\
    rule_effect rule = Some eff /\
    ((eff = "deny" /\ d_effect d = "deny" /\ d_allowed d = false /\ d_reason d = "explicit_deny") \/
     (eff = "permit" /\ d_obligations d = rule_obls rule /\
      ((d_effect d = "permit" /\ d_allowed d = true /\ d_reason d = "matched") \/
       (d_effect d = "deny" /\ d_allowed d = false /\ d_reason d = "obligation_failed")))).
Proof. exact rule_id_truthful_cached. Qed.
Print Assumptions c11_rule_id_truthful_cached.

Theorem c11_no_rule_cached :
  forall (rel : rel_query -> bool) (T : Type) (tag : value -> T) (teqb : T -> T -> bool),
  (forall a b, teqb a b = true <-> a = b) ->
  forall (M : cache_impl T), contract T teqb M ->
  forall (copying : bool) (g1 g2 : gcfg) (h : list hop),
  tag_inj T tag (policies_all g1 g2 h) ->
  (forall e, In e (envs_all g1 g2 h) -> key_safe e = true) ->
  forall pre w req post hit d,
  h = pre ++ HEval w req :: post ->
  nth_error (snd (run_cached unit (relh_pure rel) T tag canon builtin_both M copying h (init unit T M g1 g2 tt)))
            (evals_in pre) = Some (hit, GDecision d) ->
  d_rule_id d = None ->
  exists env, build_env (guard_strict w g1 g2) req None = Some env /\
              exhibited rel env (all_rules (policy_at w pre g1 g2)) (d_reason d) /\
              d_allowed d = false /\ d_effect d = "deny".
Proof. exact no_rule_reason_cached. Qed.
Print Assumptions c11_no_rule_cached.

(* "oblig is ANY obligation checker" through the cache: any checkers (one per guard) and any key
   normal form that meet the conditions under which C08 proves the cache transparent
   (c08_transparent): requests with one key are decided alike, the checkers do not read
   raw["reason"], a refusal is a refusal for both guards on every request with that key.
   (A second guard with a checker outside these conditions: c08_other_checker_leaks.) *)
Theorem c11_rule_id_truthful_cached_any_checker :
  forall (rel : rel_query -> bool) (T : Type) (tag : value -> T) (teqb : T -> T -> bool),
  (forall a b, teqb a b = true <-> a = b) ->
  forall (M : cache_impl T), contract T teqb M ->
  forall (copying : bool) (g1 g2 : gcfg) (h : list hop),
  tag_inj T tag (policies_all g1 g2 h) ->
  (forall p, In p (policies_all g1 g2 h) -> tree_ok p) ->
  forall (norm : value -> value) (oblig : bool -> raw -> value -> option (bool * option string)),
  key_respects_decision (relh_pure rel) norm (policies_all g1 g2 h) (envs_all g1 g2 h) ->
  reason_blind oblig ->
  refusal_stable norm oblig (envs_all g1 g2 h) ->
  forall pre w req post hit d s,
  h = pre ++ HEval w req :: post ->
  nth_error (snd (run_cached unit (relh_pure rel) T tag norm oblig M copying h (init unit T M g1 g2 tt)))
            (evals_in pre) = Some (hit, GDecision d) ->
  d_rule_id d = Some s -> (has_key "policies" (policy_at w pre g1 g2) = true -> s <> "") ->
  exists env rule eff,
    build_env (guard_strict w g1 g2) req None = Some env /\
    In rule (all_rules (policy_at w pre g1 g2)) /\ applicable rel rule env /\ rule_id rule = VStr s /\
    rule_effect rule = Some eff /\
    ((eff = "deny" /\ d_effect d = "deny" /\ d_allowed d = false /\ d_reason d = "explicit_deny") \/
     (eff = "permit" /\ d_obligations d = rule_obls rule /\
      ((d_effect d = "permit" /\ d_allowed d = true /\ d_reason d = "matched") \/
       (d_effect d = "deny" /\ d_allowed d = false /\ d_reason d = "obligation_failed")))).
Proof. exact rule_id_truthful_cached_any. Qed.
Print Assumptions c11_rule_id_truthful_cached_any_checker.

Theorem c11_no_rule_cached_any_checker :
  forall (rel : rel_query -> bool) (T : Type) (tag : value -> T) (teqb : T -> T -> bool),
  (forall a b, teqb a b = true <-> a = b) ->
  forall (M : cache_impl T), contract T teqb M ->
  forall (copying : bool) (g1 g2 : gcfg) (h : list hop),
  tag_inj T tag (policies_all g1 g2 h) ->
  forall (norm : value -> value) (oblig : bool -> raw -> value -> option (bool * option string)),
  key_respects_decision (relh_pure rel) norm (policies_all g1 g2 h) (envs_all g1 g2 h) ->
  reason_blind oblig ->
  refusal_stable norm oblig (envs_all g1 g2 h) ->
  forall pre w req post hit d,
  h = pre ++ HEval w req :: post ->
  nth_error (snd (run_cached unit (relh_pure rel) T tag norm oblig M copying h (init unit T M g1 g2 tt)))
            (evals_in pre) = Some (hit, GDecision d) ->
  d_rule_id d = None ->
  exists env, build_env (guard_strict w g1 g2) req None = Some env /\
              exhibited rel env (all_rules (policy_at w pre g1 g2)) (d_reason d) /\
              d_allowed d = false /\ d_effect d = "deny".
Proof. exact no_rule_reason_cached_any. Qed.
Print Assumptions c11_no_rule_cached_any_checker.

(* non-vacuity (theories/CacheExplain.v; hypotheses: c01_cached_example_hypotheses): the refused
   evaluation after the set_policy names o1 of pol_mfa with reason obligation_failed *)
Example c11_cached_example :
  forall d, nth_error xouts 2 = Some (false, GDecision d) ->
  exists env rule eff,
    build_env false (xr []) None = Some env /\ In rule (all_rules pol_mfa) /\
    applicable (fun _ => false) rule env /\ rule_id rule = VStr "o1" /\ rule_effect rule = Some eff /\
    eff = "permit" /\ d_effect d = "deny" /\ d_allowed d = false /\ d_reason d = "obligation_failed".
Proof. exact x_refusal_explained. Qed.

(* ------------------------------------------------------------------ *)
(* through a DecisionLogger as the logger_sink (C19 composed with the   *)
(* theorems above; theories/AuditRedact.v, more in props/C19.v)         *)
(* ------------------------------------------------------------------ *)
(* audit_fields env d = the items of audit_payload env d; Redact.log c payload u size = one
   DecisionLogger(c).log(payload) with draw u and serialized size `size`; LEmitted _ safe _ _ =
   the record `safe` reached the log.  Imported here, after the statements above, so that
   their short names (init, ...) keep their meaning. *)
From Rbacx Require Import Redact RedactProofs AuditRedact.

(* redaction, truncation and fail-closed replace "env" only: the record is the audit payload of
   the same Decision (c11_audit_agrees survives the logger) *)
Theorem c11_logged_record_is_audit_payload : forall c env d u size draws safe caller raised,
  Redact.log c (audit_fields env d) u size = LEmitted draws safe caller raised ->
  exists out, safe = audit_payload out d.
Proof. exact logged_record_shape. Qed.
Print Assumptions c11_logged_record_is_audit_payload.

(* the RECORD explains itself: a record naming a rule names an applicable rule of the policy
   with the recorded effect / flag / reason / obligations (c11_rule_id_truthful read off the record) *)
Theorem c11_logged_rule_id_truthful :
  forall rel strict kvs req resolved d s oblig env c u size draws safe caller raised,
  tree_ok (VObj kvs) ->
  guard_eval unit (relh_pure rel) oblig strict (VObj kvs) req resolved tt = (GDecision d, tt) ->
  build_env strict req resolved = Some env ->
  Redact.log c (audit_fields env d) u size = LEmitted draws safe caller raised ->
  get_key "rule_id" safe = VStr s -> (has_key "policies" (VObj kvs) = true -> s <> "") ->
  exists rule eff,
    In rule (all_rules (VObj kvs)) /\ applicable rel rule env /\ rule_id rule = VStr s /\
    rule_effect rule = Some eff /\
    ((eff = "deny" /\ get_key "decision" safe = VStr "deny" /\ get_key "allowed" safe = VBool false /\
      get_key "reason" safe = VStr "explicit_deny") \/
     (eff = "permit" /\ get_key "obligations" safe = VList (rule_obls rule) /\
      ((get_key "decision" safe = VStr "permit" /\ get_key "allowed" safe = VBool true /\
        get_key "reason" safe = VStr "matched") \/
       (get_key "decision" safe = VStr "deny" /\ get_key "allowed" safe = VBool false /\
        get_key "reason" safe = VStr "obligation_failed")))).
Proof. exact logged_rule_id_truthful. Qed.
Print Assumptions c11_logged_rule_id_truthful.

Theorem c11_logged_no_rule_reason :
  forall rel strict kvs req resolved d oblig env c u size draws safe caller raised,
  guard_eval unit (relh_pure rel) oblig strict (VObj kvs) req resolved tt = (GDecision d, tt) ->
  build_env strict req resolved = Some env ->
  Redact.log c (audit_fields env d) u size = LEmitted draws safe caller raised ->
  get_key "rule_id" safe = VNull ->
  exists reason, get_key "reason" safe = VStr reason /\
                 exhibited rel env (all_rules (VObj kvs)) reason /\
                 get_key "allowed" safe = VBool false /\ get_key "decision" safe = VStr "deny".
Proof. exact logged_no_rule_reason. Qed.
Print Assumptions c11_logged_no_rule_reason.
