(* C01 — Deny by default: no permit without an applicable, satisfied permit rule.
   Statements only.  guard_eval models Guard._evaluate_core_async without the cache (C08 ties the
   cache): environment construction (role resolver's answer `resolved`, strict flag), compiled
   function / interpreter / set evaluator, built-in obligation checker, Decision.  rel is an
   arbitrary relationship oracle (any checker, or none).  tree_ok policy: every leaf policy of
   the (nested) set names a known algorithm or none and its rules' effects are permit/deny —
   implied by schema validity (C06). *)
From Coq Require Import List Bool String.
From Rbacx Require Import Value Cond Target Policy PolicySet Compiler Oblig Engine
     PolicyProofs PolicySetProofs ObligProofs EngineProofs.
Import ListNotations.
Local Open Scope string_scope.

(* allowed is true exactly when effect is "permit" — for every checker *)
Theorem c01_allowed_iff_permit : forall oblig r ctx,
  let d := finish oblig r ctx in d_allowed d = true <-> d_effect d = "permit".
Proof. exact finish_allowed_iff. Qed.
Print Assumptions c01_allowed_iff_permit.

(* allowed = true only if the policy (at any nesting depth, on whichever evaluation path) contains
   a permit rule whose actions, resource target and condition all match the request, whose
   obligations are the ones returned, and whose obligations the built-in checker does not refuse *)
Theorem c01_no_spurious_permit : forall rel strict kvs req resolved d,
  tree_ok (VObj kvs) ->
  guard_eval unit (relh_pure rel) builtin_oblig strict (VObj kvs) req resolved tt = (GDecision d, tt) ->
  d_allowed d = true ->
  exists env rule eff,
    build_env strict req resolved = Some env /\
    In rule (all_rules (VObj kvs)) /\ applicable rel rule env /\
    rule_effect rule = Some eff /\ eff <> "deny" /\
    d_obligations d = rule_obls rule /\
    (forall ok ch, check "permit" (rule_obls rule) (get_key "context" env) = Ok (ok, ch) -> ok = true).
Proof. exact no_spurious_permit. Qed.
Print Assumptions c01_no_spurious_permit.

(* no applicable rule: deny *)
Theorem c01_nothing_applies_denies : forall rel strict kvs req resolved d env,
  tree_ok (VObj kvs) ->
  guard_eval unit (relh_pure rel) builtin_oblig strict (VObj kvs) req resolved tt = (GDecision d, tt) ->
  build_env strict req resolved = Some env ->
  (forall rule, In rule (all_rules (VObj kvs)) -> ~ applicable rel rule env) ->
  d_allowed d = false /\ d_effect d = "deny".
Proof. exact nothing_applies_denies. Qed.
Print Assumptions c01_nothing_applies_denies.

(* no rules at all: deny *)
Theorem c01_no_rules_denies : forall rel strict kvs req resolved d env,
  tree_ok (VObj kvs) -> all_rules (VObj kvs) = [] ->
  guard_eval unit (relh_pure rel) builtin_oblig strict (VObj kvs) req resolved tt = (GDecision d, tt) ->
  build_env strict req resolved = Some env ->
  d_allowed d = false /\ d_effect d = "deny".
Proof. exact no_rules_denies. Qed.
Print Assumptions c01_no_rules_denies.

(* a raw permit always names a rule, on every path (compiled, interpreter, sets) *)
Theorem c01_permit_names_a_rule : forall rel kvs env r,
  guard_decide unit (relh_pure rel) (VObj kvs) env tt = (ERaw r, tt) -> r_decision r = "permit" ->
  exists s, r_rule_id r = Some s /\ (has_key "policies" (VObj kvs) = true -> s <> "").
Proof. exact guard_decide_permit_rule. Qed.
Print Assumptions c01_permit_names_a_rule.

(* non-vacuity: a nested set in which the only applicable permit has an unmet obligation: denied;
   with the obligation met: allowed *)
Definition c01_policy : value :=
  VObj [("algorithm", VStr "permit-overrides");
        ("policies", VList [VObj [("id", VStr "inner"); ("algorithm", VStr "first-applicable");
          ("policies", VList [VObj [("id", VStr "leaf"); ("algorithm", VStr "deny-overrides");
            ("rules", VList [VObj [("id", VStr "p"); ("effect", VStr "permit"); ("actions", VList [VStr "read"]);
                                   ("resource", VObj [("type", VStr "doc")]);
                                   ("obligations", VList [VObj [("type", VStr "require_mfa")]])]])]])]])].
Definition c01_req (ctx : list (string * value)) : value :=
  VObj [("subject", VObj [("id", VStr "u"); ("roles", VList []); ("attrs", VObj [])]); ("action", VStr "read");
        ("resource", VObj [("type", VStr "doc"); ("id", VStr "1"); ("attrs", VObj [])]); ("context", VObj ctx)].
Definition allowed_of (g : gres) : option bool := match g with GDecision d => Some (d_allowed d) | _ => None end.
Example c01_example :
  allowed_of (fst (guard_eval unit (relh_pure (fun _ => false)) builtin_oblig false c01_policy (c01_req []) None tt)) = Some false /\
  allowed_of (fst (guard_eval unit (relh_pure (fun _ => false)) builtin_oblig false c01_policy
                     (c01_req [("mfa", VBool true)]) None tt)) = Some true.
Proof. vm_compute. split; reflexivity. Qed.
