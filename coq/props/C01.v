(* C01 — Deny by default: no permit without an applicable, satisfied permit rule.
   Statements only.  guard_eval models Guard._evaluate_core_async without the cache (C08 ties the
   cache; the last section of this file composes the two: the statements through the cache, hits included): environment construction (role resolver's answer `resolved`, strict flag), compiled
   function / interpreter / set evaluator, built-in obligation checker, Decision.  rel is an
   arbitrary relationship oracle (any checker, or none).  tree_ok policy: every leaf policy of
   the (nested) set names a known algorithm or none and its rules' effects are permit/deny —
   implied by schema validity (C06). *)
From Coq Require Import List Bool String.
From Rbacx Require Import Value Cond Target Policy PolicySet Compiler Oblig Engine
     PolicyProofs PolicySetProofs ObligProofs EngineProofs
     Cache CacheKey CacheGuard CacheGuardProofs CacheExplain.
Import ListNotations.
Local Open Scope string_scope.

(* allowed is true exactly when effect is "permit" — for every checker *)
Theorem c01_allowed_iff_permit : forall oblig r ctx,
  let d := finish oblig r ctx in d_allowed d = true <-> d_effect d = "permit".
Proof. exact finish_allowed_iff. Qed.
Print Assumptions c01_allowed_iff_permit.

(* allowed = true only if the policy (at any nesting depth, on whichever evaluation path) contains
   a permit rule whose actions, resource target and condition all match the request, whose
   obligations are the ones returned, and whose obligations the built-in checker does not refuse *)
Theorem c01_no_spurious_permit : forall rel strict kvs req resolved d,
  tree_ok (VObj kvs) ->
  guard_eval unit (relh_pure rel) builtin_oblig strict (VObj kvs) req resolved tt = (GDecision d, tt) ->
  d_allowed d = true ->
  exists env rule eff,
    build_env strict req resolved = Some env /\
    In rule (all_rules (VObj kvs)) /\ applicable rel rule env /\
    rule_effect rule = Some eff /\ eff <> "deny" /\
    d_obligations d = rule_obls rule /\
    (forall ok ch, check "permit" (rule_obls rule) (get_key "context" env) = Ok (ok, ch) -> ok = true).
Proof. exact no_spurious_permit. Qed.
Print Assumptions c01_no_spurious_permit.

(* no applicable rule: deny *)
Theorem c01_nothing_applies_denies : forall rel strict kvs req resolved d env,
  tree_ok (VObj kvs) ->
  guard_eval unit (relh_pure rel) builtin_oblig strict (VObj kvs) req resolved tt = (GDecision d, tt) ->
  build_env strict req resolved = Some env ->
  (forall rule, In rule (all_rules (VObj kvs)) -> ~ applicable rel rule env) ->
  d_allowed d = false /\ d_effect d = "deny".
Proof. exact nothing_applies_denies. Qed.
Print Assumptions c01_nothing_applies_denies.

(* no rules at all: deny *)
Theorem c01_no_rules_denies : forall rel strict kvs req resolved d env,
  tree_ok (VObj kvs) -> all_rules (VObj kvs) = [] ->
  guard_eval unit (relh_pure rel) builtin_oblig strict (VObj kvs) req resolved tt = (GDecision d, tt) ->
  build_env strict req resolved = Some env ->
  d_allowed d = false /\ d_effect d = "deny".
Proof. exact no_rules_denies. Qed.
Print Assumptions c01_no_rules_denies.

(* a raw permit always names a rule, on every path (compiled, interpreter, sets) *)
Theorem c01_permit_names_a_rule : forall rel kvs env r,
  guard_decide unit (relh_pure rel) (VObj kvs) env tt = (ERaw r, tt) -> r_decision r = "permit" ->
  exists s, r_rule_id r = Some s /\ (has_key "policies" (VObj kvs) = true -> s <> "").
Proof. exact guard_decide_permit_rule. Qed.
Print Assumptions c01_permit_names_a_rule.

(* non-vacuity: a nested set in which the only applicable permit has an unmet obligation: denied;
   with the obligation met: allowed *)
Definition c01_policy : value :=
  VObj [("algorithm", VStr "permit-overrides");
        ("policies", VList [VObj [("id", VStr "inner"); ("algorithm", VStr "first-applicable");
          ("policies", VList [VObj [("id", VStr "leaf"); ("algorithm", VStr "deny-overrides");
            ("rules", VList [VObj [("id", VStr "p"); ("effect", VStr "permit"); ("actions", VList [VStr "read"]);
                                   ("resource", VObj [("type", VStr "doc")]);
                                   ("obligations", VList [VObj [("type", VStr "require_mfa")]])]])]])]])].
Definition c01_req (ctx : list (string * value)) : value :=
  VObj [("subject", VObj [("id", VStr "u"); ("roles", VList []); ("attrs", VObj [])]); ("action", VStr "read");
        ("resource", VObj [("type", VStr "doc"); ("id", VStr "1"); ("attrs", VObj [])]); ("context", VObj ctx)].
Definition allowed_of (g : gres) : option bool := match g with GDecision d => Some (d_allowed d) | _ => None end.
Example c01_example :
  allowed_of (fst (guard_eval unit (relh_pure (fun _ => false)) builtin_oblig false c01_policy (c01_req []) None tt)) = Some false /\
  allowed_of (fst (guard_eval unit (relh_pure (fun _ => false)) builtin_oblig false c01_policy
                     (c01_req [("mfa", VBool true)]) None tt)) = Some true.
Proof. vm_compute. split; reflexivity. Qed.

(* ------------------------------------------------------------------ *)
(* through the decision cache (C08 composed with the theorems above)    *)
(* ------------------------------------------------------------------ *)
Local Open Scope list_scope.   (* ++ is list append below *)
(* Histories h of HEval w req | HSetPolicy w p | HClear w | HTick dt on one or two guards g1, g2
   (w: false = first, true = second) that share ONE cache M, as in props/C08.v; run_cached answers,
   per evaluation in order, (was it a hit, Decision | Raise | Ood).  A SITE of h is a decomposition
   h = pre ++ HEval w req :: post; its answer is answer number [evals_in pre] (number of HEval in
   pre).  [policy_at w pre g1 g2] = the policy guard w holds at that point: the argument of the last
   HSetPolicy w _ in pre, else its initial policy; [guard_strict w g1 g2] = its type mode.
   Hypotheses = those of c08_transparent_key_safe (cache meeting the C15 contract — the built-in LRU
   with any capacity/TTL/clock does, c08_builtin_cache_meets_contract —, injective tags on the
   history's policies, key-safe requests) + tree_ok of every policy of the history.  The policy
   need not be assumed an object: a non-object policy never answers a Decision. *)

(* what policy_at means *)
Theorem c01_policy_at_is_last_set_policy : forall w pre g1 g2,
  (forall a b p, pre = a ++ HSetPolicy w p :: b -> (forall q, ~ In (HSetPolicy w q) b) ->
     policy_at w pre g1 g2 = p) /\
  ((forall q, ~ In (HSetPolicy w q) pre) -> policy_at w pre g1 g2 = g_policy (if w then g2 else g1)).
Proof. exact policy_at_spec. Qed.
Print Assumptions c01_policy_at_is_last_set_policy.

(* the engines without a cache: the answer at a site — Decision, raise or out-of-domain alike — is
   guard_eval on the policy the evaluating guard holds at that point *)
Theorem c01_uncached_history_answer : forall (relh : rel_query -> unit -> bool * unit)
    (oblig : bool -> raw -> value -> option (bool * option string)) pre g1 g2 w req post,
  nth_error (run_ref unit relh oblig (pre ++ HEval w req :: post) g1 g2 tt) (evals_in pre)
  = Some (fst (guard_eval unit relh (oblig w) (guard_strict w g1 g2) (policy_at w pre g1 g2) req None tt)).
Proof. exact run_ref_nth. Qed.
Print Assumptions c01_uncached_history_answer.

(* the engines with the cache: every answer (hit or miss) at a site is that same guard_eval *)
Theorem c01_cached_history_answer :
  forall (rel : rel_query -> bool) (T : Type) (tag : value -> T) (teqb : T -> T -> bool),
  (forall a b, teqb a b = true <-> a = b) ->
  forall (M : cache_impl T), contract T teqb M ->
  forall (copying : bool) (g1 g2 : gcfg) (h : list hop),
  tag_inj T tag (policies_all g1 g2 h) ->
  (forall e, In e (envs_all g1 g2 h) -> key_safe e = true) ->
  forall pre w req post hit o,
  h = pre ++ HEval w req :: post ->
  nth_error (snd (run_cached unit (relh_pure rel) T tag canon builtin_both M copying h (init unit T M g1 g2 tt)))
            (evals_in pre) = Some (hit, o) ->
  o = fst (guard_eval unit (relh_pure rel) builtin_oblig (guard_strict w g1 g2) (policy_at w pre g1 g2) req None tt).
Proof. exact cached_answer_builtin. Qed.
Print Assumptions c01_cached_history_answer.

(* every answer of a cached run belongs to a site (sites with one answer number coincide: site_unique) *)
Theorem c01_every_cached_answer_has_a_site :
  forall (rel : rel_query -> bool) (T : Type) (tag : value -> T) (teqb : T -> T -> bool),
  (forall a b, teqb a b = true <-> a = b) ->
  forall (M : cache_impl T), contract T teqb M ->
  forall (copying : bool) (g1 g2 : gcfg) (h : list hop),
  tag_inj T tag (policies_all g1 g2 h) ->
  (forall e, In e (envs_all g1 g2 h) -> key_safe e = true) ->
  forall i a,
  nth_error (snd (run_cached unit (relh_pure rel) T tag canon builtin_both M copying h (init unit T M g1 g2 tt))) i = Some a ->
  exists pre w req post, h = pre ++ HEval w req :: post /\ evals_in pre = i.
Proof. exact cached_answer_site_builtin. Qed.
Print Assumptions c01_every_cached_answer_has_a_site.

(* C01 through the cache: a permit answered by the cached engines — served from the cache or not —
   has, in the policy the evaluating guard holds AT THAT TIME, an applicable non-deny rule whose
   obligations are the ones returned and are not refused by the built-in checker *)
Theorem c01_no_spurious_permit_cached :
  forall (rel : rel_query -> bool) (T : Type) (tag : value -> T) (teqb : T -> T -> bool),
  (forall a b, teqb a b = true <-> a = b) ->
  forall (M : cache_impl T), contract T teqb M ->
  forall (copying : bool) (g1 g2 : gcfg) (h : list hop),
  tag_inj T tag (policies_all g1 g2 h) ->
  (forall p, In p (policies_all g1 g2 h) -> tree_ok p) ->
  (forall e, In e (envs_all g1 g2 h) -> key_safe e = true) ->
  forall pre w req post hit d,
  h = pre ++ HEval w req :: post ->
  nth_error (snd (run_cached unit (relh_pure rel) T tag canon builtin_both M copying h (init unit T M g1 g2 tt)))
            (evals_in pre) = Some (hit, GDecision d) ->
  d_allowed d = true ->
  exists env rule eff,
    build_env (guard_strict w g1 g2) req None = Some env /\
    In rule (all_rules (policy_at w pre g1 g2)) /\ applicable rel rule env /\
    rule_effect rule = Some eff /\ eff <> "deny" /\
    d_obligations d = rule_obls rule /\
    (forall ok ch, check "permit" (rule_obls rule) (get_key "context" env) = Ok (ok, ch) -> ok = true).
Proof. exact no_spurious_permit_cached. Qed.
Print Assumptions c01_no_spurious_permit_cached.

(* the same, quantified over the answer list: EVERY permit in it has its site and its rule *)
Theorem c01_every_cached_permit_explained :
  forall (rel : rel_query -> bool) (T : Type) (tag : value -> T) (teqb : T -> T -> bool),
  (forall a b, teqb a b = true <-> a = b) ->
  forall (M : cache_impl T), contract T teqb M ->
  forall (copying : bool) (g1 g2 : gcfg) (h : list hop),
  tag_inj T tag (policies_all g1 g2 h) ->
  (forall p, In p (policies_all g1 g2 h) -> tree_ok p) ->
  (forall e, In e (envs_all g1 g2 h) -> key_safe e = true) ->
  forall i hit d,
  nth_error (snd (run_cached unit (relh_pure rel) T tag canon builtin_both M copying h (init unit T M g1 g2 tt))) i
    = Some (hit, GDecision d) ->
  d_allowed d = true ->
  exists pre w req post,
    h = pre ++ HEval w req :: post /\ evals_in pre = i /\
    exists env rule eff,
      build_env (guard_strict w g1 g2) req None = Some env /\
      In rule (all_rules (policy_at w pre g1 g2)) /\ applicable rel rule env /\
      rule_effect rule = Some eff /\ eff <> "deny" /\
      d_obligations d = rule_obls rule /\
      (forall ok ch, check "permit" (rule_obls rule) (get_key "context" env) = Ok (ok, ch) -> ok = true).
Proof. exact every_cached_permit_explained. Qed.
Print Assumptions c01_every_cached_permit_explained.

(* ... with DefaultInMemoryCache(maxsize = cap): any capacity; TTLs and clock advances are in g1, g2, h *)
Theorem c01_no_spurious_permit_cached_lru :
  forall (rel : rel_query -> bool) (T : Type) (tag : value -> T) (teqb : T -> T -> bool),
  (forall a b, teqb a b = true <-> a = b) ->
  forall (cap : BinNums.Z) (g1 g2 : gcfg) (h : list hop),
  tag_inj T tag (policies_all g1 g2 h) ->
  (forall e, In e (envs_all g1 g2 h) -> key_safe e = true) ->
  (forall p, In p (policies_all g1 g2 h) -> tree_ok p) ->
  forall pre w req post hit d,
  h = pre ++ HEval w req :: post ->
  nth_error (snd (run_cached unit (relh_pure rel) T tag canon builtin_both (lru_cache T teqb cap) false h
                    (init unit T (lru_cache T teqb cap) g1 g2 tt))) (evals_in pre) = Some (hit, GDecision d) ->
  d_allowed d = true ->
  exists env rule eff,
    build_env (guard_strict w g1 g2) req None = Some env /\
    In rule (all_rules (policy_at w pre g1 g2)) /\ applicable rel rule env /\
    rule_effect rule = Some eff /\ eff <> "deny" /\
    d_obligations d = rule_obls rule /\
    (forall ok ch, check "permit" (rule_obls rule) (get_key "context" env) = Ok (ok, ch) -> ok = true).
Proof. exact no_spurious_permit_cached_lru. Qed.
Print Assumptions c01_no_spurious_permit_cached_lru.

(* no rule of the policy held at that time applies: the cached engines deny *)
Theorem c01_nothing_applies_denies_cached :
  forall (rel : rel_query -> bool) (T : Type) (tag : value -> T) (teqb : T -> T -> bool),
  (forall a b, teqb a b = true <-> a = b) ->
  forall (M : cache_impl T), contract T teqb M ->
  forall (copying : bool) (g1 g2 : gcfg) (h : list hop),
  tag_inj T tag (policies_all g1 g2 h) ->
  (forall p, In p (policies_all g1 g2 h) -> tree_ok p) ->
  (forall e, In e (envs_all g1 g2 h) -> key_safe e = true) ->
  forall pre w req post hit d env,
  h = pre ++ HEval w req :: post ->
  nth_error (snd (run_cached unit (relh_pure rel) T tag canon builtin_both M copying h (init unit T M g1 g2 tt)))
            (evals_in pre) = Some (hit, GDecision d) ->
  build_env (guard_strict w g1 g2) req None = Some env ->
  (forall rule, In rule (all_rules (policy_at w pre g1 g2)) -> ~ applicable rel rule env) ->
  d_allowed d = false /\ d_effect d = "deny".
Proof. exact nothing_applies_denies_cached. Qed.
Print Assumptions c01_nothing_applies_denies_cached.

(* non-vacuity (theories/CacheExplain.v, DefaultInMemoryCache(4), tags = key-sorted policy): history xh =
   evaluate; the same again; set_policy(pol_mfa); the same; with context.mfa; that one again *)
Example c01_cached_example_answers :
  map summary xouts =
  [(false, Some (true, Some "n1", "matched")); (true, Some (true, Some "n1", "matched"));
   (false, Some (false, Some "o1", "obligation_failed"));
   (false, Some (true, Some "o1", "matched")); (true, Some (true, Some "o1", "matched"))].
Proof. vm_compute. reflexivity. Qed.
Example c01_cached_example_hypotheses :
  tag_inj value canon (policies_all xg xg xh) /\
  (forall e, In e (envs_all xg xg xh) -> key_safe e = true) /\
  (forall p, In p (policies_all xg xg xh) -> tree_ok p).
Proof. exact x_hypotheses_hold. Qed.
(* the two HITS are permits, and the theorem explains the first by a rule of pol_num (the policy held
   before the set_policy) and the second by a rule of pol_mfa (the policy held after it) *)
Example c01_cached_example_hits_are_permits :
  (exists d, nth_error xouts 1 = Some (true, GDecision d) /\ d_allowed d = true) /\
  (exists d, nth_error xouts 4 = Some (true, GDecision d) /\ d_allowed d = true).
Proof. exact x_hits_are_permits. Qed.
Example c01_cached_example_hits_explained :
  (forall d, nth_error xouts 1 = Some (true, GDecision d) -> d_allowed d = true ->
     exists env rule eff,
       build_env false (xr []) None = Some env /\ In rule (all_rules pol_num) /\
       applicable (fun _ => false) rule env /\ rule_effect rule = Some eff /\ eff <> "deny" /\
       d_obligations d = rule_obls rule /\
       (forall ok ch, check "permit" (rule_obls rule) (get_key "context" env) = Ok (ok, ch) -> ok = true)) /\
  (forall d, nth_error xouts 4 = Some (true, GDecision d) -> d_allowed d = true ->
     exists env rule eff,
       build_env false (xr [("mfa", VBool true)]) None = Some env /\ In rule (all_rules pol_mfa) /\
       applicable (fun _ => false) rule env /\ rule_effect rule = Some eff /\ eff <> "deny" /\
       d_obligations d = rule_obls rule /\
       (forall ok ch, check "permit" (rule_obls rule) (get_key "context" env) = Ok (ok, ch) -> ok = true)).
Proof. exact x_hits_explained. Qed.
