(* C06 — Evaluation is total for schema-valid policies and JSON-valued requests.
   Statements only.  schema_valid: hand transcription of the bundled JSON Schema (compared with the
   real jsonschema on every run).  request_ok: context._rebac, when present, is an object or null
   (the property's stated domain).  Termination is structural in the model (no fuel anywhere in
   conditions, rules, sets); Python's recursion limit is outside the model.  Results the model
   cannot predict (GOod: str() of exotic containers, ISO shapes outside the modelled grammar, ...)
   are not exceptions; the harness observes those cases directly on the implementation. *)
From Coq Require Import ZArith List Bool String.
From Rbacx Require Import Value Cond Target Policy PolicySet Compiler Oblig Engine Schema
     PolicyProofs PolicySetProofs ObligProofs EngineProofs SchemaProofs
     Cache CacheKey CacheGuard CacheGuardProofs CacheExplain CacheExplain2.
Import ListNotations.
Local Open Scope string_scope.

(* no exception escapes the evaluation of a schema-valid policy or policy set: both type modes, any
   role-resolver answer, any relationship oracle, any obligation checker *)
Theorem c06_total : forall rel strict kvs req resolved oblig,
  schema_valid (VObj kvs) = true -> request_ok req ->
  forall w, fst (guard_eval unit (relh_pure rel) oblig strict (VObj kvs) req resolved tt) <> GRaise w.
Proof. exact schema_valid_total. Qed.
Print Assumptions c06_total.

(* conditions: a schema-valid condition tree never raises anything but the sanctioned type mismatch *)
Theorem c06_condition_never_raises : forall (S : Type) (relh : rel_query -> S -> bool * S) c env st,
  cond_valid c = true -> env_ok env -> no_raise (fst (eval_cond S relh c env st)).
Proof. exact cond_no_raise. Qed.
Print Assumptions c06_condition_never_raises.

(* ill-typed or out-of-range operands make the affected rule not apply: a rule of a schema-valid
   policy has an outcome (applies / not applicable with a reason), never an exception *)
Theorem c06_rule_outcome_defined : forall (S : Type) (relh : rel_query -> S -> bool * S) rule env st,
  rule_valid rule = true -> env_ok env -> outcome_fine (fst (rule_outcome S relh rule env st)).
Proof. exact rule_outcome_fine. Qed.
Print Assumptions c06_rule_outcome_defined.

(* the environment Guard builds from a JSON-valued request is a well-formed environment *)
Theorem c06_env_well_formed : forall strict req resolved env,
  request_ok req -> build_env strict req resolved = Some env -> env_ok env.
Proof. exact build_env_ok. Qed.
Print Assumptions c06_env_well_formed.

(* the decision is well formed: effect is permit or deny, allowed iff permit ... *)
Theorem c06_decision_well_formed : forall oblig r ctx,
  let d := finish oblig r ctx in
  (d_effect d = "permit" \/ d_effect d = "deny") /\ (d_allowed d = true <-> d_effect d = "permit").
Proof. exact decision_well_formed. Qed.
Print Assumptions c06_decision_well_formed.

(* ... and its reason is one of the documented reasons *)
Theorem c06_reason_documented : forall rel strict kvs req resolved d oblig,
  schema_valid (VObj kvs) = true ->
  guard_eval unit (relh_pure rel) oblig strict (VObj kvs) req resolved tt = (GDecision d, tt) ->
  In (d_reason d) documented_reasons.
Proof. exact reason_documented. Qed.
Print Assumptions c06_reason_documented.

(* schema validity discharges the structural hypothesis of C01 and C11 *)
Theorem c06_schema_valid_tree_ok : forall kvs, schema_valid (VObj kvs) = true -> tree_ok (VObj kvs).
Proof. exact schema_valid_tree_ok. Qed.
Print Assumptions c06_schema_valid_tree_ok.

(* non-vacuity: a schema-valid policy with a huge int, an absurd epoch and a malformed date: the
   repaired findings F4/F5 are type mismatches of the affected rules (the wildcard rule is in a less
   specific tier and is not consulted by the compiled path, C03): deny, no rule reported *)
Definition c06_policy : value :=
  VObj [("algorithm", VStr "first-applicable");
        ("rules", VList [
          VObj [("id", VStr "a"); ("effect", VStr "permit"); ("actions", VList [VStr "read"]);
                ("resource", VObj [("type", VStr "doc")]);
                ("condition", VObj [("<", VList [VObj [("attr", VStr "context.n")]; VNum (NInt 5%Z)])])];
          VObj [("id", VStr "b"); ("effect", VStr "permit"); ("actions", VList [VStr "read"]);
                ("resource", VObj [("type", VStr "doc")]);
                ("condition", VObj [("before", VList [VObj [("attr", VStr "context.t")]; VStr "not a date"])])];
          VObj [("id", VStr "c"); ("effect", VStr "deny"); ("actions", VList [VStr "*"]);
                ("resource", VObj [("type", VStr "*")])]])].
Definition c06_req : value :=
  VObj [("subject", VObj [("id", VNull); ("roles", VList []); ("attrs", VObj [])]); ("action", VStr "read");
        ("resource", VObj [("type", VStr "doc"); ("id", VNull); ("attrs", VObj [])]);
        ("context", VObj [("n", VNum (NInt (10 ^ 400)%Z)); ("t", VNum (NFlt (FFin 1%Z 100%Z) "1.2676506002282294e+30"))])].
Example c06_example :
  schema_valid c06_policy = true /\
  match fst (guard_eval unit (relh_pure (fun _ => false)) builtin_oblig false c06_policy c06_req None tt) with
  | GDecision d => d_effect d = "deny" /\ d_rule_id d = None /\ d_reason d = "condition_type_mismatch"
  | _ => False
  end.
Proof. vm_compute. repeat split. Qed.

(* ------------------------------------------------------------------ *)
(* through the decision cache ("cold and cached"): C08 composed with the theorems above *)
(* ------------------------------------------------------------------ *)
Local Open Scope list_scope.   (* ++ is list append below *)
(* Histories h of HEval w req | HSetPolicy w p | HClear w | HTick dt on one or two guards g1, g2
   (w: false = first, true = second) sharing ONE cache M, as in props/C08.v and props/C01.v;
   run_cached answers, per evaluation in order, (was it a hit, Decision | Raise | Ood).  A SITE of h
   is a decomposition h = pre ++ HEval w req :: post; its answer is answer number [evals_in pre].
   Hypotheses = those of c08_transparent_key_safe (cache meeting the C15 contract, injective tags on
   the history's policies, key-safe requests) + every policy of the history (the guards' initial
   policies and every set_policy argument) is schema-valid + the request is in C06's domain. *)

(* totality: no answer of the cached engines — served from the cache or not — is an exception *)
Theorem c06_total_cached :
  forall (rel : rel_query -> bool) (T : Type) (tag : value -> T) (teqb : T -> T -> bool),
  (forall a b, teqb a b = true <-> a = b) ->
  forall (M : cache_impl T), contract T teqb M ->
  forall (copying : bool) (g1 g2 : gcfg) (h : list hop),
  tag_inj T tag (policies_all g1 g2 h) ->
  (forall e, In e (envs_all g1 g2 h) -> key_safe e = true) ->
  (forall p, In p (policies_all g1 g2 h) -> schema_valid p = true) ->
  forall pre w req post hit o,
  h = pre ++ HEval w req :: post ->
  nth_error (snd (run_cached unit (relh_pure rel) T tag canon builtin_both M copying h (init unit T M g1 g2 tt)))
            (evals_in pre) = Some (hit, o) ->
  request_ok req ->
  forall e, o <> GRaise e.
Proof. exact total_cached. Qed.
Print Assumptions c06_total_cached.

(* every Decision answered — hit or miss — is well formed and carries a documented reason *)
Theorem c06_well_formed_cached :
  forall (rel : rel_query -> bool) (T : Type) (tag : value -> T) (teqb : T -> T -> bool),
  (forall a b, teqb a b = true <-> a = b) ->
  forall (M : cache_impl T), contract T teqb M ->
  forall (copying : bool) (g1 g2 : gcfg) (h : list hop),
  tag_inj T tag (policies_all g1 g2 h) ->
  (forall e, In e (envs_all g1 g2 h) -> key_safe e = true) ->
  (forall p, In p (policies_all g1 g2 h) -> schema_valid p = true) ->
  forall pre w req post hit d,
  h = pre ++ HEval w req :: post ->
  nth_error (snd (run_cached unit (relh_pure rel) T tag canon builtin_both M copying h (init unit T M g1 g2 tt)))
            (evals_in pre) = Some (hit, GDecision d) ->
  (d_effect d = "permit" \/ d_effect d = "deny") /\ (d_allowed d = true <-> d_effect d = "permit") /\
  In (d_reason d) documented_reasons.
Proof. exact well_formed_cached. Qed.
Print Assumptions c06_well_formed_cached.

(* the same over the ANSWER LIST of the cached run: when every request of the history is in the
   domain, every entry is a well-formed Decision with a documented reason or a result outside the
   model's domain (GOod, exactly as in c06_total) — never an exception *)
Theorem c06_every_cached_answer_fine :
  forall (rel : rel_query -> bool) (T : Type) (tag : value -> T) (teqb : T -> T -> bool),
  (forall a b, teqb a b = true <-> a = b) ->
  forall (M : cache_impl T), contract T teqb M ->
  forall (copying : bool) (g1 g2 : gcfg) (h : list hop),
  tag_inj T tag (policies_all g1 g2 h) ->
  (forall e, In e (envs_all g1 g2 h) -> key_safe e = true) ->
  (forall p, In p (policies_all g1 g2 h) -> schema_valid p = true) ->
  forall i hit o,
  (forall w req, In (HEval w req) h -> request_ok req) ->
  nth_error (snd (run_cached unit (relh_pure rel) T tag canon builtin_both M copying h (init unit T M g1 g2 tt))) i
    = Some (hit, o) ->
  match o with
  | GDecision d =>
      (d_effect d = "permit" \/ d_effect d = "deny") /\ (d_allowed d = true <-> d_effect d = "permit") /\
      In (d_reason d) documented_reasons
  | GRaise _ => False
  | GOod => True
  end.
Proof. exact every_cached_answer_fine. Qed.
Print Assumptions c06_every_cached_answer_fine.

(* schema validity of the history's policies discharges the structural hypothesis (tree_ok of every
   policy of the history) of the cached C01 / C11 theorems *)
Theorem c06_schema_valid_history_tree_ok : forall (g1 g2 : gcfg) (h : list hop),
  (forall p, In p (policies_all g1 g2 h) -> schema_valid p = true) ->
  forall p, In p (policies_all g1 g2 h) -> tree_ok p.
Proof. exact history_tree_ok. Qed.
Print Assumptions c06_schema_valid_history_tree_ok.

(* non-vacuity (history xh of theories/CacheExplain.v on DefaultInMemoryCache(4): miss, HIT, set_policy,
   refused miss, miss, HIT — answers in c01_cached_example_answers): the hypotheses hold of it ... *)
Example c06_cached_example_hypotheses :
  tag_inj value canon (policies_all xg xg xh) /\
  (forall e, In e (envs_all xg xg xh) -> key_safe e = true) /\
  (forall p, In p (policies_all xg xg xh) -> schema_valid p = true) /\
  (forall w req, In (HEval w req) xh -> request_ok req).
Proof.
  destruct x_hypotheses_hold as (Htag & Hsafe & _).
  exact (conj Htag (conj Hsafe (conj x_policies_schema_valid x_requests_in_domain))).
Qed.
(* ... and so every one of its answers, the two hits included, is a well-formed Decision *)
Example c06_cached_example_every_answer_fine : forall i hit o, nth_error xouts i = Some (hit, o) ->
  match o with
  | GDecision d =>
      (d_effect d = "permit" \/ d_effect d = "deny") /\ (d_allowed d = true <-> d_effect d = "permit") /\
      In (d_reason d) documented_reasons
  | GRaise _ => False
  | GOod => True
  end.
Proof. exact x_every_answer_fine. Qed.
