(* C06 — Evaluation is total for schema-valid policies and JSON-valued requests.
   Statements only.  schema_valid: hand transcription of the bundled JSON Schema (compared with the
   real jsonschema on every run).  request_ok: context._rebac, when present, is an object or null
   (the property's stated domain).  Termination is structural in the model (no fuel anywhere in
   conditions, rules, sets); Python's recursion limit is outside the model.  Results the model
   cannot predict (GOod: str() of exotic containers, ISO shapes outside the modelled grammar, ...)
   are not exceptions; the harness observes those cases directly on the implementation. *)
From Coq Require Import ZArith List Bool String.
From Rbacx Require Import Value Cond Target Policy PolicySet Compiler Oblig Engine Schema
     PolicyProofs PolicySetProofs ObligProofs EngineProofs SchemaProofs.
Import ListNotations.
Local Open Scope string_scope.

(* no exception escapes the evaluation of a schema-valid policy or policy set: both type modes, any
   role-resolver answer, any relationship oracle, any obligation checker *)
Theorem c06_total : forall rel strict kvs req resolved oblig,
  schema_valid (VObj kvs) = true -> request_ok req ->
  forall w, fst (guard_eval unit (relh_pure rel) oblig strict (VObj kvs) req resolved tt) <> GRaise w.
Proof. exact schema_valid_total. Qed.
Print Assumptions c06_total.

(* conditions: a schema-valid condition tree never raises anything but the sanctioned type mismatch *)
Theorem c06_condition_never_raises : forall (S : Type) (relh : rel_query -> S -> bool * S) c env st,
  cond_valid c = true -> env_ok env -> no_raise (fst (eval_cond S relh c env st)).
Proof. exact cond_no_raise. Qed.
Print Assumptions c06_condition_never_raises.

(* ill-typed or out-of-range operands make the affected rule not apply: a rule of a schema-valid
   policy has an outcome (applies / not applicable with a reason), never an exception *)
Theorem c06_rule_outcome_defined : forall (S : Type) (relh : rel_query -> S -> bool * S) rule env st,
  rule_valid rule = true -> env_ok env -> outcome_fine (fst (rule_outcome S relh rule env st)).
Proof. exact rule_outcome_fine. Qed.
Print Assumptions c06_rule_outcome_defined.

(* the environment Guard builds from a JSON-valued request is a well-formed environment *)
Theorem c06_env_well_formed : forall strict req resolved env,
  request_ok req -> build_env strict req resolved = Some env -> env_ok env.
Proof. exact build_env_ok. Qed.
Print Assumptions c06_env_well_formed.

(* the decision is well formed: effect is permit or deny, allowed iff permit ... *)
Theorem c06_decision_well_formed : forall oblig r ctx,
  let d := finish oblig r ctx in
  (d_effect d = "permit" \/ d_effect d = "deny") /\ (d_allowed d = true <-> d_effect d = "permit").
Proof. exact decision_well_formed. Qed.
Print Assumptions c06_decision_well_formed.

(* ... and its reason is one of the documented reasons *)
Theorem c06_reason_documented : forall rel strict kvs req resolved d oblig,
  schema_valid (VObj kvs) = true ->
  guard_eval unit (relh_pure rel) oblig strict (VObj kvs) req resolved tt = (GDecision d, tt) ->
  In (d_reason d) documented_reasons.
Proof. exact reason_documented. Qed.
Print Assumptions c06_reason_documented.

(* schema validity discharges the structural hypothesis of C01 and C11 *)
Theorem c06_schema_valid_tree_ok : forall kvs, schema_valid (VObj kvs) = true -> tree_ok (VObj kvs).
Proof. exact schema_valid_tree_ok. Qed.
Print Assumptions c06_schema_valid_tree_ok.

(* non-vacuity: a schema-valid policy with a huge int, an absurd epoch and a malformed date: the
   repaired findings F4/F5 are type mismatches of the affected rules (the wildcard rule is in a less
   specific tier and is not consulted by the compiled path, C03): deny, no rule reported *)
Definition c06_policy : value :=
  VObj [("algorithm", VStr "first-applicable");
        ("rules", VList [
          VObj [("id", VStr "a"); ("effect", VStr "permit"); ("actions", VList [VStr "read"]);
                ("resource", VObj [("type", VStr "doc")]);
                ("condition", VObj [("<", VList [VObj [("attr", VStr "context.n")]; VNum (NInt 5%Z)])])];
          VObj [("id", VStr "b"); ("effect", VStr "permit"); ("actions", VList [VStr "read"]);
                ("resource", VObj [("type", VStr "doc")]);
                ("condition", VObj [("before", VList [VObj [("attr", VStr "context.t")]; VStr "not a date"])])];
          VObj [("id", VStr "c"); ("effect", VStr "deny"); ("actions", VList [VStr "*"]);
                ("resource", VObj [("type", VStr "*")])]])].
Definition c06_req : value :=
  VObj [("subject", VObj [("id", VNull); ("roles", VList []); ("attrs", VObj [])]); ("action", VStr "read");
        ("resource", VObj [("type", VStr "doc"); ("id", VNull); ("attrs", VObj [])]);
        ("context", VObj [("n", VNum (NInt (10 ^ 400)%Z)); ("t", VNum (NFlt (FFin 1%Z 100%Z) "1.2676506002282294e+30"))])].
Example c06_example :
  schema_valid c06_policy = true /\
  match fst (guard_eval unit (relh_pure (fun _ => false)) builtin_oblig false c06_policy c06_req None tt) with
  | GDecision d => d_effect d = "deny" /\ d_rule_id d = None /\ d_reason d = "condition_type_mismatch"
  | _ => False
  end.
Proof. vm_compute. repeat split. Qed.
