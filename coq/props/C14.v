(* C14 — Context independence: sync = async, no cross-talk, mutation or deadlock.
   Statements only.

   Part (b), the blocking entry points of HotReloader and Guard.evaluate_sync as
   lock/thread programs (Conc.v, transcribed by hand from loader.py / engine.py;
   the tie to the source is the per-configuration watchdog run and the source
   skeleton comparison of harness/c14.py).  threading / asyncio / executor
   semantics are assumed, not proved (PARTIAL).

   Part (a), equality of the API flavours, absence of cross-talk and of mutation,
   is a statement about the implementation; in the model every flavour is the one
   core function, so the theorems below are immediate and the content is in the
   correspondence run. *)
From Coq Require Import List Bool Arith.
From Rbacx Require Import Conc ConcProofs.
Import ListNotations.

(* For the programs of the code as it is now, in every configuration of the finite family
   [current_configs] (Conc.v section 6: caller in a plain thread or under a running event loop;
   check(force) | evaluate | stop(finite | None) | start(initial_load, force_initial), alone, in
   sequence start; [check;] stop, next to a second caller, or racing a second start; hence with
   the polling thread not started / about to take the lock / holding it / mid-check / sleeping /
   finished when stop() arrives; at most 4 threads alive), on every schedule:
     - no reachable state is deadlocked (something still has to return and no thread can move);
     - no finished thread still owns a lock;
     - from every reachable state, every run that does not start yet another polling round or
       sleep slice can always move on and reaches, after finitely many steps, a state in which
       every entry point that was called has returned ([finishes]). *)
Theorem c14_start_stop_deadlock_free :
  forall c, In c current_configs ->
  forall s, reach (progs c) (init c) s ->
    ~ deadlocked (progs c) s /\ lock_clean (progs c) s /\ finishes (progs c) s.
Proof. exact current_deadlock_free. Qed.
Print Assumptions c14_start_stop_deadlock_free.

(* the method behind it, for any programs: an exhaustive exploration that passes [verify]
   speaks for every reachable state *)
Theorem c14_exploration_sound :
  forall ps s0, verify ps s0 = true ->
  forall s, reach ps s0 s -> ~ deadlocked ps s /\ lock_clean ps s /\ finishes ps s.
Proof. exact verify_sound. Qed.
Print Assumptions c14_exploration_sound.

(* F10 (before 5e46fc4): start(initial_load=True) called with an event loop running in the
   calling thread reaches a deadlocked state ... *)
Theorem c14_refuted_start_in_loop :
  exists s, reach (progs cfg_F10) (init cfg_F10) s /\ deadlocked (progs cfg_F10) s.
Proof. exact refuted_F10_deadlock. Qed.
Print Assumptions c14_refuted_start_in_loop.

(* ... and returns on no schedule whatsoever *)
Theorem c14_refuted_start_in_loop_never_returns :
  forall s, reach (progs cfg_F10) (init cfg_F10) s -> ~ goal (progs cfg_F10) s.
Proof. exact refuted_F10_never_returns. Qed.
Print Assumptions c14_refuted_start_in_loop_never_returns.

(* F11 (before f66b210): stop(timeout=None) with the polling thread inside a check — about to
   take the lock, or mid-check between its two lock sections — reaches a deadlocked state *)
Theorem c14_refuted_stop_none_midcheck :
  exists s, reach (progs cfg_F11) (init cfg_F11) s /\ deadlocked (progs cfg_F11) s.
Proof. exact refuted_F11_deadlock. Qed.
Print Assumptions c14_refuted_stop_none_midcheck.

Theorem c14_refuted_stop_none_midcheck_in_load :
  exists s, reach (progs cfg_F11) (init cfg_F11) s /\ deadlocked (progs cfg_F11) s
            /\ pc_of s tP = 18 /\ nth_error (nth tP (progs cfg_F11) []) 17 = Some Work.
Proof. exact refuted_F11_midcheck_deadlock. Qed.
Print Assumptions c14_refuted_stop_none_midcheck_in_load.

(* why the suite never saw either: the pre-fix programs are deadlock-free from a plain thread /
   with the default finite join timeout *)
Theorem c14_prefix_plain_timed_deadlock_free :
  forall c, In c prefix_ok_configs ->
  forall s, reach (progs c) (init c) s -> ~ deadlocked (progs c) s.
Proof. exact prefix_plain_timed_deadlock_free. Qed.
Print Assumptions c14_prefix_plain_timed_deadlock_free.

(* Part (a) in the model: an evaluation is a function of (policy, request, collaborators); every
   API flavour is that function, and a gather of evaluations is the list of the sequential
   results.  Trivial in Coq — the content is the correspondence run on the implementation. *)
Theorem c14_pure :
  forall (policy request collab decision : Type) (core : policy -> request -> collab -> decision)
         (f1 f2 : flavour) p r c,
    evaluate policy request collab decision core f1 p r c
    = evaluate policy request collab decision core f2 p r c.
Proof. exact evaluate_flavours_agree. Qed.
Print Assumptions c14_pure.

Theorem c14_gather_sequential :
  forall (policy request collab decision : Type) (core : policy -> request -> collab -> decision)
         p c rs i r,
    nth_error rs i = Some r ->
    nth_error (gather policy request collab decision core p c rs) i = Some (core p r c).
Proof. exact gather_is_sequential. Qed.
Print Assumptions c14_gather_sequential.

(* ---------- non-vacuity ---------- *)

(* the family is not empty and contains the configurations of the two findings, repaired *)
Example c14_family_size : List.length current_configs = 196.
Proof. vm_compute. reflexivity. Qed.
Example c14_family_has_F10_config :
  In (mkConfig Cur Cur InLoop [CStart true false] Plain []) current_configs.
Proof. apply (nth_error_In _ 28). vm_compute. reflexivity. Qed.
Example c14_family_has_F11_config :
  In (mkConfig Cur Cur Plain [CStart false false; CStop false] Plain []) current_configs.
Proof. apply (nth_error_In _ 8). vm_compute. reflexivity. Qed.
Example c14_family_has_inloop_start_stop_none :
  In (mkConfig Cur Cur InLoop [CStart true true; CStop false] Plain [CCheck false]) current_configs.
Proof. apply (nth_error_In _ 174). vm_compute. reflexivity. Qed.

(* reachability is not trivial: in the repaired F11 configuration the schedule of the finding
   (polling thread in source.load(), caller in stop(None) waiting in join) is reachable, the
   polling thread can move, and the state is not the goal *)
Example c14_midcheck_state_reachable :
  let c := mkConfig Cur Cur Plain [CStart false false; CStop false] Plain [] in
  exists s, reach (progs c) (init c) s
            /\ goalb (progs c) s = false
            /\ flag s STOP = true
            /\ nth_error (nth tM (progs c) []) (pc_of s tM) = Some (Join tP false)
            /\ nth_error (nth tP (progs c) []) (pc_of s tP) = Some (Acquire RL)
            /\ can_step (progs c) s (tP, false) = true.
Proof.
  intros c.
  destruct (run_trace (progs c) (init c)
              ([(0, false); (0, false); (0, false); (0, false); (0, false); (0, false); (0, false);
                (0, false); (0, false); (0, false); (0, false);
                (2, false); (2, false); (2, true); (2, false); (2, true); (2, false); (2, true); (2, true);
                (0, false); (0, false); (0, false); (0, false);
                (2, false)])) as [s|] eqn:E; [|vm_compute in E; discriminate].
  exists s. split; [eapply run_trace_reach; eauto|].
  vm_compute in E. inversion E; subst. vm_compute. repeat split; reflexivity.
Qed.

(* size of one of the larger state spaces of the family *)
Example c14_states_example :
  match reachable_set (progs (mkConfig Cur Cur InLoop [CStart true true; CStop false] Plain [CCheck false]))
                      (init (mkConfig Cur Cur InLoop [CStart true true; CStop false] Plain [CCheck false])) with
  | Some m => FMapPositive.PositiveMap.cardinal m
  | None => 0
  end = 5328.
Proof. vm_compute. reflexivity. Qed.
