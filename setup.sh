#!/bin/sh
# Offline setup: private python deps, full Coq build (.vo), extraction, OCaml runner.
set -e
cd "$(dirname "$0")"
if [ ! -d .pydeps/jsonschema ]; then
  /venv/bin/pip install --quiet --no-index --find-links /opt/veriftools/wheels --target .pydeps jsonschema >/dev/null 2>&1 || \
    echo "warning: jsonschema could not be installed into .pydeps (C06/C17 will report it)"
fi
mkdir -p ocaml/gen evidence replays
cd coq
coq_makefile -f _CoqProject -o Makefile >/dev/null 2>&1
timeout 3000 make -j16 2>&1 | grep -v "^Closed under\|^COQ\|conda" || true
cd ..
sh ocaml/build.sh
ls ocaml/modelrun_* >/dev/null
echo "setup done"
