#!/usr/bin/env python3
"""Prints (markdown) the 'as built' tables of DESIGN.md section 11 from what is in the tree:
theorems per property file, Print Assumptions and coverage from the evidence files, the
seeded-change campaign from seeded/*/meta.json.  Development aid: paste its output into DESIGN.md."""
import glob
import json
import os
import re

V = os.path.dirname(os.path.dirname(os.path.abspath(__file__)))


def strip_comments(src):
    out, depth, i = [], 0, 0
    while i < len(src):
        if src.startswith("(*", i):
            depth += 1
            i += 2
        elif src.startswith("*)", i) and depth:
            depth -= 1
            i += 2
        else:
            if not depth:
                out.append(src[i])
            i += 1
    return "".join(out)


def main():
    man = json.load(open(os.path.join(V, "MANIFEST.json")))
    claimed = [c["property_id"] for c in man["checks"]]
    print("| property | model files (coq/theories) | theorems in coq/props | closed | quick: cases / distinct non-trivial / wall | runner |")
    print("|---|---|---|---|---|---|")
    for p in claimed:
        f = os.path.join(V, "coq", "props", p + ".v")
        src = strip_comments(open(f).read())
        thms = re.findall(r"^\s*(?:Theorem|Lemma|Corollary)\s+([A-Za-z0-9_']+)", src, re.M)
        imports = re.findall(r"From Rbacx Require Import ([^.]+)\.", src)
        mods = sorted({m for line in imports for m in line.split()})
        ev = {}
        try:
            ev = json.load(open(os.path.join(V, "evidence", p + ".json")))
        except Exception:
            pass
        cov = ev.get("coverage", {})
        pa = cov.get("print_assumptions", {})
        closed = sum(1 for v in pa.values() if v.startswith("Closed"))
        xs = cov.get("extraction_crosscheck_vm_compute") or {}
        print(f"| {p} | {', '.join(mods)} | {len(thms)} | {closed}/{len(pa)} | {cov.get('evaluations')} / "
              f"{cov.get('distinct_nontrivial')} / {ev.get('wall_s')} s | {', '.join(xs) or '-'} |")
    print()
    print("| seeded change | breaks | what it needs | first trial | now reported by | as |")
    print("|---|---|---|---|---|---|")
    idx = {}
    try:
        idx = json.load(open(os.path.join(V, "seeded", "INDEX.json")))
    except Exception:
        pass
    for d in sorted(glob.glob(os.path.join(V, "seeded", "*", "meta.json"))):
        sid = os.path.basename(os.path.dirname(d))
        m = json.load(open(d))
        t = m.get("trial", {})
        first = idx.get(sid, {}).get("first_trial", "caught")
        how = []
        for p, c in (t.get("checks") or {}).items():
            if c.get("violations"):
                how.append("violation with failing input" if not c.get("no_failing_input") else "broken correspondence (no-failing-input-found)")
        if m.get("obsolete_after_fix"):
            print(f"| {sid} | {str(m.get('summary',''))[:110].replace('|','/')} | {str(m.get('needs_to_manifest',''))[:90].replace('|','/')} | "
                  f"{first} | (obsolete after fix {m['obsolete_after_fix'].get('commit')}: {str(m['obsolete_after_fix'].get('why',''))[:120].replace('|','/')}) | |")
            continue
        print(f"| {sid} | {str(m.get('summary',''))[:110].replace('|','/')} | {str(m.get('needs_to_manifest',''))[:90].replace('|','/')} | "
              f"{first} | {', '.join(t.get('caught_by') or []) or 'NOT CAUGHT'} | {'; '.join(how)} |")


if __name__ == "__main__":
    main()
