#!/bin/sh
# usage: tools/goal.sh <file.v> <line> [tail-lines]  — show the proof state after the first <line> lines
cd /verif/coq
head -n "$2" "$1" > /tmp/goal_$$.v
echo "Show." >> /tmp/goal_$$.v
timeout 120 coqtop -Q theories Rbacx -Q props RbacxProps < /tmp/goal_$$.v 2>&1 | tail -n "${3:-40}"
rm -f /tmp/goal_$$.v
