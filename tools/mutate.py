#!/usr/bin/env python3
"""First-order mutants of the anchored source files (development aid for measuring what the checks catch).

    tools/mutate.py list                      -> prints the number of mutation sites per file
    tools/mutate.py make <file> <k> <outdir>  -> writes the k-th mutant of <file> (path relative to /repo) as a patch
Operators: comparison swaps, and/or swap, `not` removal, True/False flip, small-int +-1, break/continue swap,
condition negation, `a or b` -> `a`, deletion of an expression statement / assignment (-> pass), `return x` -> `return None`."""
import ast
import copy
import os
import subprocess
import sys

REPO = os.environ.get("MUT_REPO", "/repo")
FILES = {
    "src/rbacx/core/engine.py": ["C01", "C11", "C08", "C09", "C14", "C18"],
    "src/rbacx/core/policy.py": ["C04", "C05", "C02", "C13", "C06", "C01"],
    "src/rbacx/core/policyset.py": ["C02", "C11", "C17"],
    "src/rbacx/core/compiler.py": ["C03", "C05", "C17", "C01"],
    "src/rbacx/core/obligations.py": ["C07", "C01"],
    "src/rbacx/core/cache.py": ["C15", "C08"],
    "src/rbacx/core/roles.py": ["C18"],
    "src/rbacx/core/helpers.py": ["C14", "C13", "C07"],
    "src/rbacx/policy/loader.py": ["C10", "C14"],
    "src/rbacx/store/file_store.py": ["C16", "C10"],
    "src/rbacx/store/http_store.py": ["C10", "C17"],
    "src/rbacx/store/s3_store.py": ["C10", "C17"],
    "src/rbacx/store/policy_loader.py": ["C17", "C16"],
    "src/rbacx/rebac/local.py": ["C12"],
    "src/rbacx/logging/decision_logger.py": ["C19"],
    "src/rbacx/obligations/enforcer.py": ["C19"],
    "src/rbacx/adapters/asgi.py": ["C20"],
    "src/rbacx/dsl/validate.py": ["C17", "C06"],
    "src/rbacx/dsl/lint.py": ["C17"],
    "src/rbacx/cli.py": ["C17"],
}
CMP = {ast.Eq: ast.NotEq, ast.NotEq: ast.Eq, ast.Lt: ast.LtE, ast.LtE: ast.Lt, ast.Gt: ast.GtE, ast.GtE: ast.Gt,
       ast.Is: ast.IsNot, ast.IsNot: ast.Is, ast.In: ast.NotIn, ast.NotIn: ast.In}


def sites(tree):
    """list of (description, mutator(tree_copy_node)) keyed by node index in ast.walk order"""
    out = []
    nodes = list(ast.walk(tree))
    # not interesting: module-level assignments (logger, __all__, aliases), logging calls, decorator arguments
    skip = set()
    for n in tree.body:
        if isinstance(n, (ast.Assign, ast.AugAssign, ast.AnnAssign)):
            skip.update(id(x) for x in ast.walk(n))
    for n in nodes:
        if isinstance(n, (ast.FunctionDef, ast.AsyncFunctionDef, ast.ClassDef)):
            for d in n.decorator_list:
                skip.update(id(x) for x in ast.walk(d))
        if isinstance(n, ast.Expr) and isinstance(n.value, ast.Call) and isinstance(n.value.func, ast.Attribute) \
                and isinstance(n.value.func.value, ast.Name) and n.value.func.value.id in ("logger", "logging", "log"):
            skip.update(id(x) for x in ast.walk(n))
    for i, n in enumerate(nodes):
        if id(n) in skip:
            continue
        if isinstance(n, ast.Compare):
            for j, op in enumerate(n.ops):
                if type(op) in CMP:
                    out.append((i, "cmp%d:%s->%s" % (j, type(op).__name__, CMP[type(op)].__name__), ("cmp", j)))
        elif isinstance(n, ast.BoolOp):
            out.append((i, "boolop:%s" % type(n.op).__name__, ("boolop",)))
            if isinstance(n.op, ast.Or) and len(n.values) >= 2:
                out.append((i, "or->first", ("orfirst",)))
        elif isinstance(n, ast.UnaryOp) and isinstance(n.op, ast.Not):
            out.append((i, "not-removed", ("notrm",)))
        elif isinstance(n, ast.Constant) and isinstance(n.value, bool):
            out.append((i, "bool-flip:%s" % n.value, ("boolflip",)))
        elif isinstance(n, ast.Constant) and isinstance(n.value, int) and not isinstance(n.value, bool) and abs(n.value) <= 1000:
            out.append((i, "int+1:%s" % n.value, ("int", 1)))
            if n.value != 0:
                out.append((i, "int-1:%s" % n.value, ("int", -1)))
        elif isinstance(n, ast.Break):
            out.append((i, "break->continue", ("brk",)))
        elif isinstance(n, ast.Continue):
            out.append((i, "continue->break", ("cont",)))
        elif isinstance(n, (ast.If, ast.While)):
            out.append((i, "negate-cond", ("neg",)))
        elif isinstance(n, ast.Return) and n.value is not None and not (isinstance(n.value, ast.Constant) and n.value.value is None):
            out.append((i, "return-none", ("retnone",)))
        elif isinstance(n, ast.Expr) and isinstance(n.value, ast.Call):
            out.append((i, "del-call", ("del",)))
        elif isinstance(n, (ast.Assign, ast.AugAssign)):
            out.append((i, "del-assign", ("del",)))
    return out


def apply(tree, idx, how):
    nodes = list(ast.walk(tree))
    n = nodes[idx]
    k = how[0]
    if k == "cmp":
        n.ops[how[1]] = CMP[type(n.ops[how[1]])]()
    elif k == "boolop":
        n.op = ast.Or() if isinstance(n.op, ast.And) else ast.And()
    elif k == "orfirst":
        n.values = [n.values[0], n.values[0]]
    elif k == "boolflip":
        n.value = not n.value
    elif k == "int":
        n.value = n.value + how[1]
    elif k == "neg":
        n.test = ast.UnaryOp(op=ast.Not(), operand=n.test)
    elif k in ("notrm", "brk", "cont", "retnone", "del"):
        # these replace the node inside its parent
        for p in nodes:
            for f, v in ast.iter_fields(p):
                if isinstance(v, list):
                    for j, x in enumerate(v):
                        if x is n:
                            if k == "brk":
                                v[j] = ast.copy_location(ast.Continue(), n)
                            elif k == "cont":
                                v[j] = ast.copy_location(ast.Break(), n)
                            elif k == "del":
                                v[j] = ast.copy_location(ast.Pass(), n)
                            elif k == "retnone":
                                v[j] = ast.copy_location(ast.Return(value=ast.Constant(value=None)), n)
                            elif k == "notrm":
                                v[j] = n.operand
                            return tree
                elif v is n:
                    if k == "notrm":
                        setattr(p, f, n.operand)
                        return tree
    return tree


def main():
    a = sys.argv[1:]
    if a[0] == "list":
        tot = 0
        for f in FILES:
            t = ast.parse(open(os.path.join(REPO, f)).read())
            s = sites(t)
            tot += len(s)
            print(len(s), f)
        print(tot, "total")
        return
    if a[0] == "make":
        f, k, outdir = a[1], int(a[2]), a[3]
        src = open(os.path.join(REPO, f)).read()
        t = ast.parse(src)
        s = sites(t)
        idx, desc, how = s[k]
        line = list(ast.walk(t))[idx].lineno if hasattr(list(ast.walk(t))[idx], "lineno") else 0
        t2 = apply(copy.deepcopy(t), idx, how)
        ast.fix_missing_locations(t2)
        new = ast.unparse(t2) + "\n"
        os.makedirs(outdir, exist_ok=True)
        open(os.path.join(outdir, "mutated.py"), "w").write(new)
        base = ast.unparse(t) + "\n"          # unparse of the original: so that the patch shows the mutation only
        open(os.path.join(outdir, "base.py"), "w").write(base)
        open(os.path.join(outdir, "info.txt"), "w").write("%s #%d line %d %s\n" % (f, k, line, desc))
        print(f, k, line, desc)


if __name__ == "__main__":
    main()
