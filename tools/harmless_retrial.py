#!/usr/bin/env python3
"""Runs every quick check against each kept behaviour-preserving refactoring (seeded/harmless-<n>/patch.diff applied to
a scratch worktree of /repo): no check may print a VIOLATION line (KNOWN-FINDING lines are expected).  Development aid.
Usage: harmless_retrial.py [lanes] [harmless-id ...]"""
import json
import os
import subprocess
import sys
from concurrent.futures import ThreadPoolExecutor

V = os.path.dirname(os.path.dirname(os.path.abspath(__file__)))
PROPS = ["C%02d" % i for i in range(1, 21)]


def one(wt, p):
    e = dict(os.environ, VERIF_REPO=wt)
    r = subprocess.run(["./check", p, "quick"], cwd=V, env=e, capture_output=True, text=True, timeout=7200)
    out = r.stdout + r.stderr
    viol = [l for l in out.split("\n") if l.startswith("VIOLATION")]
    first = ""
    if viol:
        import re
        m = re.search(r"replay=(\S+)", viol[0])
        if m and os.path.exists(m.group(1)):
            try:
                d = json.load(open(m.group(1)))
                first = (d.get("clause") or d.get("kind") or "")[:300]
            except Exception:
                pass
    return p, {"rc": r.returncode, "violations": len(viol), "first": first,
               "tail": [l for l in out.strip().split("\n") if l.strip()][-1][:200]}


def main():
    a = sys.argv[1:]
    lanes = int(a[0]) if a and a[0].isdigit() else 4
    ids = [x for x in a if not x.isdigit()] or sorted(x for x in os.listdir(os.path.join(V, "seeded")) if x.startswith("harmless-"))
    bad = []
    for hid in ids:
        wt = "/tmp/harmless-" + hid
        subprocess.run(["git", "-C", "/repo", "worktree", "remove", "--force", wt], capture_output=True)
        subprocess.run(["git", "-C", "/repo", "worktree", "add", "-q", "--detach", wt, "HEAD"], check=True, capture_output=True)
        try:
            r = subprocess.run(["git", "-C", wt, "apply", os.path.join(V, "seeded", hid, "patch.diff")], capture_output=True, text=True)
            if r.returncode != 0:
                print(hid, "patch does not apply:", r.stderr[-300:])
                bad.append((hid, "apply"))
                continue
            with ThreadPoolExecutor(lanes) as ex:
                res = dict(ex.map(lambda p: one(wt, p), PROPS))
            mp = os.path.join(V, "seeded", hid, "meta.json")
            meta = json.load(open(mp))
            meta["retrial"] = {"all_quick_checks": res, "silent": all(v["violations"] == 0 and v["rc"] == 0 for v in res.values())}
            json.dump(meta, open(mp, "w"), indent=1)
            for p, v in res.items():
                if v["violations"] or v["rc"]:
                    bad.append((hid, p, v["first"] or v["tail"]))
            print(hid, "silent" if meta["retrial"]["silent"] else "ALARMS", flush=True)
        finally:
            subprocess.run(["git", "-C", "/repo", "worktree", "remove", "--force", wt], capture_output=True)
    print("alarms on harmless refactorings:", bad)


if __name__ == "__main__":
    main()
