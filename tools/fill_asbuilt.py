#!/usr/bin/env python3
"""Rewrites the generated tables of DESIGN.md section 11 in place: the text between
<!-- ASBUILT-TABLE-n --> and <!-- /ASBUILT-TABLE-n --> (n = 1: per-property as-built table, n = 2: the seeded-change
table) is replaced by the current output of tools/gen_asbuilt.py.  Development aid."""
import os
import re
import subprocess
import sys

V = os.path.dirname(os.path.dirname(os.path.abspath(__file__)))
out = subprocess.run([sys.executable, os.path.join(V, "tools", "gen_asbuilt.py")], capture_output=True, text=True, check=True).stdout
t1, t2 = out.split("\n\n", 1)
p = os.path.join(V, "DESIGN.md")
s = open(p).read()
for n, t in ((1, t1), (2, t2)):
    a, b = f"<!-- ASBUILT-TABLE-{n} -->", f"<!-- /ASBUILT-TABLE-{n} -->"
    if b in s:
        s = re.sub(re.escape(a) + r".*?" + re.escape(b), lambda m: a + "\n" + t.strip() + "\n" + b, s, flags=re.S)
    else:
        s = s.replace(a, a + "\n" + t.strip() + "\n" + b)
open(p, "w").write(s)
print("tables written")
