#!/usr/bin/env python3
"""Runs a stratified sample of first-order mutants (tools/mutate.py) against the unedited suite and, for the
suite's survivors, against the quick checks of the properties anchored in the mutated file (VERIF_REPO=<scratch
worktree>).  Development aid.  Usage: mutrun.py <lanes> <per_file> <seed> <out.jsonl>"""
import json
import os
import random
import subprocess
import sys
from concurrent.futures import ThreadPoolExecutor

V = os.path.dirname(os.path.dirname(os.path.abspath(__file__)))
sys.path.insert(0, os.path.join(V, "tools"))
import mutate  # noqa: E402
import ast  # noqa: E402
import copy  # noqa: E402
import threading  # noqa: E402

LOCK = threading.Lock()


def sh(cmd, cwd=None, env=None, timeout=1800):
    e = dict(os.environ)
    e.update(env or {})
    try:
        r = subprocess.run(cmd, shell=True, cwd=cwd, env=e, capture_output=True, text=True, timeout=timeout)
        return r.returncode, r.stdout + r.stderr
    except subprocess.TimeoutExpired:
        return 124, "timeout"


def lane(args):
    ln, jobs, outp = args
    wt = f"/tmp/mutwt{ln}"
    subprocess.run(["git", "-C", "/repo", "worktree", "remove", "--force", wt], capture_output=True)
    subprocess.run(["git", "-C", "/repo", "worktree", "add", "-q", "--detach", wt, "HEAD"], check=True, capture_output=True)
    pyenv = {"PYTHONPATH": wt + "/src", "PYTHONHASHSEED": "0", "PYTHONDONTWRITEBYTECODE": "1"}
    try:
        for f, k in jobs:
            src = open(os.path.join("/repo", f)).read()
            t = ast.parse(src)
            s = mutate.sites(t)
            idx, desc, how = s[k]
            node = list(ast.walk(t))[idx]
            rec = {"file": f, "k": k, "line": getattr(node, "lineno", 0), "op": desc,
                   "source_line": src.split("\n")[getattr(node, "lineno", 1) - 1].strip()[:160]}
            try:
                t2 = mutate.apply(copy.deepcopy(t), idx, how)
                ast.fix_missing_locations(t2)
                new = ast.unparse(t2) + "\n"
                if new == ast.unparse(t) + "\n":
                    rec["status"] = "no-op"
                    raise StopIteration
                open(os.path.join(wt, f), "w").write(new)
                rc, out = sh("/venv/bin/python -m pytest -q -x -p no:cacheprovider --timeout=120", cwd=wt, env=pyenv, timeout=900)
                if rc != 0:
                    rec["status"] = "killed-by-suite"
                    raise StopIteration
                rec["status"] = "SURVIVED"
                rec["checks"] = {}
                for p in mutate.FILES[f]:
                    rc, out = sh(f"./check {p} quick", cwd=V, env={"VERIF_REPO": wt}, timeout=3000)
                    viol = [l for l in out.split("\n") if l.startswith("VIOLATION")]
                    rec["checks"][p] = {"rc": rc, "violations": len(viol),
                                        "genuine": any("no-failing-input-found" not in v for v in viol)}
                    if viol:
                        rec["status"] = "caught"
                        rec["caught_by"] = p
                        break
            except StopIteration:
                pass
            except Exception as e:  # noqa: BLE001
                rec["status"] = "error:" + repr(e)[:200]
            finally:
                sh("git checkout -- .", cwd=wt)
            with LOCK:
                with open(outp, "a") as fo:
                    fo.write(json.dumps(rec) + "\n")
            print(rec["status"], f, k, rec["op"], rec.get("caught_by", ""), flush=True)
    finally:
        subprocess.run(["git", "-C", "/repo", "worktree", "remove", "--force", wt], capture_output=True)


def main():
    lanes, per_file, seed, outp = int(sys.argv[1]), int(sys.argv[2]), int(sys.argv[3]), sys.argv[4]
    rng = random.Random(seed)
    jobs = []
    for f in mutate.FILES:
        n = len(mutate.sites(ast.parse(open(os.path.join("/repo", f)).read())))
        cap = per_file if not f.endswith(("lint.py", "cli.py")) else max(3, per_file // 3)
        for k in sorted(rng.sample(range(n), min(n, cap))):
            jobs.append((f, k))
    rng.shuffle(jobs)
    print(len(jobs), "mutants")
    parts = [(i, jobs[i::lanes], outp) for i in range(lanes)]
    with ThreadPoolExecutor(lanes) as ex:
        list(ex.map(lane, parts))


if __name__ == "__main__":
    main()
