#!/bin/sh
# runs every thorough check (3 lanes); prints one summary line per property.  Development aid.
cd "$(dirname "$0")/.."
lane() { for p in "$@"; do ./check $p thorough 2>&1 | grep -v conda | grep "VIOLATION\|thorough:" ; done; }
lane C01 C04 C07 C10 C13 C16 C19 &
lane C02 C05 C08 C11 C14 C17 C20 &
lane C03 C06 C09 C12 C15 C18 &
wait
echo ALL-DONE
