#!/usr/bin/env python3
"""coqchk -o over the closure of every property file (4 at a time, no budget); writes notes/coqchk-results.json.
Development aid: the thorough tier runs the same step per property under a time budget."""
import os
os.environ["VERIF_COQCHK_BUDGET"] = "7200"
import sys, json
sys.path.insert(0,'/verif/harness')
import lib
from concurrent.futures import ThreadPoolExecutor
props=[f"C{i:02d}" for i in range(1,21)]
res = {}
with ThreadPoolExecutor(4) as ex:
    for p,r in zip(props, ex.map(lib.coqchk_step, props)):
        print(p, r.get("ok"), r.get("rc"), r.get("wall_s"), (r.get("report") or {}).get("Axioms", "")[:200], flush=True); res[p] = r

json.dump(res, open('/verif/notes/coqchk-results.json', 'w'), indent=1)
