#!/usr/bin/env python3
"""Re-trial of every kept seeded change against the current /repo HEAD and the current checks
(development aid).  For each /verif/seeded/<Cxx-n>/ : scratch worktree of /repo (outside /repo and /verif),
tools/trial.py steps (demo on the clean tree, unedited suite + demo with the patch, the listed quick checks with
VERIF_REPO=<worktree>), meta.json["trial"] rewritten.  Usage: seeded_retrial.py [lanes] [--checks-only] [id ...]   (--checks-only: the demo / suite results of the kept meta.json
are reused — valid while /repo's HEAD is unchanged — and only the checks are re-run against the patched worktree)"""
import json
import os
import subprocess
import sys
from concurrent.futures import ThreadPoolExecutor

V = os.path.dirname(os.path.dirname(os.path.abspath(__file__)))
# checks run in addition to the change's own property (the property whose subject the trigger is)
ALSO = {"C07-3": ["C14"], "C03-3": ["C14"], "C08-4": ["C09"], "C08-3": ["C18"], "C10-3": ["C16"], "C01-4": ["C04"],
        "C03-4": ["C01"], "C05-1": ["C03"], "C01-2": ["C03"], "C09-5": ["C08"], "C14-6": ["C11"], "C01-5": ["C08", "C11"],
        "C01-6": ["C07"], "C13-6": ["C01"], "C06-6": ["C04"], "C01-7": ["C09"], "C02-8": ["C05"], "C08-8": ["C09"],
        "C05-7": ["C14"], "C04-7": ["C01", "C11"], "C17-7": ["C10"], "C14-8": ["C12"], "C05-8": ["C03"]}


CHECKS_ONLY = False
NO_SUITE = False


def run(lane, ids):
    wt = f"/tmp/seedtrial{lane}"
    subprocess.run(["git", "-C", "/repo", "worktree", "remove", "--force", wt], capture_output=True)
    subprocess.run(["git", "-C", "/repo", "worktree", "add", "-q", "--detach", wt, "HEAD"], check=True, capture_output=True)
    out = []
    try:
        for sid in ids:
            d = os.path.join(V, "seeded", sid)
            try:
                meta = json.load(open(os.path.join(d, "meta.json")))
            except Exception:
                meta = {}
            if meta.get("obsolete_after_fix"):      # the fix removed what the change relied on: nothing left to report
                out.append((sid, "obsolete", ["obsolete after " + str(meta["obsolete_after_fix"].get("commit"))], None))
                print(out[-1], flush=True)
                continue
            own = sid[:3] if sid[0] == "C" else str(meta.get("property", ""))[:3]
            props = []
            for q in [own] + ALSO.get(sid, []) + list((meta.get("trial") or {}).get("caught_by") or []):
                if q and q not in props:
                    props.append(q)
            r = subprocess.run([sys.executable, os.path.join(V, "tools", "trial.py"), d, wt, ",".join(props), "quick", "--keep", sid]
                               + (["--checks-only"] if CHECKS_ONLY else []) + (["--no-suite"] if NO_SUITE else []),
                               capture_output=True, text=True)
            txt = r.stdout
            try:
                res = json.loads(txt[txt.index("{"):])
                out.append((sid, res.get("valid_seed"), res.get("caught_by"), res.get("apply_error")))
            except Exception as e:  # noqa: BLE001
                out.append((sid, None, None, "unparsable: %r %s" % (e, (r.stderr or "")[-200:])))
            print(out[-1], flush=True)
    finally:
        subprocess.run(["git", "-C", "/repo", "worktree", "remove", "--force", wt], capture_output=True)
    return out


def main():
    global CHECKS_ONLY, NO_SUITE
    if "--no-suite" in sys.argv:
        NO_SUITE = True
        sys.argv.remove("--no-suite")
    a = sys.argv[1:]
    if "--checks-only" in a:
        CHECKS_ONLY = True
        a.remove("--checks-only")
    lanes = int(a[0]) if a and a[0].isdigit() else 3
    ids = [x for x in a if not x.isdigit()] or sorted(x for x in os.listdir(os.path.join(V, "seeded"))
                                                      if x[0] in "CP" and os.path.isdir(os.path.join(V, "seeded", x)))
    parts = [ids[i::lanes] for i in range(lanes)]
    with ThreadPoolExecutor(lanes) as ex:
        res = [x for part in ex.map(lambda t: run(*t), enumerate(parts)) for x in part]
    bad = [r for r in res if not r[1] or not r[2]]
    print("retried", len(res), "not valid or not caught:", bad)


if __name__ == "__main__":
    main()
