#!/usr/bin/env python3
"""Trial of a seeded change (development aid, not part of any registered check).

    tools/trial.py <src-dir> <worktree> <Cxx>[,Cyy...] [quick|thorough] [--keep <seeded-id>]

<src-dir> holds patch.diff, demo.py (or test_demo.py) and meta.json as delivered by a
sub-agent.  Steps, all in the scratch worktree (never /repo):
  1. clean tree: demo must pass (exit 0);
  2. patch applied: unedited suite must pass, demo must fail (exit != 0);
  3. VERIF_REPO=<worktree> ./check <Cxx> <tier> for each listed property: records exit code, VIOLATION lines;
  4. tree restored.
With --keep the change is copied to /verif/seeded/<seeded-id>/ with a meta.json recording what was run.
"""
import json
import os
import re
import shutil
import subprocess
import sys
import time

VERIF = os.path.dirname(os.path.dirname(os.path.abspath(__file__)))


def sh(cmd, cwd=None, env=None, timeout=3600):
    e = dict(os.environ)
    e.update(env or {})
    t0 = time.time()
    r = subprocess.run(cmd, shell=True, cwd=cwd, env=e, capture_output=True, text=True, timeout=timeout)
    out = "\n".join(l for l in (r.stdout + r.stderr).split("\n") if "conda.cli.condarc" not in l)
    return r.returncode, out, round(time.time() - t0, 1)


def main():
    a = sys.argv[1:]
    keep = None
    checks_only = "--checks-only" in a      # patch + checks only: demo / suite results are taken from the kept meta.json
    if checks_only:                         # (valid while /repo's HEAD is the one those were run against)
        a.remove("--checks-only")
    no_suite = "--no-suite" in a            # demos are re-run (seconds), only the suite result is taken from the kept meta.json
    if no_suite:
        a.remove("--no-suite")
    if "--keep" in a:
        i = a.index("--keep")
        keep = a[i + 1]
        del a[i:i + 2]
    src, wt, props = a[0], a[1], a[2].split(",")
    tier = a[3] if len(a) > 3 else "quick"
    pyenv = {"PYTHONPATH": wt + "/src", "PYTHONHASHSEED": "0", "PYTHONDONTWRITEBYTECODE": "1"}
    demo = "demo.py" if os.path.exists(src + "/demo.py") else "test_demo.py"
    demo_cmd = (f"/venv/bin/python {src}/{demo}" if demo == "demo.py"
                else f"/venv/bin/python -m pytest -q -p no:cacheprovider {src}/{demo}")
    res = {"src": src, "worktree": wt, "properties": props, "tier": tier}
    sh("git checkout -- . && git clean -fdq", cwd=wt)
    prior = {}
    if checks_only:
        try:
            prior = json.load(open(os.path.join(src, "meta.json"))).get("trial", {})
        except Exception:
            prior = {}
        res["demo_clean_rc"] = prior.get("demo_clean_rc")
        res["checks_only"] = True
    else:
        rc, out, t = sh(demo_cmd, cwd=wt, env=pyenv, timeout=600)
        res["demo_clean_rc"] = rc
    rc, out, t = sh(f"git apply {src}/patch.diff", cwd=wt)
    if rc != 0:
        res["apply_error"] = out[-500:]
        print(json.dumps(res, indent=1))
        return 2
    try:
        if checks_only:
            for k in ("suite_rc", "suite_tail", "demo_patched_rc"):
                res[k] = prior.get(k)
        elif no_suite:
            try:
                prior = json.load(open(os.path.join(src, "meta.json"))).get("trial", {})
            except Exception:
                prior = {}
            res["suite_rc"], res["suite_tail"] = prior.get("suite_rc"), prior.get("suite_tail")
            res["suite_reused"] = True
            rc, out, t = sh(demo_cmd, cwd=wt, env=pyenv, timeout=600)
            res["demo_patched_rc"] = rc
            res["demo_patched_tail"] = out.strip()[-400:]
        else:
            for _attempt in (1, 2):   # the suite has timing-sensitive tests: one retry when the box is loaded
                rc, out, t = sh("/venv/bin/python -m pytest -q -p no:cacheprovider --timeout=900", cwd=wt, env=pyenv, timeout=1800)
                if rc == 0:
                    break
            res["suite_rc"] = rc
            res["suite_tail"] = out.strip().split("\n")[-1]
            rc, out, t = sh(demo_cmd, cwd=wt, env=pyenv, timeout=600)
            res["demo_patched_rc"] = rc
            res["demo_patched_tail"] = out.strip()[-400:]
        res["checks"] = {}
        for p in props:
            rc, out, t = sh(f"./check {p} {tier}", cwd=VERIF, env={"VERIF_REPO": wt}, timeout=7200)
            viol = [l for l in out.split("\n") if l.startswith("VIOLATION")]
            known = [l for l in out.split("\n") if l.startswith("KNOWN-FINDING")]
            detail = ""
            if viol:
                m = re.search(r"replay=(\S+)", viol[0])
                if m and os.path.exists(m.group(1)):
                    try:
                        d = json.load(open(m.group(1)))
                        detail = (d.get("clause") or d.get("kind") or "")[:300]
                        if d.get("kind") == "correspondence-broken":
                            detail += " | " + str(d["cases"][0].get("correspondence"))[:300]
                    except Exception:
                        pass
            res["checks"][p] = {"rc": rc, "violations": len(viol), "first": viol[0] if viol else None,
                                "no_failing_input": any("no-failing-input-found" in v for v in viol),
                                "detail": detail, "known": known, "wall_s": t, "tail": out.strip().split("\n")[-1][:300]}
    finally:
        sh("git checkout -- . && git clean -fdq", cwd=wt)
    res["valid_seed"] = (res.get("demo_clean_rc") == 0 and res.get("suite_rc") == 0 and res.get("demo_patched_rc", 0) != 0)
    res["caught_by"] = [p for p, c in res.get("checks", {}).items() if c["rc"] != 0 and c["violations"]]
    print(json.dumps(res, indent=1))
    if keep and res["valid_seed"]:
        dst = os.path.join(VERIF, "seeded", keep)
        os.makedirs(dst, exist_ok=True)
        for f in ("patch.diff", demo):
            if os.path.realpath(os.path.join(src, f)) != os.path.realpath(os.path.join(dst, f)):
                shutil.copy(os.path.join(src, f), dst)
        meta = {}
        try:
            meta = json.load(open(src + "/meta.json"))
        except Exception:
            pass
        meta["trial"] = {k: res.get(k) for k in ("demo_clean_rc", "suite_rc", "suite_tail", "demo_patched_rc", "checks", "caught_by", "tier")}
        if checks_only:
            meta["trial"]["checks_rerun_only"] = True
        if no_suite:
            meta["trial"]["suite_result_reused"] = True
        meta["trial"]["repo_head"] = subprocess.run(["git", "-C", wt, "rev-parse", "--short", "HEAD"], capture_output=True, text=True).stdout.strip()
        meta["ran"] = ["demo on the clean worktree (exit 0)", "unedited pytest suite with the patch applied",
                       "demo with the patch applied (exit != 0)",
                       "VERIF_REPO=<scratch worktree> ./check <property> %s" % tier]
        json.dump(meta, open(os.path.join(dst, "meta.json"), "w"), indent=1)
    return 0


if __name__ == "__main__":
    sys.exit(main())
