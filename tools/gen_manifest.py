#!/usr/bin/env python3
"""Writes /verif/MANIFEST.json from the table below (kept in one place so that the
manifest stays valid and current)."""
import json
import os

HERE = os.path.dirname(os.path.dirname(os.path.abspath(__file__)))
ALL = [f"C{i:02d}" for i in range(1, 21)]

CLAIMED = {
    "C18": dict(
        text="Theorems over the Gallina model of StaticRoleResolver.expand (all graphs, all role lists, no bound): "
             "result = reflexive-transitive closure, sorted, duplicate-free, fuel never exhausted (termination on "
             "cyclic graphs), empty for no roles. The closure theorem makes the model's output the only output the "
             "property allows, so the correspondence run (model extracted to OCaml vs /repo/src on enumerated and "
             "random graphs, and through Guard with sync/async/raising resolvers) reports any difference as a "
             "violation with the differing case as replay.",
        note="Trusted: Coq kernel; hand-written model tied to the code by differential execution only; extraction + "
             "ocamlopt; Python harness; role names are strings; str order = UTF-8 byte order.",
        technique="Coq proof (induction over the DFS loop with closure invariant; fuel bound) + model/implementation correspondence",
        design_ref="DESIGN.md 5/C18",
    ),
}

PENDING_REASON = ("check not built yet at this commit (work in progress; the design in DESIGN.md section 5 covers it and "
                  "the property is expected to be claimed once its model, theorems and correspondence exist)")


def main():
    checks = []
    for p in ALL:
        if p not in CLAIMED:
            continue
        c = CLAIMED[p]
        checks.append({
            "property_id": p,
            "quick_cmd": f"./check {p} quick",
            "thorough_cmd": f"./check {p} thorough",
            "evidence_file": f"/verif/evidence/{p}.json",
            "replay_cmd_template": f"./check {p} --replay {{path}}",
            "engine": "coq-model+correspondence",
            "level_claimed": {"category": "proof", "text": c["text"], "design_ref": c["design_ref"]},
            "level_note": c["note"],
            "technique": c["technique"],
        })
    man = {
        "version": 1,
        "setup_cmd": "./setup.sh",
        "hooks": {
            "guard": "RBACX_VERIF",
            "enable": "none needed: checks import /repo/src directly (PYTHONPATH=/repo/src); no source hooks exist",
            "baseline_off_cmd": "cd /repo && /venv/bin/python -m pytest -ra -q -p no:cacheprovider --timeout=900 --continue-on-collection-errors",
            "source_commits": [],
            "add_only": True,
        },
        "engines": [{
            "name": "coq-model+correspondence",
            "path": "/verif/coq, /verif/harness, /verif/ocaml",
            "serves_properties": sorted(CLAIMED),
            "kind_free_text": "Hand-written executable Gallina model of the Python code with machine-checked theorems "
                              "(Coq 8.16.1), extracted to OCaml and run against /repo/src on generated cases by a Python harness",
        }],
        "checks": checks,
        "notes": "See DESIGN.md. Every check: full Coq build + re-check of coq/props/<id>.v with Print Assumptions, corpus "
                 "replay, model/implementation correspondence and spec check, evidence.",
        "not_applicable": [{"property_id": p, "reason": PENDING_REASON} for p in ALL if p not in CLAIMED],
    }
    with open(os.path.join(HERE, "MANIFEST.json"), "w") as f:
        json.dump(man, f, indent=1)
        f.write("\n")


if __name__ == "__main__":
    main()
