#!/usr/bin/env python3
"""Writes /verif/MANIFEST.json from the table below (kept in one place so that the
manifest stays valid and current)."""
import json
import os

HERE = os.path.dirname(os.path.dirname(os.path.abspath(__file__)))
ALL = [f"C{i:02d}" for i in range(1, 21)]

CLAIMED = {
    "C18": dict(
        text="Theorems over the Gallina model of StaticRoleResolver.expand (all graphs, all role lists, no bound): "
             "result = reflexive-transitive closure, sorted, duplicate-free, fuel never exhausted (termination on "
             "cyclic graphs), empty for no roles; closure-operator laws on sets of roles (extensive, closed under edges, monotone, "
             "idempotent, blind to order/repetition of the given roles, union). The closure theorem makes the model's output the only output the "
             "property allows, so the correspondence run (model extracted to OCaml vs /repo/src on enumerated and "
             "random graphs, and through Guard with sync/async/raising resolvers) reports any difference as a "
             "violation with the differing case as replay.",
        note="Trusted: Coq kernel; hand-written model tied to the code by differential execution only; extraction + "
             "ocamlopt; Python harness; role names are strings; str order = UTF-8 byte order.",
        technique="Coq proof (induction over the DFS loop with closure invariant; fuel bound) + model/implementation correspondence",
        design_ref="DESIGN.md 5/C18",
    ),
    "C02": dict(
        text="Theorems over the Gallina model of policy.evaluate and policyset.decide (every rule list, environment, relationship "
             "oracle and tree of nested sets; no bounds): the rule loop followed by its finalisation equals a declarative "
             "result (first applicable deny / last applicable permit / first applicable rule ...), from which deny-overrides, "
             "permit-overrides, first-applicable, 'no applicable rule => deny', the algorithm argument and its case-insensitive "
             "spelling are derived in terms of rules; the set evaluator equals the same laws over child results with the "
             "deciding child's id; a (nested) set result names a rule only if that rule is applicable somewhere in the tree "
             "(induction over nesting). The model's (decision, rule id, policy id) is therefore the only answer the property "
             "allows: the correspondence run (extracted model vs rbacx.core.policy.evaluate/decide and policyset.decide on "
             "every rule-outcome sequence up to length 4/5 x algorithms, every set of <= 3 children over 12 child policies, "
             "random nested sets) reports a difference there as a violation, a difference only in reason/obligations as "
             "broken correspondence.",
        note="Trusted: Coq kernel; hand-written model tied to the code by differential execution only; extraction + ocamlopt; "
             "Python harness. Theorems about rule outcomes assume each rule's outcome is defined (no Python exception, inside "
             "the model's domain) — C06 discharges that for schema-valid policies.",
        technique="Coq proof (loop invariants over the rule/child loops, declarative spec, structural induction over nested sets) + model/implementation correspondence",
        design_ref="DESIGN.md 5/C02",
    ),
    "C04": dict(
        text="Thirty-four theorems characterise the model of eval_condition/resolve operator by operator for all operand "
             "values, literal or attribute reference, both modes, any nesting: ==/!= are Python equality of the resolved "
             "values (a string never equals a number/boolean/null), ordering compares numbers only (bool, str, null, list, "
             "object, datetime or an int beyond the double range is a type mismatch; exact integer order below 2^53), "
             "contains/in/hasAll/hasAny/startsWith/endsWith as documented, before/after/between on microsecond instants "
             "with between inclusive and strict mode accepting aware datetimes only, and/or/not left to right with "
             "short-circuit (nothing to the right of a deciding operand is evaluated), attribute paths (missing step or step "
             "into a plain value gives null), and a type mismatch makes exactly that rule not apply "
             "(condition_type_mismatch) while the loop continues. The model's answer is thus the documented meaning; the "
             "correspondence run compares eval_condition with the extracted model on the full operator x value x value x "
             "mode cross product (~118k cells), time strings/epochs incl. range edges and rounding ties, logic trees, "
             "paths, multi-key objects and rule-level skipping; any difference is a violation with the cell as replay.",
        note="Trusted: Coq kernel; model tied to the code by differential execution only; extraction; harness. Outside the model "
             "(counted as ood, skipped): ISO-8601 shapes beyond YYYY-MM-DD[(T| )hh:mm[:ss[.f{1,6}]]][Z|+-hh:mm], NaN nested in "
             "container operands (CPython identity shortcut), datetime objects reached by a path step. datetime.fromtimestamp "
             "rounding is modelled exactly (binary64 product, round-half-even), fromisoformat by a hand-written parser.",
        technique="Coq proof (characterisation lemmas by computation and induction over operand lists) + exhaustive-in-the-small model/implementation correspondence",
        design_ref="DESIGN.md 5/C04",
    ),
    "C05": dict(
        text="Twenty-one theorems characterise the model of match_actions/match_resource clause by clause for all rule targets "
             "and request resources: actions (listed or '*'), the target as conjunction of type/id/attribute clauses, each "
             "clause in lax mode (string forms, one-of by string membership) and strict mode (a string equal to a listed "
             "string; Python == for ids and attributes; one-of by ==), absent/'*' type, attrs vs legacy attributes, missing "
             "request id/attribute; strict never matches \"1\" against 1 for id, attribute and one-of, nor a non-string "
             "request type against a named type; every path decides applicability through match_resource in the mode of "
             "the environment and the environment built by the engine carries exactly Guard's strict flag. Correspondence: "
             "match_resource/match_actions vs the extracted model on the enumerated cross products of rule type x request "
             "type, id x id and attribute x attribute over near-duplicate pools in lax/strict/legacy-flag mode, and end to "
             "end through Guard(strict_types) as single policy (compiled path), set and nested set: allowed iff the model's "
             "target predicate holds in that mode. Differences are violations.",
        note="Trusted: Coq kernel; model tied to the code by differential execution only; extraction; harness. str() of containers "
             "holding non-printable/non-ASCII strings is outside the model (ood).",
        technique="Coq proof (clause characterisations) + exhaustive cross-product correspondence, direct and through the engine",
        design_ref="DESIGN.md 5/C05",
    ),
    "C20": dict(
        text="Theorems over the Gallina model of RbacxMiddleware.__call__/_send_json (every configuration, scope dict, env-builder "
             "outcome, Decision with arbitrary values in allowed/effect/reason/rule_id/policy_id, failing sends, raising "
             "downstream; no bounds): in enforce mode on an http scope with a delivering builder downstream is invoked iff "
             "decision.allowed is truthy, exactly once with the same receive/send and the scope with the engine attached; a "
             "denial is exactly start(403, content-type, content-length 23 [+ X-RBACX-* of the truthy fields iff add_headers]) "
             "+ the literal body {\"detail\": \"Forbidden\"}, the body being the same bytes in every call whatsoever "
             "(constancy is how 'never contains the ids' is stated, since an id may coincide with a piece of the fixed "
             "document); builder/evaluation raising => downstream not invoked, nothing sent, exception propagates; every other "
             "scope type / mode / missing builder => exactly one downstream call, nothing consulted or sent; the engine is "
             "attached first and nothing else in the scope changes; converse safety over all calls; composition lemma against "
             "an abstract engine. The model's answer is the only behaviour the property allows, so the correspondence run "
             "(extracted model vs /repo/src driven with raw scope/receive/send, stub guard and the real Guard over 14 "
             "policies/sets incl. obligation-failed permits; complete products over mode x add_headers x scope type x builder "
             "x decision outcomes, then seeded hostile decisions) reports any difference in downstream calls, messages or "
             "scope as a violation; exception-class/trace-only differences as broken correspondence.",
        note="Partial with respect to the runtime: asyncio scheduling is modelled as sequential composition; receive/send/downstream "
             "are opaque identities; scope values are JSON data. Lone surrogates in reason/rule id/policy id are outside the "
             "modelled text domain (with add_headers on the code raises UnicodeEncodeError and sends nothing - "
             "c20_403_unencodable; that stream is only checked for fail-closed). 'Iff the engine allowed' is proved against an "
             "abstract engine and tied to the real Guard by the correspondence run. Trusted: Coq kernel, hand-written model, "
             "extraction + ocamlopt (cross-checked per run against vm_compute), Python harness.",
        technique="Coq proof (case analysis over the middleware's control flow with a trace-of-effects model) + model/implementation correspondence with exhaustive small products, real-Guard family, hostile-string fuzzing",
        design_ref="DESIGN.md 5/C20",
    ),
    "C03": dict(
        text="Theorems over the Gallina model of compiler.compile(policy)(env) as it is now: the compiler's categories are the "
             "statement's tiers (id-specific / attribute-constrained / type-only among rules naming the request's type; wildcard "
             "or absent type last); the buckets hold exactly the rules whose action and resource target match; and for every "
             "single policy with an explicit known algorithm the compiled decision has the same decision, reported rule, "
             "obligations and policy id as the reference evaluation of the policy restricted to the rules of the least tier "
             "holding a matching rule, in document order (proved through a simulation showing that dropping not-applicable "
             "rules from any rule list changes nothing but the reason text). Rules whose target does not match never matter: "
             "inserting them anywhere leaves the compiled result literally unchanged; policy sets are delegated to the set "
             "evaluator; the selected bucket is a sub-list of the policy's rules. The check judges the property directly "
             "(Guard vs policy.evaluate on the tier-restricted policy, tiers computed from the statement), runs the "
             "metamorphic insertion of non-matching rules at every position, and compares compile(policy)(env) with the "
             "extracted model (broken correspondence if they differ while the property still holds).",
        note="Trusted: Coq kernel; model tied to the code by differential execution only; extraction; harness (incl. its own tier "
             "function written from the statement). The reason text is not part of the equivalence theorem (C11 pins it when "
             "a rule is reported); the harness compares it when a rule is reported. Repaired findings F1, F2, F19 are corpus "
             "witnesses and Examples.",
        technique="Coq proof (simulation between rule loops under dropping of not-applicable rules; bucket/selection lemmas) + direct property judgement + metamorphic insertion + model/implementation correspondence",
        design_ref="DESIGN.md 5/C03",
    ),
    "C12": dict(
        text="Theorems over the Gallina model of LocalRelationshipChecker.check/batch_check (every store incl. cycles, self-loops, "
             "duplicates; every rule map; every registry; every query; max_depth/max_nodes in Z; every deadline oracle, hence "
             "every clock): answer True implies the relation is derivable within max_depth by an inductively defined least "
             "fixpoint that does not mention the search, whatever the node budget and deadline; derivable within max_depth "
             "implies True unless the node budget or the deadline fired in that run, and exactly True with a budget of "
             "node_bound and no deadline hit; a True answer survives any more generous configuration; the search ends on every "
             "store; batch_check equals the individual checks (memo included); unknown, false and raising caveats do not count "
             "and the derivable relations are those of the store stripped of non-holding caveated tuples; the store enters only as a "
             "set and positively (RebacMono.v: equal tuple sets give equal derivability and, with sufficient budget and no "
             "deadline, equal answers; adding tuples or depth never revokes a True, removing never grants). A verified "
             "executable spec (within_b) is applied to the implementation's answers: True for a non-derivable relation, or any "
             "answer other than derivability when no limit fired in the model's run, is a violation with the case as replay; "
             "other differences are broken correspondence.",
        note="Trusted: Coq kernel; hand-written model tied to the code by differential execution only; extraction + ocamlopt; "
             "harness. Direct tuples count at every visited node whether or not the rule mentions This() (as the code does). A "
             "predicate is a function of the call's context raising only Exception subclasses; names and refs are str; limits "
             "are ints; time is read only through time.perf_counter_ns (scripted test-side).",
        technique="Coq proof (BFS loop invariant: non-decreasing two-level queue depths, seen nodes expanded, a promising node always waits; additive fuel over a finite node universe) + verified executable spec checker + model/implementation correspondence with scripted clock",
        design_ref="DESIGN.md 5/C12",
    ),
    "C16": dict(
        text="Theorems over the Gallina model of atomic_write (scripted step list mkstemp/fdopen/write pieces/close/os.replace/"
             "finally-unlink, every step succeeding, raising or being the crash point; all scripts, all piece splits): target is "
             "exactly old or exactly new, new iff the rename completed, in the final state and in every intermediate state "
             "(timeline); a failed write whose cleanup did not itself fail leaves the directory literally unchanged; complete "
             "outcome classification; other files untouched. Over all histories of writes/touches/deletes/atomic writes "
             "interleaved with etag()/load(): etag() = h(current content) [+ mtime] / None for a missing file, hence equal for "
             "unchanged and different for different content (h injective as hypothesis), under the property's own hypothesis "
             "that (size, mtime_ns) determines content along the history and that no change falls inside one etag() call; "
             "single-call characterisation exact <-> cache coherent; load() = parse by extension of the current content, "
             "unconditionally. Correspondence: model extracted to OCaml vs /repo/src on a real temp directory with injected "
             "exceptions and killed forked writers at every step and partial write, enumerated histories, reader/writer "
             "threads; property clauses judged directly on the implementation's output.",
        note="partial: atomicity of os.replace and post-crash visibility of completed system calls are the OS's (assumed; exercised "
             "on the sandbox's file system); power-loss durability neither claimed nor modelled (no fsync in the code); sha256 "
             "collision-freedom, json/yaml/jsonschema are hypotheses/oracles; target path assumed not of the form "
             ".rbacx.tmp.<x>; etag theorems carry sig_determines (the statement's own carve-out) and quiet (no change between "
             "stat and read inside one etag() call - outside the quantifier, witness c16_midcall_change_refuted).",
        technique="Coq proof (case analysis over the try/with/finally structure with an induction over write pieces; history induction with a cache-justification invariant) + model/implementation correspondence with fault and crash injection",
        design_ref="DESIGN.md 5/C16",
    ),
    "C01": dict(
        text="Theorems over the Gallina model of Guard's evaluation core (environment construction, compiled function / "
             "interpreter / set evaluator at any nesting depth, built-in obligation checker, Decision; every policy tree whose "
             "leaves name a known algorithm or none and use permit/deny effects - implied by schema validity -, every request, "
             "both type modes, any role-resolver answer, any relationship oracle): allowed=true implies that the policy "
             "contains a permit rule whose actions, resource target and condition all match the request, whose obligations "
             "are the ones returned and are not refused by the built-in checker; allowed iff effect = permit (any checker); no "
             "applicable rule, or no rules, implies deny; a raw permit names a rule on every path. The check judges exactly "
             "that on the implementation's Decision, using per-rule facts computed by the extracted model (applicable? effect? "
             "obligations verdict?) - a spurious permit is a violation with the (policy, request, configuration) as replay - and "
             "also compares the whole Decision with the model (broken correspondence when only that differs).",
        note="Trusted: Coq kernel; model tied to the code by differential execution only; extraction; harness. The decision cache is "
             "not in this model (C08 proves transparency and the harness evaluates cached cases twice); sync/async/in-loop entry "
             "points are one function in the model (C14 ties the flavours). Role resolver and relationship checker are oracles "
             "whose recorded answers are replayed into the model.",
        technique="Coq proof (explanation of every raw decision by an applicable rule: loop prefix + declarative spec, structural induction over nested sets, compiled-bucket subset lemma, obligation gate) + direct property judgement with model-computed facts + correspondence",
        design_ref="DESIGN.md 5/C01",
    ),
    "C07": dict(
        text="Fifteen theorems over the model of BasicObligationChecker.check (as repaired) and of the engine's gate: on a permit the "
             "verdict is positive iff every obligation aimed at permit is satisfied, otherwise negative with the challenge of the "
             "FIRST unmet obligation in list order; a positive verdict implies all targeted obligations satisfied (fail closed); a "
             "non-permit raw decision never gets a positive verdict; no built-in requirement raises inside the int() domain; the "
             "documented table type by type (flags truthy; level int(level or 0) >= min with invalid min = 0 and non-convertible "
             "level unmet; consent truthy / truthy at key of a consent object; re-auth age present, convertible and <= max_age; "
             "http_challenge never met, challenge by scheme); unknown types and obligations aimed at the other effect ignored; "
             "missing/null/ill-typed values unmet; the engine turns a negative verdict of ANY checker (sync or async) into "
             "allowed=false, effect deny, reason obligation_failed and that challenge. The model's verdict is the only one the "
             "property allows: the correspondence run (8 types x on x attrs shapes x ~30 context values, all ordered pairs, "
             "triples, through Guard cold and cached, custom sync/async checkers) reports any difference, and any exception of "
             "the built-in checker, as a violation.",
        note="Trusted: Coq kernel; model tied to the code by differential execution only; extraction; harness. Python int() on text is "
             "modelled for ASCII ([ws][+-]digits with single underscores[ws]); non-ASCII text is outside the model; CPython's "
             "4300-digit int/str conversion limit is modelled (digit strings beyond it are a conversion failure = unmet) and exercised at the boundary. Obligation items are objects (schema); a raising custom checker keeps the permit "
             "(pinned by the suite, stated in the gate theorems as the None case).",
        technique="Coq proof (induction over the obligation list; per-type characterisation) + exhaustive-in-the-small correspondence, direct and through the engine",
        design_ref="DESIGN.md 5/C07",
    ),
    "C11": dict(
        text="Theorems over the same engine model as C01, for ANY obligation checker: a non-null rule id names a rule of the policy "
             "(any depth, any path) that is applicable and has the reported effect - explicit_deny for deny, matched for a "
             "granted permit, obligation_failed for a permit the checker revoked - and obligations returned with a permit are "
             "that rule's; with no rule reported the decision is a deny whose reason is no_match or a mismatch kind some rule of "
             "the policy exhibits on this request; single policies and sets are explained separately (set results are those of "
             "a leaf policy's own result, reason normalised); one audit payload and one metric per evaluation agreeing with the "
             "decision, sinks cannot influence it (by construction in the model). The check judges all of this on the "
             "implementation's Decision with model-computed per-rule facts, checks policy_id against the top-level child "
             "containing the rule, counts and compares audit payloads and metrics on cold and cached evaluations, and re-runs "
             "every case with raising sinks.",
        note="'Exactly one record per evaluation' and 'sinks are inert' are by construction in the model; it is the correspondence "
             "run that shows the implementation emits exactly one and ignores sink failures. Otherwise as C01.",
        technique="Coq proof (explanation theorems shared with C01; induction over nested sets; no-rule reason lemma) + direct property judgement + audit/metric counting + raising-sink reruns",
        design_ref="DESIGN.md 5/C11",
    ),
    "C14": dict(
        text="Theorems over a hand-written lock/thread model (Conc.v) of HotReloader.check_and_reload/_async/start/stop/_run_loop and "
             "Guard.evaluate_sync: for all 196 configurations of the stated finite family (both calling contexts, <=4 threads) and "
             "every schedule, no reachable state is deadlocked, no lock is left behind, and every run that stops starting new "
             "polling rounds reaches 'every called entry point has returned' (exhaustive in-Coq exploration lifted by a closed-set "
             "soundness lemma + rank argument); the pre-fix programs are refuted with witnesses (F10: never returns on any "
             "schedule; F11). The sync=async / no cross-talk / no mutation part is judged directly on the implementation "
             "(differential across 8 API flavours x sync/async collaborators, 50-way concurrent vs sequential, deep + identity "
             "equality); in the model it is trivial.",
        note="PARTIAL: lock programs hand-transcribed (tied per run by watchdog runs per configuration, by trace inclusion of the "
             "implementation's observed lock events in the model; an AST lock-skeleton comparison is supporting evidence only - a "
             "difference is recorded and switches the whole theorem family on in the quick tier); threading/asyncio/"
             "ThreadPoolExecutor semantics assumed; implementation observed on sampled + two forced schedules (polling thread held "
             "mid-check / holding the lock) only; hang = no return in 10 s (2 x 5 s watchdog). No mutation is judged with hostile "
             "collaborators that edit what they are handed (open finding F24 for nested values); no cross-talk also by every "
             "single-pre-emption schedule of two evaluations on one Guard under a line-level cooperative scheduler.",
        technique="Coq finite-state exploration with proved soundness (vm_compute) + rank/termination lemma + differential, watchdog and trace-inclusion correspondence",
        design_ref="DESIGN.md 5/C14",
    ),
    "C06": dict(
        text="Theorems over the engine model and a hand transcription of the bundled JSON Schema (schema_valid): for every "
             "schema-valid policy or policy set, every request whose context._rebac is an object or null, both type modes, any "
             "role-resolver answer, relationship oracle and obligation checker, no exception escapes evaluation (c06_total); a "
             "schema-valid condition tree never raises anything but the sanctioned type mismatch (induction over the tree, all "
             "19 operators); every rule has an outcome - applies or not applicable with a reason - so ill-typed and out-of-range "
             "operands make exactly that rule not apply; the environment built from a JSON request is well formed; the decision "
             "is well formed (effect permit/deny, allowed iff permit) and its reason is one of the eight documented reasons; "
             "schema validity discharges the structural hypothesis of C01/C11. Termination is structural (no fuel). The check "
             "(1) compares schema_valid with the real jsonschema on every generated and mutated document (the theorem's "
             "hypothesis), (2) judges the property directly: every accepted document - also after a JSON or YAML round trip "
             "through the loaders - is evaluated through Guard lax+strict against hostile JSON requests and must return a "
             "well-formed decision without raising, (3) compares the Decision with the model where the model has an answer.",
        note="Trusted: Coq kernel; model and schema transcription tied to the code by differential execution only; jsonschema 4.x "
             "(private install) as the oracle for validity; extraction; harness. Python's recursion limit is outside the model "
             "(jsonschema gives up at 150-200 levels of nesting, evaluation only beyond ~990; generated up to 120). Model results "
             "outside its domain (exotic str(), ISO shapes outside the modelled grammar) are not exceptions in the theorem; the "
             "harness observes those cases directly on the implementation.",
        technique="Coq proof (no-raise invariant by induction over condition trees, rules, sets and the compiled path; schema transcription) + jsonschema-validated grammar/mutation generation + direct totality judgement + correspondence",
        design_ref="DESIGN.md 5/C06",
    ),
    "C09": dict(
        text="Inductive invariant over a Gallina model of Guard.set_policy/_install_policy/_current_policy_version/"
             "_evaluate_core_async/_decide_async as of commit 40ecad2 (fields published under _state_lock with _policy_version; "
             "evaluation stores only if the version is unchanged), for any number of threads running any sequence of "
             "set_policy/evaluate calls, every interleaving of their atomic steps and cache evictions, unbounded: every cache "
             "entry carries the decision of the policy its tag names; every evaluation returns one policy's complete decision, "
             "that policy current at some moment during it; once all replacement calls have returned, evaluations started "
             "afterwards return the last published policy's decision (also in the UpRet form for non-overlapping replacements); "
             "no entry with tag and decision from different policies. The pre-fix protocol is refuted by a vm_compute schedule "
             "(F7, and A->B->A). Tied to /repo/src every run by replaying every model-enumerated interleaving of the located "
             "shared-state accesses on a real Guard under a settrace scheduler (U||E, HotReloader||E, U||E;E exhaustive; "
             "A->B->A||E exhaustive in thorough; U||E||E sampled), lock probes, and implementation-only searches (all access "
             "interleavings the implementation admits; line-level schedules up to 2/3 pre-emptions; seeded random), with the "
             "property judged on the implementation's own output.",
        note="partial: CPython atomicity of single attribute loads/stores and of individual dict/OrderedDict/cache operations under "
             "the GIL is assumed (free-threaded builds out of scope); the asyncio.to_thread hand-off is one step; tag_of injective "
             "(SHA3 collision-free) and compiled = interpreted decision (C03) are hypotheses; custom caches are assumed to satisfy "
             "get/set/clear and be thread-safe; the etag=None branch and compile-raises-for-one-policy are modelled but not "
             "exercised on the implementation; U||E||E is sampled, not exhaustive.",
        technique="Coq proof (inductive invariant over an interleaving semantics, rely/guarantee-style frame lemma, ghost event log; vm_compute refutation of the old protocol) + model/implementation schedule correspondence (deterministic settrace scheduler) + bounded schedule search on the implementation",
        design_ref="DESIGN.md 5/C09",
    ),
    "C10": dict(
        text="Theorems over a Gallina model of HotReloader (priming, check as a small-step program whose atomic steps are the "
             "lock-delimited blocks and the source calls, _register_error in exact Q arithmetic) and of the custom, file, HTTP and "
             "S3 sources as state machines. For every source and every interleaving of any number of plain or forced checks with "
             "arbitrary world changes: the active policy is the initial one or a loaded document, one set_policy happens per check "
             "returning True, and only a check's last step touches the guard. For sequential histories the policy is the most "
             "recently loaded document. A failing or unchanged check returns False and is inert. The window is at most "
             "now+max(0.2, backoff_max(1+jitter_ratio)), per check and over all interleavings, with doubling, clamping and reset; "
             "suppressed checks are no-ops; forced checks ignore the window. Convergence is proved for every honest source "
             "(instances: custom, file, S3, HTTP without ETags) from construction through any interleaving satisfying a stated "
             "side condition (no content change between etag() and load() of a check holding a content tag; vacuous for "
             "version-tagged sources), including a change inside the first of the two final checks and the initial_load proviso. "
             "HTTP with ETags converges outside F9's class. The unconditional convergence clause is refuted for the code as it is "
             "by two machine-checked histories (c10_refuted_http_etag = F9, c10_refuted_aba = F20); the check prints those as "
             "KNOWN-FINDING and reports any other non-convergence.",
        note="Partial: the polling thread's loop is modelled only as 'calls check repeatedly'; network and S3 are fakes; each "
             "etag()/load() call is atomic with respect to the world; faults are Exception subclasses; every write gets a fresh "
             "mtime. Overlapping checks use interleaving semantics in the model; on the implementation all 70 two-check "
             "interleavings are forced by gates, plus free-running threads judged on safety only. Floats: dyadic inputs, tolerance "
             "1e-9 on suppressed_until and backoff. Trusted: Coq kernel, the hand-written model tied to the code by differential "
             "execution, extraction plus ocamlopt, and the harness.",
        technique="Coq proof (invariants over a small-step interleaving semantics, big-step characterisation, refinement of source state machines to an honesty record, lra/nra over Q, vm_compute counterexamples) + model/implementation correspondence on enumerated and random scripted histories, including forced thread interleavings",
        design_ref="DESIGN.md 5/C10",
    ),
    "C19": dict(
        text="Theorems over the Gallina model of _set_by_path/apply_obligations/DecisionLogger.log (all JSON environments, paths, "
             "specs, flags, rates, draws and bounds; no size or depth bound): the placeholder is at every well-formed configured "
             "path after redaction and positions beside the path are unchanged (frame); a secret occurring only at or below "
             "well-formed configured paths occurs nowhere in the emitted record, whichever of full env / truncation marker / "
             "failure marker is emitted and whether or not redaction is in place; with in_place=false the caller's env is "
             "unchanged, in place it keeps its top-level bindings; an explicit list (even empty) beats the default set, which "
             "applies only when opted in; rate <= 0 drops for every draw, rate >= 1 emits for every draw in [0,1), smart sampling "
             "with default rates emits every deny and permit-with-obligations (and the same two laws for any category rate); with "
             "a bound the env is emitted in full iff its serialised UTF-8 size is <= the bound, else the marker with that size. "
             "The correspondence run (extracted model vs /repo/src: int(), _set_by_path, apply_obligations, DecisionLogger.log "
             "with capturing logger and scripted random.random) compares the exact emitted message, draws consumed, fallback "
             "trace and the caller's env after the call on complete small families and seeded random cases, judging each clause "
             "on the implementation's output.",
        note="Partial/trusted: the UTF-8 size of json.dumps(redacted env) and the JSON/str renderings are Python's (the model yields "
             "the record as a value; the harness renders it with the same functions and compares strings). Env is a JSON tree (no "
             "shared objects/cycles); Python's recursion limit is outside the model (depth <= ~400; deeper envs checked "
             "property-only). Mask placeholders that are lists/dicts and Unicode digits in index text are out of domain (counted, "
             "skipped). A covering path must have non-negative indices (a negative index is resolved against the list as it is at "
             "that moment).",
        technique="Coq proof (induction over path segments with a covering-positions invariant; fold over the sequence of writes; exact dyadic float order for the sampling gate; explicit aliasing state for in-place redaction) + exhaustive-in-the-small and random model/implementation correspondence",
        design_ref="DESIGN.md 5/C19",
    ),
    "C15": dict(
        text="Theorems over the Gallina model of DefaultInMemoryCache (get/set/delete/clear with the clock readings as "
             "arguments; every operation sequence, every capacity incl. 0 and negative, every TTL and clock; values of any "
             "type; no bound): the store never exceeds max(0, capacity) entries and holds a key at most once; a hit returns "
             "the value of the latest set of that key with no later set/delete of it and no clear, strictly before its "
             "deadline (ttl None/0/negative = none); read-your-write, delete-then-miss, clear-then-miss and never-set-never-found "
             "as corollaries (CacheLaws.v); the LRU rank bound after a store and after a hit (an entry is lost to "
             "capacity only when at least capacity distinct other keys were stored or found since; the count is of distinct "
             "keys), tight; exactly the textbook LRU map when no entry can expire; the store is ordered by last touch; and "
             "linearizability of every concurrent history (any number of threads) under the assumption that each method body "
             "is one atomic step, with capacity and key uniqueness in every concurrent state. The correspondence run compares "
             "the cache with the extracted model per operation (answer, size, ordered content with deadlines) on every "
             "sequence of length 3 over a 24-letter alphabet x capacities 0..3 and seeded longer ones incl. the 128-entry purge "
             "prefix, judges the clauses on the implementation's own history with an independent checker, and searches every "
             "recorded 2-8 thread history for a linearisation that the extracted model accepts.",
        note="Partial: atomicity of the method bodies is threading.RLock + the GIL (assumed by c15_linearizable; tied by the "
             "recorded concurrent histories and an ast walk of the lock discipline, the latter reported in the evidence only). "
             "Trusted: Coq kernel; model tied to the code by differential execution only; extraction; harness; time.monotonic "
             "replaced by a scripted clock.",
        technique="Coq proof (invariants by induction over operation sequences; rank-bound invariant for LRU; refinement to a textbook LRU map; linearisation built by induction over concurrent executions with atomic steps) + exhaustive-in-the-small model/implementation correspondence + linearisability search on recorded real-thread histories",
        design_ref="DESIGN.md 5/C15",
    ),
}

PENDING_REASON = ("check not built yet at this commit (work in progress; the design in DESIGN.md section 5 covers it and "
                  "the property is expected to be claimed once its model, theorems and correspondence exist)")


# sentences appended to the claim texts: theorems added after the first build (compositions of the models)
ADDENDA = {
    "C01": " Through the decision cache (CacheExplain.v, composing C08's transparency theorem): for every history of evaluations, "
           "policy replacements, cache clears and clock ticks on engines with a contract-meeting cache, every allowed answer of the "
           "cached run — hits included — is explained by an applicable permit rule of the policy the engine holds at that time.",
    "C11": " Through the decision cache (CacheExplain.v): rule-id truthfulness and the no-rule reasons hold for every answer of a cached "
           "history, hit or miss, about the policy held at that time; composed with the DecisionLogger model (AuditRedact.v): a logged "
           "record naming a rule names an applicable rule with the recorded effect, flag, reason and obligations.",
    "C02": " Through the decision cache (CacheExplain2.v): at every site of a cached history the answer for a set is the specified "
           "combination of the children's results under the policy held at that time.",
    "C06": " Through the decision cache (CacheExplain2.v): for histories of schema-valid policies no answer of the cached run is a raise "
           "and every Decision is well-formed with a documented reason.",
    "C07": " Through the decision cache (CacheExplain2.v): every answer of a cached history, hit or miss, is gated by the built-in checker "
           "on this request's context (the check is re-done on hits).",
    "C03": " At engine level and through the decision cache (CacheExplain3.v): guard_decide / guard_eval on a single policy is the "
           "reference evaluation of the most specific matching tier (or, when the compiled function raises, the interpreter over all "
           "rules — stated precisely), rules whose target mismatches are irrelevant to the Decision, at every site of a cached history.",
    "C05": " At engine level (CacheExplain3.v): the rule a Decision names matches the request by match_resource with the guard's own "
           "type mode, with the documented type / id / attrs table visible in the statement; also at every site of a cached history.",
    "C08": " With the role resolver (CacheGuardR.v): transparency re-proved for two guards each with its own (possibly stateful) resolver "
           "sharing one cache — the key holds the expanded roles; the resolver-free model is the instance without resolvers; the resolver "
           "histories of the correspondence run (static graphs, failing resolvers, graphs edited along the history) are replayed through "
           "this model (runner entry cg.runR).",
    "C18": " Engine side (RolesEngine.v): what the resolver answered is what conditions read at subject.roles (hasAny / hasAll / contains "
           "/ in decide membership in it) and what the audit payload records; without an answer the own roles are there unchanged.",
    "C20": " Composed with the engine model (AsgiEngine.v): the downstream application runs only if the policy has an applicable permit "
           "rule whose obligations are not refused; no applicable rule gives the generic 403; an engine exception propagates without a "
           "response and without downstream.",
    "C10": " Composed with the file-store model (ReloadFile.v): with one atomic_write(path, new) over a complete document, crashing at any "
           "step and interleaved with any reloader checks, the active policy is always the initial one, parse(old) or parse(new) — never a "
           "torn document — and after a completed write the next due or forced check installs parse(new) (under the stated stat-signature "
           "proviso).",
    "C16": " Composed with the reloader model (ReloadFile.v): every load during a write parses a whole file; the final directory is the "
           "writer's last completed step.",
    "C13": " Composed with the local checker model of C12 (RelLocal.v): with LocalRelationshipChecker as the oracle a rel condition is never "
           "true without a derivation of the canonical triple (whatever the limits), is true iff derivable when the limits do not bind, "
           "and a permit resting on rel rules rests on a derivable triple.",
    "C19": " Composed with the engine model (AuditRedact.v): for a Guard whose sink is a DecisionLogger the emitted record carries the "
           "returned decision's fields unchanged, satisfies the redaction guarantees on the environment part, logging never changes the "
           "decision or (copy mode) the caller's environment, and denies / permits with obligations are always emitted under smart "
           "sampling with default rates.",
}


def load_note_claims():
    """claims written by the builders of single properties: notes/<Cxx>-claim.json (text, note, technique, design_ref)"""
    import glob
    for f in sorted(glob.glob(os.path.join(HERE, "notes", "C??-claim.json"))):
        p = os.path.basename(f)[:3]
        if p in CLAIMED:
            continue
        d = json.load(open(f))
        if not os.path.exists(os.path.join(HERE, "coq", "props", p + ".v")) or not os.path.exists(os.path.join(HERE, "harness", p.lower() + ".py")):
            continue
        CLAIMED[p] = dict(text=d["text"], note=d["note"], technique=d["technique"], design_ref=d.get("design_ref", "DESIGN.md 5/" + p))


def main():
    load_note_claims()
    checks = []
    for p in ALL:
        if p not in CLAIMED:
            continue
        c = dict(CLAIMED[p])
        c["text"] = c["text"] + ADDENDA.get(p, "")
        checks.append({
            "property_id": p,
            "quick_cmd": f"./check {p} quick",
            "thorough_cmd": f"./check {p} thorough",
            "evidence_file": f"/verif/evidence/{p}.json",
            "replay_cmd_template": f"./check {p} --replay {{path}}",
            "engine": "coq-model+correspondence",
            "level_claimed": {"category": "proof", "text": c["text"], "design_ref": c["design_ref"]},
            "level_note": c["note"],
            "technique": c["technique"],
        })
    man = {
        "version": 1,
        "setup_cmd": "./setup.sh",
        "hooks": {
            "guard": "RBACX_VERIF",
            "enable": "none needed: checks import /repo/src directly (PYTHONPATH=/repo/src); no source hooks exist",
            "baseline_off_cmd": "cd /repo && /venv/bin/python -m pytest -ra -q -p no:cacheprovider --timeout=900 --continue-on-collection-errors",
            "source_commits": [],
            "add_only": True,
        },
        "engines": [{
            "name": "coq-model+correspondence",
            "path": "/verif/coq, /verif/harness, /verif/ocaml",
            "serves_properties": sorted(CLAIMED),
            "kind_free_text": "Hand-written executable Gallina model of the Python code with machine-checked theorems "
                              "(Coq 8.16.1), extracted to OCaml and run against /repo/src on generated cases by a Python harness",
        }],
        "checks": checks,
        "notes": "See DESIGN.md. Every check: full Coq build + re-check of coq/props/<id>.v with Print Assumptions, corpus "
                 "replay, model/implementation correspondence and spec check, evidence.",
        "not_applicable": [{"property_id": p, "reason": PENDING_REASON} for p in ALL if p not in CLAIMED],
    }
    with open(os.path.join(HERE, "MANIFEST.json"), "w") as f:
        json.dump(man, f, indent=1)
        f.write("\n")


if __name__ == "__main__":
    main()
