"""Shared machinery of the /verif checks.

A check = proof step (the Coq development builds, the property's theorem file
re-checks, its Print Assumptions output is collected) + corpus replay +
correspondence/spec step (model vs /repo/src on generated cases) + verdict +
evidence.  See DESIGN.md section 2.
"""
from __future__ import annotations

import fcntl
import hashlib
import json
import math
import os
import random
import re
import shutil
import subprocess
import sys
import tempfile
import time
from pathlib import Path

import logging

logging.disable(logging.CRITICAL)

VERIF = Path(__file__).resolve().parent.parent
REPO = Path(os.environ.get("VERIF_REPO", "/repo"))
COQ = VERIF / "coq"
PYDEPS = VERIF / ".pydeps"

# The implementation under test is always /repo/src (current working tree).
for p in (str(PYDEPS), str(REPO / "src")):
    if p in sys.path:
        sys.path.remove(p)
sys.path.insert(0, str(PYDEPS))
sys.path.insert(0, str(REPO / "src"))
for _m in [m for m in sys.modules if m == "rbacx" or m.startswith("rbacx.")]:
    del sys.modules[_m]


def assert_impl_path():
    import rbacx

    f = os.path.realpath(rbacx.__file__)
    if not f.startswith(os.path.realpath(str(REPO / "src"))):
        raise SystemExit(f"rbacx imported from {f}, not from {REPO}/src")


# --------------------------------------------------------------------------
# wire format (mirror of coq/theories/Wire.v)
# --------------------------------------------------------------------------
import datetime as _dt


def _hx(s: str) -> str:
    return "s" + s.encode("utf-8", "surrogatepass").hex()


def enc(v) -> str:
    """Python value -> wire text."""
    out: list[str] = []
    _enc(v, out)
    return " ".join(out)


def _enc(v, out):
    if v is None:
        out.append("n")
    elif v is True:
        out.append("t")
    elif v is False:
        out.append("f")
    elif isinstance(v, int):
        out.append("i" + str(v))
    elif isinstance(v, float):
        if math.isnan(v):
            out.append("dn")
        elif math.isinf(v):
            out.append("dp" if v > 0 else "dm")
        else:
            num, den = v.as_integer_ratio()
            e = -(den.bit_length() - 1)
            out.append("df")
            out.append("i" + str(num))
            out.append("i" + str(e))
        out.append(_hx(repr(v)))
    elif isinstance(v, str):
        out.append(_hx(v))
    elif isinstance(v, (list, tuple)):
        out.append("l" + str(len(v)))
        for x in v:
            _enc(x, out)
    elif isinstance(v, dict):
        out.append("o" + str(len(v)))
        for k, x in v.items():
            if not isinstance(k, str):
                raise TypeError("non-string key")
            out.append(_hx(k))
            _enc(x, out)
    elif isinstance(v, _dt.datetime):
        if v.tzinfo is None:
            us = (v - _dt.datetime(1970, 1, 1)) // _dt.timedelta(microseconds=1)
            out.append("x0")
        else:
            us = (v - _dt.datetime(1970, 1, 1, tzinfo=_dt.timezone.utc)) // _dt.timedelta(microseconds=1)
            out.append("x1")
        out.append("i" + str(us))
    else:
        raise TypeError(f"cannot encode {type(v)}")


class Flt:
    """decoded float (kept exact)."""

    def __init__(self, kind, m=0, e=0, rep=""):
        self.kind, self.m, self.e, self.rep = kind, m, e, rep

    def __repr__(self):
        return f"Flt({self.rep})"

    def __eq__(self, o):
        return isinstance(o, Flt) and (self.kind, self.rep) == (o.kind, o.rep)

    def __hash__(self):
        return hash((self.kind, self.rep))


def dec(s: str):
    toks = s.split(" ")
    v, i = _dec(toks, 0)
    if i != len(toks):
        raise ValueError("trailing tokens: " + s[:200])
    return v


def _dec(t, i):
    x = t[i]
    if x == "n":
        return None, i + 1
    if x == "t":
        return True, i + 1
    if x == "f":
        return False, i + 1
    if x in ("dn", "dp", "dm"):
        rep = bytes.fromhex(t[i + 1][1:]).decode()
        return float(rep), i + 2
    if x == "df":
        rep = bytes.fromhex(t[i + 3][1:]).decode()
        return float(rep), i + 4
    if x in ("x0", "x1"):
        us = int(t[i + 1][1:])
        base = _dt.datetime(1970, 1, 1, tzinfo=_dt.timezone.utc if x == "x1" else None)
        return base + _dt.timedelta(microseconds=us), i + 2
    c = x[0]
    if c == "i":
        return int(x[1:]), i + 1
    if c == "s":
        return bytes.fromhex(x[1:]).decode("utf-8", "surrogatepass"), i + 1
    if c == "l":
        n = int(x[1:])
        i += 1
        out = []
        for _ in range(n):
            v, i = _dec(t, i)
            out.append(v)
        return out, i
    if c == "o":
        n = int(x[1:])
        i += 1
        d = {}
        for _ in range(n):
            k = bytes.fromhex(t[i][1:]).decode("utf-8", "surrogatepass")
            v, i = _dec(t, i + 1)
            d[k] = v
        return d, i
    raise ValueError("bad token " + x)


def run_model(runner: str, lines: list[str], chunk: int = 4000, procs: int = 8) -> list[str]:
    """Run wire lines through the extracted model runner ocaml/modelrun_<runner>; one answer per line."""
    if not lines:
        return []
    MODELRUN = VERIF / "ocaml" / f"modelrun_{runner}"
    if not MODELRUN.exists():
        raise SystemExit(f"model runner {MODELRUN} not built: run setup.sh")
    chunks = [lines[i : i + chunk] for i in range(0, len(lines), chunk)]
    outs: list[list[str] | None] = [None] * len(chunks)
    running: list = []

    def start(ix):
        f = tempfile.TemporaryFile("w+")
        f.write("\n".join(chunks[ix]) + "\n")
        f.seek(0)
        fo = tempfile.TemporaryFile("w+")       # answers go to a file, not a pipe: no child ever waits for the reader
        p = subprocess.Popen([str(MODELRUN)], stdin=f, stdout=fo, text=True)
        running.append((ix, p, f, fo))

    nxt = 0
    while nxt < len(chunks) or running:
        while nxt < len(chunks) and len(running) < procs:
            start(nxt)
            nxt += 1
        ix, p, f, fo = running.pop(0)
        p.wait()
        f.close()
        fo.seek(0)
        so = fo.read()
        fo.close()
        if p.returncode != 0:
            raise RuntimeError(f"modelrun failed rc={p.returncode}")
        res = so.split("\n")
        if res and res[-1] == "":
            res.pop()
        if len(res) != len(chunks[ix]):
            raise RuntimeError("modelrun: line count mismatch")
        outs[ix] = res
    flat: list[str] = []
    for o in outs:
        flat.extend(o)  # type: ignore[arg-type]
    for a in flat:
        if a.startswith("!"):
            raise RuntimeError("model runner rejected a line: " + a)
    _xs_record(runner, lines, flat)
    return flat


# --------------------------------------------------------------------------
# cross-check of extraction: a deterministic sample of the wire lines answered by the extracted OCaml
# runner is re-evaluated inside Coq (vm_compute on <Name>Run.run_line) and must give the same answers
# --------------------------------------------------------------------------
_XS: dict[str, list[tuple[str, str]]] = {}
_XS_SEEN: dict[str, int] = {}
_XS_PID = os.getpid()


def _xs_record(runner, lines, answers):
    if os.getpid() != _XS_PID:          # forked workers: their samples would be lost anyway
        return
    seen = _XS_SEEN.get(runner, 0)
    store = _XS.setdefault(runner, [])
    for l, a in zip(lines, answers):
        seen += 1
        if len(l) < 3000 and len(a) < 3000 and '"' not in l and '"' not in a and (seen <= 60 or seen % 53 == 0):
            if len(store) < 6000:
                store.append((l, a))
    _XS_SEEN[runner] = seen


def _runner_module(runner: str) -> str | None:
    for f in sorted((COQ / "extraction").glob("Extract*.v")):
        m = re.search(r'Extraction\s+"\.\./ocaml/gen/%s\.ml"\s+([A-Za-z0-9_]+)\.run_line' % re.escape(runner), f.read_text())
        if m:
            return m.group(1)
    return None


def extraction_crosscheck(tier: str) -> tuple[dict, list[dict]]:
    """returns (summary for the evidence, list of mismatches)."""
    summary, bad = {}, []
    n = 40 if tier == "quick" else 400
    for runner, store in sorted(_XS.items()):
        mod = _runner_module(runner)
        if not mod or not store:
            continue
        step = max(1, len(store) // n)
        pick = store[::step][:n]
        tmp = tempfile.mkdtemp(prefix="vxs_")
        try:
            src = ["From Coq Require Import String.", f"From Rbacx Require Import {mod}.",
                   "Local Open Scope string_scope."]
            for l, a in pick:
                src.append('Eval vm_compute in (String.eqb (%s.run_line "%s") "%s").' % (mod, l, a))
            (Path(tmp) / "xcases.v").write_text("\n".join(src) + "\n")
            r = subprocess.run(["coqc", "-Q", str(COQ / "theories"), "Rbacx", "xcases.v"], cwd=tmp,
                               capture_output=True, text=True, timeout=900)
            verdicts = re.findall(r"=\s*(true|false)\s*:\s*bool", r.stdout)
            nbad = [i for i, v in enumerate(verdicts) if v != "true"]
            summary[runner] = {"module": mod, "sampled": len(pick), "evaluated_in_coq": len(verdicts),
                               "mismatches": len(nbad), "coqc_rc": r.returncode}
            if r.returncode != 0 or len(verdicts) != len(pick) or nbad:
                bad.append({"runner": runner, "module": mod, "coqc_rc": r.returncode, "stderr": r.stderr[-600:],
                            "line": pick[nbad[0]][0] if nbad else None,
                            "ocaml_answer": pick[nbad[0]][1] if nbad else None})
        except subprocess.TimeoutExpired:
            summary[runner] = {"module": mod, "sampled": len(pick), "timeout": True}
        finally:
            shutil.rmtree(tmp, ignore_errors=True)
    return summary, bad


def model_call(entry: str, *args) -> str:
    return entry + " " + " ".join(enc(a) for a in args)


# --------------------------------------------------------------------------
# proof step
# --------------------------------------------------------------------------
FORBIDDEN = re.compile(
    r"\b(Admitted|admit|Axiom|Axioms|Parameter|Parameters|Conjecture|Conjectures|Abort All"
    r"|bypass_check|Admit Obligations)\b|Unset Guard|Unset Positivity|Unset Universe|type-in-type|impredicative-set"
)


def _strip_comments(src: str) -> str:
    out, depth, i, n = [], 0, 0, len(src)
    while i < n:
        if src.startswith("(*", i):
            depth += 1
            i += 2
        elif src.startswith("*)", i) and depth:
            depth -= 1
            i += 2
        else:
            if not depth:
                out.append(src[i])
            i += 1
    return "".join(out)


def grep_gate() -> list[str]:
    bad = []
    for f in sorted(COQ.rglob("*.v")):
        txt = _strip_comments(f.read_text())
        # also reject top-level Variable/Hypothesis outside sections (none are used at all outside Section)
        for ln, line in enumerate(txt.split("\n"), 1):
            if FORBIDDEN.search(line):
                bad.append(f"{f.relative_to(VERIF)}:{ln}: {line.strip()[:80]}")
    cp = (COQ / "_CoqProject").read_text()
    if re.search(r"type-in-type|impredicative-set|-vos|bypass", cp):
        bad.append("_CoqProject: forbidden flag")
    return bad


def coq_build(timeout=3000) -> tuple[bool, str]:
    """Full .vo build (no-op when up to date), serialised by a file lock."""
    lock = open(VERIF / ".build.lock", "w")
    fcntl.flock(lock, fcntl.LOCK_EX)
    try:
        if not (COQ / "Makefile").exists():
            subprocess.run(["coq_makefile", "-f", "_CoqProject", "-o", "Makefile"], cwd=COQ,
                           capture_output=True, text=True, timeout=120)
        (VERIF / "ocaml" / "gen").mkdir(exist_ok=True)
        r = subprocess.run(["make", "-j", str(os.cpu_count() or 4)], cwd=COQ, capture_output=True,
                           text=True, timeout=timeout)
        ok = r.returncode == 0
        log = (r.stdout + r.stderr)[-4000:]
        if ok:
            b = subprocess.run(["sh", str(VERIF / "ocaml" / "build.sh")], capture_output=True,
                               text=True, timeout=900)
            if b.returncode != 0:
                return False, "ocaml build failed: " + (b.stdout + b.stderr)[-2000:]
        return ok, log
    finally:
        fcntl.flock(lock, fcntl.LOCK_UN)
        lock.close()


def coqchk_step(prop: str) -> dict:
    """Thorough tier: coqchk (the independent checker) over props/<prop>.vo and everything it depends on, with -o
    (axioms / type-in-type / unsafe fixpoints / assumed positivity it finds).  Cached by the content of the sources."""
    h = hashlib.sha256()
    for f in sorted(list((COQ / "theories").glob("*.v")) + [COQ / "props" / f"{prop}.v"]):
        h.update(f.name.encode())
        h.update(f.read_bytes())
    key = h.hexdigest()[:24]
    cache = VERIF / ".buildinfo" / f"coqchk-{prop}.json"
    try:
        c = json.loads(cache.read_text())
        if c.get("key") == key:
            return dict(c, cached=True)
    except Exception:  # noqa: BLE001
        pass
    t0 = time.time()
    try:
        r = subprocess.run(["coqchk", "-silent", "-o", "-Q", "theories", "Rbacx", "-Q", "props", "RbacxProps",
                            f"RbacxProps.{prop}"], cwd=COQ, capture_output=True, text=True,
                           timeout=int(os.environ.get("VERIF_COQCHK_BUDGET", "840")))
        out = (r.stdout + r.stderr)
        rc = r.returncode
    except subprocess.TimeoutExpired:
        # C14's closure re-runs the vm_compute state-space explorations (about 23 minutes in coqchk): beyond the tier's
        # budget the independent re-check is reported as not completed - it never fails the check by itself
        return {"key": key, "rc": None, "ok": None, "timed_out": True, "report": {},
                "note": "coqchk did not finish within the budget (VERIF_COQCHK_BUDGET seconds, default 840); run "
                        "tools/coqchk_all.py for the complete re-check (last complete result: notes/coqchk-results.json)",
                "cmd": f"coqchk -silent -o -Q theories Rbacx -Q props RbacxProps RbacxProps.{prop}"}
    rep = {}
    for label in ("Axioms", "Constants/Inductives relying on type-in-type", "Constants/Inductives relying on unsafe (co)fixpoints",
                  "Inductives whose positivity is assumed"):
        m = re.search(r"\* " + re.escape(label) + r":(.*?)(?=\n\s*\n|\Z)", out, re.S)
        rep[label] = re.sub(r"\s+", " ", m.group(1)).strip() if m else "?"
    res = {"key": key, "rc": rc, "report": rep, "wall_s": round(time.time() - t0, 1),
           "ok": rc == 0 and all(v == "<none>" for k, v in rep.items() if k != "Axioms"),
           "cmd": f"coqchk -silent -o -Q theories Rbacx -Q props RbacxProps RbacxProps.{prop}"}
    if rc != 0:
        res["tail"] = out[-800:]
    try:
        cache.parent.mkdir(exist_ok=True)
        cache.write_text(json.dumps(res))
    except Exception:  # noqa: BLE001
        pass
    return res


def proof_step(prop: str, tier: str = "quick") -> dict:
    """Re-check props/<prop>.v on its own and collect theorems + assumptions."""
    t0 = time.time()
    info: dict = {"file": f"coq/props/{prop}.v", "theorems": [], "assumptions": {}, "ok": False}
    bad = grep_gate()
    if bad:
        info["error"] = "forbidden construct: " + "; ".join(bad[:5])
        return info
    ok, log = coq_build()
    if not ok:
        info["error"] = "coq build failed: " + log[-1500:]
        # try to name the failing file
        m = re.findall(r'File "\./([^"]+)", line (\d+)', log)
        if m:
            info["failing"] = m[-1][0] + ":" + m[-1][1]
        return info
    src = (COQ / "props" / f"{prop}.v").read_text()
    body = _strip_comments(src)
    thms = re.findall(r"^\s*(?:Theorem|Lemma|Corollary)\s+([A-Za-z0-9_']+)", body, re.M)
    exs = re.findall(r"^\s*(?:Example)\s+([A-Za-z0-9_']+)", body, re.M)
    tmp = tempfile.mkdtemp(prefix="vprop_")
    try:
        r = subprocess.run(
            ["coqc", "-Q", "theories", "Rbacx", "-Q", "props", "RbacxProps", "-o",
             os.path.join(tmp, f"{prop}.vo"), f"props/{prop}.v"],
            cwd=COQ, capture_output=True, text=True, timeout=1200)
    finally:
        shutil.rmtree(tmp, ignore_errors=True)
    if r.returncode != 0:
        info["error"] = "theorem file failed: " + (r.stdout + r.stderr)[-1500:]
        return info
    # Print Assumptions blocks, in order of the Print Assumptions commands
    pa_names = re.findall(r"Print Assumptions\s+([A-Za-z0-9_']+)", body)
    blocks = re.split(r"(?=Closed under the global context|Axioms:)", r.stdout)
    blocks = [b.strip() for b in blocks if b.strip().startswith(("Closed", "Axioms:"))]
    for i, nm in enumerate(pa_names):
        info["assumptions"][nm] = blocks[i] if i < len(blocks) else "?"
    info["theorems"] = thms
    info["examples"] = exs
    info["ok"] = True
    info["missing_print_assumptions"] = [t for t in thms if t not in pa_names]
    info["wall_s"] = round(time.time() - t0, 2)
    return info


def merge_coqchk(proof: dict, ck: dict) -> None:
    """thorough tier: result of the independent checker into the proof record (it runs beside the harness)."""
    proof["coqchk"] = ck
    if ck.get("ok") is False:
        proof["ok"] = False
        proof["error"] = "coqchk (independent checker) did not accept the property file's closure: " + json.dumps(ck)[:800]


# --------------------------------------------------------------------------
# known findings
# --------------------------------------------------------------------------
def known_findings(prop: str) -> list[dict]:
    f = VERIF / "KNOWN_FINDINGS.json"
    if not f.exists():
        return []
    data = json.loads(f.read_text())
    return [e for e in data.get("findings", []) if e.get("property") == prop]


# --------------------------------------------------------------------------
# verdict + evidence
# --------------------------------------------------------------------------
BASE_TRUSTED = [
    "Coq 8.16.1 kernel (coqc; vm_compute used in proofs for witnesses and finite sweeps; no native_compute)",
    "hand-written Gallina model of the Python code (coq/theories), tied to /repo/src only by this run's correspondence check",
    "Coq extraction (ExtrOcamlBasic, ExtrOcamlString; no Extract Constant/Inductive of our own) + OCaml 4.13.1 ocamlopt + ocaml/driver.ml (line I/O only)",
    "Python harness: generators, wire encoding (harness/lib.py enc/dec mirrored by coq/theories/Wire.v), canonicalisation",
    "CPython 3.12 semantics for everything the model abstracts (DESIGN.md section 8)",
]


def jsonable(x, depth=0):
    if depth > 40:
        return "<deep>"
    if isinstance(x, float):
        if math.isnan(x) or math.isinf(x):
            return {"$float": repr(x)}
        return x
    if isinstance(x, (str, int, bool)) or x is None:
        if isinstance(x, int) and not isinstance(x, bool) and abs(x) > 2**63:
            return {"$int": str(x)}
        return x
    if isinstance(x, (list, tuple)):
        return [jsonable(y, depth + 1) for y in x]
    if isinstance(x, dict):
        return {str(k): jsonable(v, depth + 1) for k, v in x.items()}
    if isinstance(x, _dt.datetime):
        return {"$datetime": x.isoformat()}
    if isinstance(x, bytes):
        return {"$bytes": x.hex()}
    return {"$repr": repr(x)[:200]}


def unjson(x):
    """inverse of jsonable for replay files."""
    if isinstance(x, dict):
        if set(x) == {"$float"}:
            return float(x["$float"])
        if set(x) == {"$int"}:
            return int(x["$int"])
        if set(x) == {"$datetime"}:
            return _dt.datetime.fromisoformat(x["$datetime"])
        if set(x) == {"$bytes"}:
            return bytes.fromhex(x["$bytes"])
        return {k: unjson(v) for k, v in x.items()}
    if isinstance(x, list):
        return [unjson(v) for v in x]
    return x


class Check:
    def __init__(self, prop: str, tier: str, seed: int):
        self.prop, self.tier, self.seed = prop, tier, seed
        self.t0 = time.time()
        self.rng = random.Random(seed)
        self.evaluations = 0
        self.nontrivial: set = set()
        self.samples: list = []
        self.dist: dict = {}
        self.violations: list[dict] = []   # property failures with a concrete input
        self.corr_breaks: list[dict] = []  # model/impl differ, property not (yet) shown to fail
        self.known_hits: dict[str, int] = {}
        self.notes: list[str] = []
        self.rule = ""
        self.assumptions: list[str] = []
        self.extra: dict = {}
        self.proof: dict | None = None
        self.traces = 0
        self.exhaustive = False
        self.findings = known_findings(prop)

    # ---- bookkeeping
    def count(self, key: str, n: int = 1):
        self.dist[key] = self.dist.get(key, 0) + n

    def sample(self, case, every: int = 1, cap: int = 6):
        if len(self.samples) < cap and (self.evaluations % every == 0 or not self.samples):
            self.samples.append(jsonable(case))

    def mark(self, key, nontrivial: bool = True):
        """record one evaluated case; key identifies it for distinctness."""
        self.evaluations += 1
        if nontrivial:
            if not isinstance(key, (str, int, tuple)):
                key = repr(key)
            self.nontrivial.add(hashlib.blake2b(repr(key).encode(), digest_size=8).digest())

    # ---- outcomes
    def violation(self, clause: str, case, impl=None, model=None, note: str = ""):
        self.violations.append({"clause": clause, "case": jsonable(case), "impl": jsonable(impl),
                                "model": jsonable(model), "note": note})

    def corr_break(self, what: str, case, impl=None, model=None, theorems=()):
        self.corr_breaks.append({"correspondence": what, "case": jsonable(case), "impl": jsonable(impl),
                                 "model": jsonable(model), "theorems_resting_on_it": list(theorems)})

    def known(self, fid: str, case=None, impl=None, model=None):
        """a case inside the narrow class of listed finding `fid` that fails in the listed way.  Only an OPEN entry
        of KNOWN_FINDINGS.json excuses it; a fixed (or unlisted) finding observed again is a violation."""
        f = next((x for x in self.findings if x.get("id") == fid), None)
        if f is None or f.get("status") != "open":
            what = ("listed as fixed in %s" % f.get("commit")) if f else "not listed in KNOWN_FINDINGS.json"
            self.violation("the behaviour of finding %s (%s) is observed on this tree: %s"
                           % (fid, what, (f or {}).get("what", "")), case, impl=impl, model=model)
            return
        self.known_hits[fid] = self.known_hits.get(fid, 0) + 1

    # ---- finish
    def finish(self) -> int:
        rc = 0
        try:
            xs, xbad = extraction_crosscheck(self.tier)
        except Exception as e:  # the cross-check itself must never hide a verdict
            xs, xbad = {"error": repr(e)[:300]}, []
        if xs:
            self.extra.setdefault("extraction_crosscheck_vm_compute", xs)
        for b in xbad:
            self.corr_break("extracted OCaml runner vs vm_compute of %s.run_line inside Coq (trusted component)"
                            % b["module"], {"line": b["line"], "coqc_rc": b["coqc_rc"], "stderr": b["stderr"]},
                            impl=None, model=b["ocaml_answer"],
                            theorems=[f"all of props/{self.prop}.v (the runner no longer computes the proved model)"])
        (VERIF / "replays").mkdir(exist_ok=True)
        (VERIF / "evidence").mkdir(exist_ok=True)
        lines = []
        proof = self.proof or {"ok": False, "error": "proof step not run", "theorems": [], "assumptions": {}}
        nviol = 0
        stamp = f"{self.prop}-{self.tier}-{self.seed}"
        if not proof.get("ok"):
            path = VERIF / "replays" / f"{stamp}-proof.json"
            path.write_text(json.dumps({"property": self.prop, "kind": "proof-obligation-broken",
                                        "theorem_file": proof.get("file"), "failing": proof.get("failing"),
                                        "error": proof.get("error")}, indent=1))
            lines.append(f"VIOLATION property={self.prop} replay={path} no-failing-input-found")
            nviol += 1
        for i, v in enumerate(self.violations[:20]):
            path = VERIF / "replays" / f"{stamp}-{i}.json"
            path.write_text(json.dumps({"property": self.prop, "kind": "property-violation", "seed": self.seed,
                                        **v}, indent=1))
            lines.append(f"VIOLATION property={self.prop} replay={path}")
            nviol += 1
        if self.corr_breaks and not self.violations:
            path = VERIF / "replays" / f"{stamp}-corr.json"
            path.write_text(json.dumps({"property": self.prop, "kind": "correspondence-broken", "seed": self.seed,
                                        "explanation": "model and implementation differ on these cases; the search "
                                                       "found no input on which the property itself fails, but the "
                                                       "theorems listed no longer speak about this code",
                                        "count": len(self.corr_breaks),
                                        "cases": self.corr_breaks[:10]}, indent=1))
            lines.append(f"VIOLATION property={self.prop} replay={path} no-failing-input-found")
            nviol += 1
        # known findings: one line per listed, open finding observed on this tree
        for f in self.findings:
            if f.get("status") == "open" and self.known_hits.get(f["id"]):
                lines.append(f"KNOWN-FINDING: property={self.prop} {f['id']} {f['what']} "
                             f"(observed on {self.known_hits[f['id']]} cases)")
        if nviol:
            rc = 1
        thms = proof.get("theorems", [])
        assum = proof.get("assumptions", {})
        axioms = sorted({a for a in assum.values() if not a.startswith("Closed")})
        tb = list(BASE_TRUSTED)
        if axioms:
            tb.append("axioms reported by Print Assumptions: " + " | ".join(x.replace("\n", " ") for x in axioms))
        else:
            tb.append("Print Assumptions: every theorem of the property file is closed under the global context")
        ev = {
            "property_id": self.prop,
            "tier": self.tier,
            "seed": self.seed,
            "level": "proof",
            "coverage": {
                "obligations": len(thms),
                "discharged": len(thms) if proof.get("ok") else 0,
                "checker_cmd": f"make -C coq (full .vo build) && coqc -Q theories Rbacx -Q props RbacxProps props/{self.prop}.v",
                "trusted_base": tb,
                "theorems": thms,
                "print_assumptions": assum,
                **({"coqchk": proof["coqchk"]} if proof.get("coqchk") else {}),
                "evaluations": self.evaluations,
                "distinct_nontrivial": len(self.nontrivial),
                "rule": self.rule,
                "samples": self.samples[:8],
                "traces_validated_against_impl": self.traces or self.evaluations,
                "exhaustive": self.exhaustive,
                "input_distribution": self.dist,
                "known_findings_observed": self.known_hits,
                "correspondence_breaks": len(self.corr_breaks),
                **self.extra,
            },
            "assumptions": self.assumptions,
            "wall_s": round(time.time() - self.t0, 2),
            "violations": nviol,
        }
        if self.notes:
            ev["coverage"]["notes"] = self.notes
        evdir = VERIF / "evidence"
        if os.path.realpath(str(REPO)) != "/repo":
            # development aid (seeded-change trials against a scratch worktree): never touch the real evidence
            evdir = VERIF / "replays" / "trial-evidence"
            evdir.mkdir(parents=True, exist_ok=True)
            ev["trial_repo"] = str(REPO)
        (evdir / f"{self.prop}.json").write_text(json.dumps(ev, indent=1, default=str))
        for ln in lines:
            print(ln)
        print(f"{self.prop} {self.tier}: theorems={len(thms)} proof_ok={proof.get('ok')} "
              f"evaluations={self.evaluations} distinct_nontrivial={len(self.nontrivial)} "
              f"violations={nviol} known={sum(self.known_hits.values())} wall={ev['wall_s']}s")
        sys.stdout.flush()
        return rc
