"""C15 — DefaultInMemoryCache is a linearizable LRU map with TTL and hard capacity.

Sequential part: operation sequences (get / set with ttl None, 0, negative, positive /
delete / clear / clock advance) are run on DefaultInMemoryCache with time.monotonic replaced
by a scripted clock, and on the extracted Coq model Cache.run; compared per operation:
the answer, the size and (while `_data` is observable) the whole ordered content with
expiry times.  The property is judged on the implementation's answers by an independent
history checker (capacity, get-soundness, the LRU rank bound, exact LRU when nothing can
expire: the clauses of props/C15.v); a difference the checker cannot turn into a clause
failure is reported as a broken correspondence.

Concurrent part: 2-8 real threads run short programs against one cache; call/return
events are recorded in one global order; every recorded history is searched for a
linearisation (Wing & Gong) and the linearisation found is re-run through the extracted
model.  Long free-running rounds are checked for the necessary conditions only (no
operation raises, size <= capacity, every hit returns a value that was set for that key).
Static support: an ast walk confirming that every public method touches `self` state only
inside one `with self._lock:` block.
"""
import ast
import itertools
import json
import sys
import threading
import time

import lib

UNIT = 4  # model clock unit = 1/4 second; all clock readings and TTLs are multiples of it
KEYS = ["a", "b", "c"]
TTLS = [None, 0, -1, 1, 2]
ALPHABET = ([["get", k] for k in KEYS] + [["set", k, t] for k in KEYS for t in TTLS]
            + [["del", k] for k in KEYS] + [["clear"], ["tick", 1], ["tick", 2]])
THEOREMS = ["c15_capacity", "c15_get_sound", "c15_lru", "c15_lru_after_hit", "c15_exact_lru_without_expiry",
            "c15_recency_order", "c15_nodup_keys", "c15_contract"]


# --------------------------------------------------------------------------
# units, clocks
# --------------------------------------------------------------------------
def units(x):
    """seconds (int / dyadic float / bool) -> integer clock units, exactly."""
    y = float(x) * UNIT
    if y != int(y):
        raise ValueError(f"time {x!r} is not a multiple of 1/{UNIT}")
    return int(y)


def ttl_units(ttl):
    return None if ttl is None else units(ttl)


class ScriptedClock:
    """time.monotonic() replacement: returns the scripted readings of the current operation in
    order (the last one again if the code asks more often)."""

    def __init__(self):
        self.script = [0.0]
        self.i = 0
        self.calls = 0

    def load(self, readings):
        self.script, self.i = readings, 0

    def __call__(self):
        v = self.script[min(self.i, len(self.script) - 1)]
        self.i += 1
        self.calls += 1
        return v


class patched_clock:
    """test-side control of the clock the cache reads: time.monotonic (and a `monotonic` name
    bound in the cache module, should it import the function directly)."""

    def __init__(self, fn):
        self.fn = fn

    def __enter__(self):
        import rbacx.core.cache as cm

        self.cm = cm
        self.real = time.monotonic
        time.monotonic = self.fn
        self.had = getattr(cm, "monotonic", None)
        if self.had is not None:
            cm.monotonic = self.fn
        return self

    def __exit__(self, *a):
        time.monotonic = self.real
        if self.had is not None:
            self.cm.monotonic = self.had


# --------------------------------------------------------------------------
# sequential cases
# --------------------------------------------------------------------------
def model_ops(case):
    """case ops -> model ops (clock readings explicit, in units) and the float readings for the impl."""
    now = case.get("t0", 0)
    mops, reads = [], []
    case["_at"] = at = []
    for ci, o in enumerate(case["ops"]):
        kind = o[0]
        if kind != "tick":
            at.append(ci)
        if kind == "tick":
            now = now + o[1]
        elif kind == "get":
            mops.append(["g", o[1], units(now)])
            reads.append([float(now)])
        elif kind == "set":
            mops.append(["s", o[1], o[2], ttl_units(o[3]), units(now), units(now)])
            reads.append([float(now)])
        elif kind == "set2":  # the clock advances by o[4] between the expiry reading and the purge reading
            t2 = now + o[4]
            mops.append(["s", o[1], o[2], ttl_units(o[3]), units(now), units(t2)])
            pos = o[3] is not None and o[3] > 0
            reads.append([float(now), float(t2)] if pos else [float(t2)])
            now = t2
        elif kind == "del":
            mops.append(["d", o[1]])
            reads.append([float(now)])
        elif kind == "clear":
            mops.append(["c"])
            reads.append([float(now)])
        else:
            raise ValueError("bad op " + repr(o))
    return mops, reads


def norm_result(v):
    return ["miss"] if v is None else ["hit", v]


def snapshot(cache):
    d = getattr(cache, "_data", None)
    if d is None:
        return None
    try:
        out = []
        for k, e in d.items():
            x = e.expires_at
            out.append([k, e.value, None if x is None else (int(x * UNIT) if float(x * UNIT) == int(x * UNIT) else ["inexact", repr(x)])])
        return out
    except Exception:  # noqa: BLE001
        return None


def run_impl_seq(case, clock, full):
    """-> (results, per-op states or sizes (None when `_data` cannot be read), final state)"""
    from rbacx.core.cache import DefaultInMemoryCache

    mops, reads = case["_mops"], case["_reads"]
    # "default_ctor": the cache is built without arguments; the case's cap (2048) is what the model is given
    cache = DefaultInMemoryCache() if case.get("default_ctor") else DefaultInMemoryCache(case["cap"])
    res, sts = [], []
    for m, rd in zip(mops, reads):
        clock.load(rd)
        try:
            t = m[0]
            if t == "g":
                r = norm_result(cache.get(m[1]))
            elif t == "s":
                # the ttl handed to the implementation is the case's own (int / float / bool / None)
                r0 = cache.set(m[1], m[2], m[6]) if len(m) > 6 else cache.set(m[1], m[2], None)
                r = ["done"] if r0 is None else ["returned", repr(r0)]
            elif t == "d":
                r0 = cache.delete(m[1])
                r = ["done"] if r0 is None else ["returned", repr(r0)]
            else:
                r0 = cache.clear()
                r = ["done"] if r0 is None else ["returned", repr(r0)]
        except Exception as e:  # noqa: BLE001
            r = ["raise", type(e).__name__]
        res.append(r)
        if full:
            sts.append(snapshot(cache))
        else:
            d = getattr(cache, "_data", None)
            sts.append(len(d) if d is not None else None)
    return res, sts, snapshot(cache)


def prepare(case):
    mops, reads = model_ops(case)
    # remember the original ttl for the implementation call (position 6, not sent to the model)
    sets = [o for o in case["ops"] if o[0] in ("set", "set2")]
    si = 0
    for m in mops:
        if m[0] == "s":
            m.append(sets[si][3])
            si += 1
    case["_mops"], case["_reads"] = mops, reads


def model_line(case, full):
    return lib.model_call("cache.run", case["cap"], [m[:6] if m[0] == "s" else m for m in case["_mops"]], full)


def norm_model_results(rs):
    out = []
    for r in rs:
        if r[0] == "hit" and r[1] is None:
            out.append(["miss"])  # a stored None cannot be told from a miss through get()
        elif r[0] == "raise":
            out.append(["raise", r[1]])
        else:
            out.append(r)
    return out


# --------------------------------------------------------------------------
# the property, judged on the implementation's answers (independent of the model)
# --------------------------------------------------------------------------
def judge(cap, mops, res, sizes):
    """-> list of (clause, op index, detail).  Mirrors the statements of props/C15.v:
    capacity, get-soundness, LRU rank bound; works on the history alone."""
    viol = []
    live = {}       # key -> [value, expiry(units)|None, index of last touch]
    touches = []    # (index, key): sets that returned, gets that hit
    for i, (o, r) in enumerate(zip(mops, res)):
        if sizes is not None and sizes[i] is not None:
            n = sizes[i] if isinstance(sizes[i], int) else len(sizes[i])
            if n > max(cap, 0):
                viol.append(("capacity", i, f"{n} entries held, capacity {cap}"))
        if r[0] == "raise" and cap >= 0:
            viol.append(("total", i, f"operation raised {r[1]}"))
        if r[0] == "returned":
            viol.append(("total", i, f"operation returned {r[1]} instead of None"))
        t = o[0]
        if t == "g":
            k, now = o[1], o[2]
            ent = live.get(k)
            if r[0] == "hit":
                if ent is None:
                    viol.append(("get_sound", i, f"hit for {k!r} which is not stored (never set, deleted or cleared)"))
                elif ent[0] != r[1] or type(ent[0]) is not type(r[1]):
                    viol.append(("get_sound", i, f"hit returns {r[1]!r}, latest set stored {ent[0]!r}"))
                elif ent[1] is not None and not now < ent[1]:
                    viol.append(("get_sound", i, f"hit at {now} for an entry expired at {ent[1]} (clock units)"))
                else:
                    ent[2] = i
                    touches.append((i, k))
            elif r[0] == "miss" and ent is not None and ent[0] is None and (ent[1] is None or now < ent[1]):
                touches.append((i, k))  # a stored None: this may have been a hit (it then counts as a touch)
            elif r[0] == "miss" and ent is not None and (ent[1] is None or now < ent[1]):
                others = {k2 for (j, k2) in touches if j > ent[2] and k2 != k}
                if len(others) < cap:
                    viol.append(("lru", i, f"{k!r} lost although only {len(others)} other keys were stored or found "
                                           f"since it was last stored or found (capacity {cap}), not expired, not deleted"))
        elif t == "s":
            if r[0] == "done":
                ttl, t1 = o[3], o[4]
                live[o[1]] = [o[2], (t1 + ttl) if (ttl is not None and ttl > 0) else None, i]
                touches.append((i, o[1]))
            else:
                live.pop(o[1], None)
        elif t == "d":
            live.pop(o[1], None)
        else:
            live.clear()
    return viol


def can_expire(mops):
    return any(o[0] == "s" and o[3] is not None and o[3] > 0 for o in mops)


# --------------------------------------------------------------------------
# python mirror of the model, used only to SEARCH for linearisations (every linearisation
# found is re-run through the extracted model; see check_conc)
# --------------------------------------------------------------------------
def ref_step(cap, st, o):
    """st: tuple of (k, v, exp).  -> (st', result) ; result None = the operation would have needed
    a clock reading it did not take."""
    t = o[0]
    if t == "g":
        k, now = o[1], o[2]
        for idx, e in enumerate(st):
            if e[0] == k:
                if e[2] is not None:
                    if now is None:
                        return st, None
                    if e[2] <= now:
                        return st[:idx] + st[idx + 1:], ["miss"]
                return st[:idx] + st[idx + 1:] + (e,), ["hit", e[1]]
        return st, ["miss"]
    if t == "s":
        k, v, ttl, t1, t2 = o[1], o[2], o[3], o[4], o[5]
        exp = None
        if ttl is not None and ttl > 0:
            if t1 is None:
                return st, None
            exp = t1 + ttl
        s1 = tuple(e for e in st if e[0] != k) + ((k, v, exp),)
        while len(s1) > cap:
            if not s1:
                return (), ["raise", "KeyError"]
            s1 = s1[1:]
        if t2 is None:
            if any(e[2] is not None for e in s1[:128]):
                return st, None
            return s1, ["done"]
        dead = {e[0] for e in s1[:128] if e[2] is not None and e[2] <= t2}
        return tuple(e for e in s1 if e[0] not in dead), ["done"]
    if t == "d":
        return tuple(e for e in st if e[0] != o[1]), ["done"]
    return (), ["done"]


def ref_run(cap, mops):
    st, out = (), []
    for o in mops:
        st, r = ref_step(cap, st, o)
        out.append(r)
    return out, st


# --------------------------------------------------------------------------
# check_cases
# --------------------------------------------------------------------------
def check_cases(chk, cases, replay=False):
    seq = [c for c in cases if c.get("kind", "seq") == "seq"]
    conc = [c for c in cases if c.get("kind") == "conc"]
    other = [c for c in cases if c.get("kind") == "ast"]
    if seq:
        check_seq(chk, seq, replay)
    for c in conc:
        check_conc(chk, c, replay)
    for c in other:
        ast_check(chk, as_case=True)


def strip(case):
    return {k: v for k, v in case.items() if not k.startswith("_")}


def check_seq(chk, cases, replay=False, probing=True):
    for c in cases:
        prepare(c)
    fulls = [len(c["_mops"]) <= 12 or bool(c.get("full")) for c in cases]
    outs = lib.run_model("cache", [model_line(c, f) for c, f in zip(cases, fulls)])
    clock = ScriptedClock()
    with patched_clock(clock):
        impl = [run_impl_seq(c, clock, f) for c, f in zip(cases, fulls)]
    for c, full, o, (res, sts, fin) in zip(cases, fulls, outs, impl):
        m = lib.dec(o)
        if not isinstance(m, list) or len(m) != 3:
            raise RuntimeError("model runner: unexpected answer " + repr(m)[:200])
        mres, msts, mfin = norm_model_results(m[0]), m[1], m[2]
        cap, mops = c["cap"], c["_mops"]
        nops = len(mops)
        chk.mark(("seq", cap, c.get("t0", 0), json.dumps(c["ops"], sort_keys=True, default=repr)),
                 any(r[0] == "hit" for r in res) or any(o2[0] in ("g",) for o2 in mops) and nops >= 2)
        chk.count("fam:" + c.get("fam", "?"))
        chk.count("cap:%s" % (cap if cap <= 3 else ">3"))
        chk.count("len:%s" % (nops if nops <= 8 else ("9-64" if nops <= 64 else ">64")))
        for r in res:
            chk.count("result:" + r[0])
        chk.sample({"cap": cap, "ops": c["ops"], "impl_results": res, "model_results": mres,
                    "impl_final": fin, "model_final": mfin}, every=7919)
        if nops <= 64:  # the search mirror must be the same function as the extracted model
            rres, rst = ref_run(cap, [x[:6] for x in mops])
            if norm_model_results(rres) != mres or [list(e) for e in rst] != mfin:
                raise RuntimeError("harness fault: python mirror of the model differs from the extracted model on "
                                   + json.dumps(strip(c), default=repr)[:400])
        # 1. the property itself, on the implementation's answers
        viol = judge(cap, mops, res, sts)
        if not can_expire(mops) and cap >= 0 and res != mres:
            i = next(i for i, (a, b) in enumerate(zip(res, mres)) if a != b)
            viol.append(("exact_lru", i, f"no entry can expire, answers differ from the LRU map at operation {i}: "
                                        f"impl {res[i]!r}, LRU {mres[i]!r}"))
        if cap < 0 and res != mres:
            viol.append(("negative_capacity", 0, "behaviour on a negative maxsize differs from the modelled KeyError"))
        if viol:
            cl, i, detail = viol[0]
            chk.violation(f"{cl}: {detail} (operation #{i}; clauses failed: {sorted({v[0] for v in viol})})",
                          strip(c), impl={"results": res, "sizes_or_states": sts if nops <= 12 else None, "final": fin},
                          model={"results": mres, "final": mfin})
            continue
        # 2. correspondence on the observables
        diff = None
        if res != mres:
            diff = "answers"
        elif fin is not None and fin != mfin:
            diff = "final content/order/expiry of _data"
        elif all(s is not None for s in sts) and sts != msts:
            diff = "content/order/expiry (or size) of _data after some operation"
        if fin is None:
            chk.count("state_unobservable")
        if diff:
            # keep the shortest prefix that already differs
            cut = nops
            for i in range(nops):
                if res[i] != mres[i] or (sts[i] is not None and sts[i] != msts[i]):
                    cut = i + 1
                    break
            small = dict(strip(c))
            if cut < nops:
                small["ops"] = c["ops"][: c["_at"][cut - 1] + 1]
            chk.count("differs:" + diff.split(" ")[0])
            found = None
            if probing and not replay and cut <= 64 and chk.extra.get("probes", 0) < 4:
                chk.extra["probes"] = chk.extra.get("probes", 0) + 1
                found = probe(chk, small)
            if found is None and len(chk.corr_breaks) < 12:
                chk.corr_break("DefaultInMemoryCache vs Cache.run: " + diff + f" (first at operation #{cut - 1})", small,
                               impl={"results": res[:cut], "state_after": sts[cut - 1] if cut else None,
                                     "final": fin if cut == nops else None},
                               model={"results": mres[:cut], "state_after": msts[cut - 1] if cut else None,
                                      "final": mfin if cut == nops else None},
                               theorems=THEOREMS)


def probe(chk, case):
    """model and implementation differ without a clause failing: look for a continuation on which
    the property itself fails (lookups of every key now and later, fresh keys up to the capacity)."""
    base = [o for o in case["ops"]]
    keys = sorted({o[1] for o in base if len(o) > 1 and isinstance(o[1], str)})[:6] or ["a"]
    cap = case["cap"]
    n = 1000
    tails = []
    gets = [["get", k] for k in keys]
    tails.append(gets)
    tails.append([["tick", 1]] + gets)
    for fresh in range(1, min(max(cap, 1), 6) + 1):
        fill = [["set", f"~f{j}", n + j, None] for j in range(fresh)]
        tails.append(fill + gets)
        tails.append(fill + [["tick", 0.25]] + gets)
    for k in keys:
        tails.append([["get", k]] + [["set", "~g", n, None]] + gets)
    ext = []
    for tl in tails:
        ext.append({"kind": "seq", "cap": cap, "t0": case.get("t0", 0), "ops": base + tl, "fam": "probe"})
    # and neighbours of the case: one operation dropped, then the probes
    for drop in range(len(base) - 1):
        for tl in tails[:2]:
            ext.append({"kind": "seq", "cap": cap, "t0": case.get("t0", 0), "ops": base[:drop] + base[drop + 1:] + tl,
                        "fam": "probe"})
        if len(ext) > 300:
            break
    sub = lib.Check(chk.prop, chk.tier, chk.seed)
    sub.findings = chk.findings
    check_seq(sub, ext, probing=False)
    chk.count("probe_runs", len(ext))
    if sub.violations:
        v = sub.violations[0]
        chk.violations.append(v)
        return v
    return None


# --------------------------------------------------------------------------
# generators
# --------------------------------------------------------------------------
def enum_cases(length, caps, stride=1, offset=0):
    n = 0
    for cap in caps:
        for seq in itertools.product(ALPHABET, repeat=length):
            n += 1
            if (n + offset) % stride:
                continue
            ops = []
            for i, o in enumerate(seq):
                if o[0] == "set":
                    ops.append(["set", o[1], i + 1, o[2]])
                else:
                    ops.append(o)
            yield {"kind": "seq", "cap": cap, "ops": ops, "fam": f"enum{length}"}


def random_case(rng, lo, hi, fam):
    nkeys = rng.choice([1, 2, 3, 3, 4, 5])
    keys = ["a", "b", "c", "dé", ""][:nkeys]
    cap = rng.choice([0, 1, 1, 2, 2, 3, 3, 4, 5, -1]) if rng.random() < 0.97 else rng.choice([-3, 7, 2048])
    ttls = [None, None, 0, -1, -0.5, 1, 1, 2, 0.25, 0.5, 1.5, 3, True, False, 100]
    ticks = [0.25, 0.5, 0.75, 1, 1, 2, 3, 100]
    n = rng.randint(lo, hi)
    ops = []
    for i in range(n):
        x = rng.random()
        k = rng.choice(keys)
        if x < 0.30:
            ops.append(["get", k])
        elif x < 0.60:
            v = i + 1 if rng.random() < 0.9 else rng.choice([None, "v", [1, 2], {"d": 1}, 0, False])
            if rng.random() < 0.15:
                ops.append(["set2", k, v, rng.choice(ttls), rng.choice([0.25, 0.5, 1, 2])])
            else:
                ops.append(["set", k, v, rng.choice(ttls)])
        elif x < 0.70:
            ops.append(["del", k])
        elif x < 0.74:
            ops.append(["clear"])
        else:
            ops.append(["tick", rng.choice(ticks)])
    return {"kind": "seq", "cap": cap, "t0": rng.choice([0, 0, 1000, 2 ** 20, 0.75]), "ops": ops, "fam": fam}


def bigkey_case(rng, scale):
    """many keys: exercises the 128-entry purge prefix, eviction under a long expired prefix."""
    cap = rng.choice([100, 127, 128, 129, 130, 200, 256, 300, 1000, 2048])
    ops = []
    style = rng.choice(["wave", "wave", "mixed", "random"])
    nk = 1000
    v = 0
    if style in ("wave", "mixed"):
        n1 = rng.choice([100, 127, 128, 129, 130, 200, 256, 257, 300, 400])
        ttl = rng.choice([1, 2, 0.5])
        for i in range(n1):
            v += 1
            t = ttl if (style == "wave" or rng.random() < 0.6) else None
            ops.append(["set", f"k{i}", v, t])
            if rng.random() < 0.02:
                ops.append(["tick", 0.25])
        ops.append(["tick", rng.choice([2, 3])])
        for j in range(rng.choice([1, 2, 3, 5, 40])):
            v += 1
            ops.append(["set", f"n{j}", v, rng.choice([None, 5])])
            if rng.random() < 0.3:
                ops.append(["get", f"k{rng.randrange(n1)}"])
    m = int(scale * rng.choice([100, 300, 600]))
    for i in range(m):
        x = rng.random()
        k = f"k{rng.randrange(nk)}"
        if x < 0.55:
            v += 1
            ops.append(["set", k, v, rng.choice([None, 1, 1, 2, 0.5, 0, 50])])
        elif x < 0.85:
            ops.append(["get", k])
        elif x < 0.90:
            ops.append(["del", k])
        elif x < 0.905:
            ops.append(["clear"])
        else:
            ops.append(["tick", rng.choice([0.25, 0.5, 1, 2])])
    return {"kind": "seq", "cap": cap, "ops": ops, "fam": "bigkeys:" + style, "full": False}


def default_ctor_case(rng):
    """DefaultInMemoryCache() without arguments holds 2048 entries."""
    n = 2048 + rng.choice([1, 2, 60])
    ops = [["set", f"k{i}", i, None] for i in range(n)]
    ops += [["get", "k0"], ["get", f"k{n - 2048 - 1}"], ["get", f"k{n - 2048}"], ["get", f"k{n - 1}"]]
    return {"kind": "seq", "cap": 2048, "default_ctor": True, "ops": ops, "fam": "default_ctor", "full": False}


# --------------------------------------------------------------------------
# concurrency
# --------------------------------------------------------------------------
def conc_program(rng, small=True):
    nthreads = rng.choice([2, 2, 3, 3, 4, 5, 6, 8])
    cap = rng.choice([1, 1, 2, 2, 3])
    keys = ["a", "b", "c"][:rng.choice([1, 2, 2, 3])]
    per = rng.choice([1, 2, 2, 3]) if small else rng.choice([30, 60, 120])
    if small:
        while nthreads * per > 14:
            per -= 1
    progs = []
    for t in range(nthreads):
        p = []
        for i in range(per):
            x = rng.random()
            k = rng.choice(keys)
            if x < 0.42:
                p.append(["get", k])
            elif x < 0.84:
                p.append(["set", k, t * 1000 + i + 1, rng.choice([None, None, 0, 0.25, 0.5, 1, 2])])
            elif x < 0.95:
                p.append(["del", k])
            else:
                p.append(["clear"])
        progs.append(p)
    return {"kind": "conc", "cap": cap, "threads": progs, "sleepy": rng.random() < 0.6,
            "pace": rng.choice([2, 8, 32, 128]), "small": small}


def conc_roles(rng):
    """long adversarial round: each thread has a role (lookups of entries with a deadline — these read the
    clock in the middle of the operation —, stores, deletes, clears) on one or two keys, slow clock."""
    nthreads = rng.choice([2, 3, 4, 6, 8])
    keys = ["a", "b"][:rng.choice([1, 1, 2])]
    roles = ["get", "set"] + [rng.choice(["get", "set", "del", "del", "clear", "mix"]) for _ in range(nthreads - 2)]
    rng.shuffle(roles)
    n = rng.choice([40, 80, 150])
    progs = []
    for t, role in enumerate(roles):
        p = []
        for i in range(n):
            k = rng.choice(keys)
            r = role if role != "mix" else rng.choice(["get", "set", "del", "clear"])
            if rng.random() < 0.1:
                r = rng.choice(["get", "set"])
            if r == "get":
                p.append(["get", k])
            elif r == "set":
                p.append(["set", k, t * 1000 + i + 1, rng.choice([1, 2, 4, 4, None])])
            elif r == "del":
                p.append(["del", k])
            else:
                p.append(["clear"])
        progs.append(p)
    return {"kind": "conc", "cap": rng.choice([1, 2, 2, 3]), "threads": progs, "sleepy": True,
            "pace": rng.choice([64, 256]), "small": False, "roles": roles}


def run_threads(case):
    """one free-running round -> list of events in global order:
       ("call", tid, idx) / ("ret", tid, idx, result, clock readings made by the operation)"""
    from rbacx.core.cache import DefaultInMemoryCache

    cache = DefaultInMemoryCache(case["cap"])
    events = []
    ticks = itertools.count()
    tl = threading.local()
    pace = case.get("pace", 2)
    sleepy = case.get("sleepy", False)
    sleep = time.sleep

    def fake_monotonic():
        n = next(ticks)
        v = (n // pace) * 0.25
        rd = getattr(tl, "reads", None)
        if rd is not None:
            rd.append(v)
            if sleepy and n % 2 == 0:
                sleep(0)  # a slow clock: gives other threads the chance to run while this operation is under way
        return v

    progs = case["threads"]
    barrier = threading.Barrier(len(progs))
    errors = []

    def worker(tid, prog):
        try:
            barrier.wait()
            for idx, o in enumerate(prog):
                tl.reads = rd = []
                events.append(("call", tid, idx))
                try:
                    if o[0] == "get":
                        r = norm_result(cache.get(o[1]))
                    elif o[0] == "set":
                        r0 = cache.set(o[1], o[2], o[3])
                        r = ["done"] if r0 is None else ["returned", repr(r0)]
                    elif o[0] == "del":
                        r0 = cache.delete(o[1])
                        r = ["done"] if r0 is None else ["returned", repr(r0)]
                    else:
                        r0 = cache.clear()
                        r = ["done"] if r0 is None else ["returned", repr(r0)]
                except Exception as e:  # noqa: BLE001
                    r = ["raise", type(e).__name__]
                events.append(("ret", tid, idx, r, list(rd)))
                tl.reads = None
        except Exception as e:  # noqa: BLE001
            errors.append(repr(e))

    ths = [threading.Thread(target=worker, args=(i, p), daemon=True) for i, p in enumerate(progs)]
    with patched_clock(fake_monotonic):
        for t in ths:
            t.start()
        for t in ths:
            t.join(30)
    stuck = [t for t in ths if t.is_alive()]
    return events, cache, errors, stuck


def history_ops(case, events):
    """events -> operations with call/return positions, model op (readings in units) and result."""
    progs = case["threads"]
    pos = {}
    ops = []
    for p, e in enumerate(events):
        if e[0] == "call":
            pos[(e[1], e[2])] = p
        else:
            _, tid, idx, r, reads = e
            o = progs[tid][idx]
            ru = [units(x) for x in reads]
            if o[0] == "get":
                m = ["g", o[1], ru[-1] if ru else None]
            elif o[0] == "set":
                positive = o[3] is not None and o[3] > 0
                t1 = ru[0] if (positive and ru) else None
                t2 = ru[-1] if (ru and (len(ru) > 1 or not positive)) else None
                m = ["s", o[1], o[2], ttl_units(o[3]), t1, t2]
            elif o[0] == "del":
                m = ["d", o[1]]
            else:
                m = ["c"]
            ops.append({"tid": tid, "idx": idx, "call": pos[(tid, idx)], "ret": p, "mop": m, "res": r})
    return ops


def find_linearisation(cap, ops, budget=400000):
    """Wing & Gong search with memoisation on (set of linearised operations, model state).
    -> list of indices into ops, or None (not linearisable), or "budget"."""
    n = len(ops)
    full = (1 << n) - 1
    seen = set()
    steps = [0]

    def dfs(mask, st):
        if mask == full:
            return []
        key = (mask, st)
        if key in seen:
            return None
        seen.add(key)
        steps[0] += 1
        if steps[0] > budget:
            raise TimeoutError
        pend = [i for i in range(n) if not mask >> i & 1]
        first_ret = min(ops[i]["ret"] for i in pend)
        for i in pend:
            if ops[i]["call"] > first_ret:
                continue
            st2, r = ref_step(cap, st, ops[i]["mop"])
            if r is None or r != ops[i]["res"]:
                continue
            rest = dfs(mask | 1 << i, st2)
            if rest is not None:
                return [i] + rest
        return None

    try:
        return dfs(0, ())
    except TimeoutError:
        return "budget"
    except RecursionError:
        return "budget"


def all_orders(ops, limit):
    """every total order of the operations that respects real time (a returned before b called)."""
    n = len(ops)
    out = []

    def rec(done, order):
        if len(out) > limit:
            return
        if len(order) == n:
            out.append(list(order))
            return
        pend = [i for i in range(n) if i not in done]
        first_ret = min(ops[i]["ret"] for i in pend)
        for i in pend:
            if ops[i]["call"] <= first_ret:
                done.add(i)
                order.append(i)
                rec(done, order)
                order.pop()
                done.discard(i)

    rec(set(), [])
    return out


def wire_mop(m):
    if m[0] == "g":
        return ["g", m[1], 0 if m[2] is None else m[2]]
    if m[0] == "s":
        t2 = m[5] if m[5] is not None else (m[4] if m[4] is not None else 0)
        t1 = m[4] if m[4] is not None else t2
        return ["s", m[1], m[2], m[3], t1, t2]
    return m


def model_accepts(cap, ops, orders):
    """re-run candidate linearisations through the extracted model; -> list of bool"""
    lines = [lib.model_call("cache.run", cap, [wire_mop(ops[i]["mop"]) for i in order], False) for order in orders]
    outs = lib.run_model("cache", lines)
    ok = []
    for order, o in zip(orders, outs):
        mres = norm_model_results(lib.dec(o)[0])
        ok.append(mres == [ops[i]["res"] for i in order])
    return ok


def necessary_conditions(case, events, cache):
    """cheap consequences of linearisability (c15_linearizable + the sequential theorems), for long runs."""
    bad = []
    sets = {}
    for p in case["threads"]:
        for o in p:
            if o[0] == "set":
                sets.setdefault(o[1], set()).add(o[2])
    for e in events:
        if e[0] == "ret":
            r = e[3]
            o = case["threads"][e[1]][e[2]]
            if r[0] in ("raise", "returned"):
                bad.append(f"thread {e[1]} op {e[2]} {o!r}: {r!r}")
            elif r[0] == "hit" and r[1] not in sets.get(o[1], ()):
                bad.append(f"thread {e[1]} op {e[2]} {o!r}: hit with a value never set for that key: {r[1]!r}")
    d = getattr(cache, "_data", None)
    if d is not None:
        try:
            n = len(d)
            ks = list(d.keys())
            if n > max(case["cap"], 0):
                bad.append(f"{n} entries held at rest, capacity {case['cap']}")
            if len(ks) != len(set(ks)) or len(ks) != n:
                bad.append("corrupted ordered dict: keys()/len disagree")
        except Exception as e:  # noqa: BLE001
            bad.append("ordered dict unreadable at rest: " + repr(e))
    return bad


def check_conc(chk, case, replay=False):
    """runs case['rounds'] free-running rounds of the thread programs; every history must be linearisable."""
    rounds = int(case.get("rounds", 1)) * (2000 if replay else 1)
    old = sys.getswitchinterval()
    sys.setswitchinterval(case.get("switch", 1e-6))
    pend = []
    t_start = time.time()
    try:
        for rnd in range(rounds):
            if replay and time.time() - t_start > 40:  # a replay repeats the round until it fails or 40 s pass
                break
            events, cache, errors, stuck = run_threads(case)
            nthreads = len(case["threads"])
            chk.mark(("conc", rnd, json.dumps(case["threads"], default=repr), chk.evaluations), True)
            chk.count("conc:threads=%d" % nthreads)
            if stuck or errors:
                chk.violation("linearizable: a thread did not finish (deadlock?) or the harness thread failed: %r"
                              % (errors[:2],), strip(case), impl={"events": events[-20:]})
                return
            bad = necessary_conditions(case, events, cache)
            if bad:
                chk.violation("linearizable: " + bad[0] + " — no sequential run of the model does this "
                              "(c15_linearizable with c15_get_sound / c15_capacity; set/get never raise for capacity >= 0)",
                              strip(case), impl={"events": events if len(events) < 80 else events[-40:]},
                              note="concurrent free-running round %d; replay re-runs the same thread programs" % rnd)
                return
            if not case.get("small", True):
                chk.count("conc:long_round")
                continue
            ops = history_ops(case, events)
            overl = sum(1 for a in ops for b in ops if a["call"] < b["call"] < a["ret"])
            chk.count("conc:overlapping_pairs=%s" % ("0" if overl == 0 else "1-5" if overl <= 5 else ">5"))
            lin = find_linearisation(case["cap"], ops)
            if lin == "budget":
                chk.count("conc:search_budget_exhausted")
                continue
            if lin is None:
                orders = all_orders(ops, 30000)
                verdict = "not confirmed by the extracted model (too many orders)"
                if len(orders) <= 30000:
                    acc = model_accepts(case["cap"], ops, orders)
                    if any(acc):
                        chk.corr_break("harness reference model (search) disagrees with the extracted model on a history",
                                       strip(case), impl={"ops": ops}, theorems=["c15_linearizable"])
                        return
                    verdict = f"confirmed: none of the {len(orders)} real-time-consistent orders is accepted by the extracted model"
                chk.violation("linearizable: a recorded concurrent history has no linearisation (" + verdict + ")",
                              strip(case), impl={"history": [{k: o[k] for k in ("tid", "idx", "call", "ret", "mop", "res")} for o in ops]},
                              note="replay re-runs the same thread programs for many rounds")
                return
            chk.count("conc:linearisable")
            pend.append((ops, lin))
    finally:
        sys.setswitchinterval(old)
    # every linearisation found by the search is checked by the extracted model
    if pend:
        lines = [lib.model_call("cache.run", case["cap"], [wire_mop(ops[i]["mop"]) for i in lin], False) for ops, lin in pend]
        for (ops, lin), o in zip(pend, lib.run_model("cache", lines)):
            mres = norm_model_results(lib.dec(o)[0])
            if mres != [ops[i]["res"] for i in lin]:
                chk.corr_break("harness reference model (search) disagrees with the extracted model on a linearisation",
                               strip(case), impl={"ops": ops, "order": lin}, model=mres, theorems=["c15_linearizable"])
                return


# --------------------------------------------------------------------------
# static support: lock discipline
# --------------------------------------------------------------------------
def ast_lock_discipline():
    """every public method of DefaultInMemoryCache touches self.<anything but _lock> only inside ONE
    `with self._lock:` block, and private helpers are only called from inside such blocks."""
    src = (lib.REPO / "src" / "rbacx" / "core" / "cache.py").read_text()
    tree = ast.parse(src)
    cls = next((n for n in ast.walk(tree) if isinstance(n, ast.ClassDef) and n.name == "DefaultInMemoryCache"), None)
    if cls is None:
        return {"ok": False, "problems": ["class DefaultInMemoryCache not found"], "methods": {}}
    problems, methods = [], {}

    def is_lock_with(node):
        if not isinstance(node, ast.With) or len(node.items) != 1:
            return False
        e = node.items[0].context_expr
        return (isinstance(e, ast.Attribute) and e.attr == "_lock" and isinstance(e.value, ast.Name) and e.value.id == "self")

    for fn in cls.body:
        if not isinstance(fn, ast.FunctionDef) or fn.name.startswith("_"):
            continue
        withs = [s for s in fn.body if is_lock_with(s)]
        inside = set()
        for w in withs:
            for n in ast.walk(w):
                inside.add(id(n))
        outside = []
        for n in ast.walk(fn):
            if isinstance(n, ast.Attribute) and isinstance(n.value, ast.Name) and n.value.id == "self" and n.attr != "_lock":
                if id(n) not in inside:
                    outside.append(f"self.{n.attr} (line {n.lineno})")
        nested = [n for w in withs for n in ast.walk(w) if n is not w and is_lock_with(n)]
        body = [s for s in fn.body if not (isinstance(s, ast.Expr) and isinstance(getattr(s, "value", None), ast.Constant))]
        single = len(body) == 1 and len(withs) == 1
        ok = len(withs) == 1 and not outside and not nested
        methods[fn.name] = {"ok": ok, "single_with_block_is_whole_body": single, "with_blocks": len(withs),
                            "self_state_outside_lock": outside}
        if not ok:
            problems.append(f"{fn.name}: with-blocks={len(withs)}, outside lock: {outside}")
    for want in ("get", "set", "delete", "clear"):
        if want not in methods:
            problems.append(f"method {want} not found")
    return {"ok": not problems, "problems": problems, "methods": methods}


def ast_check(chk, as_case=False):
    rep = ast_lock_discipline()
    chk.extra["ast_lock_discipline"] = rep
    if not rep["ok"]:
        # supporting evidence only (DESIGN 2.2): a static difference alone is not a verdict - e.g. a helper computing
        # the deadline before the lock is taken changes the shape, not the behaviour.  It is recorded, and run() answers
        # it with a three times longer concurrent exploration, where a non-linearisable history IS a violation.
        chk.count("ast_lock_discipline_not_visibly_met")
        chk.notes.append("static lock discipline: not every public method of DefaultInMemoryCache touches the shared "
                         "state only inside one `with self._lock:` block (" + "; ".join(rep["problems"]) + "); the "
                         "concurrent exploration was run three times as long instead")
    return rep


# --------------------------------------------------------------------------
# run
# --------------------------------------------------------------------------
def corpus_cases():
    d = lib.VERIF / "corpus" / "C15"
    out = []
    if d.is_dir():
        for f in sorted(d.glob("*.json")):
            data = json.loads(f.read_text())
            for c in ([data["case"]] if "case" in data else data.get("cases", [])):
                c = lib.unjson(c["case"] if "case" in c and "kind" not in c else c)
                c["fam"] = "corpus:" + f.stem
                out.append(c)
    return out


def stop_early(chk):
    return len(chk.violations) > 40 or len(chk.corr_breaks) >= 12


def chunks(it, n):
    buf = []
    for x in it:
        buf.append(x)
        if len(buf) >= n:
            yield buf
            buf = []
    if buf:
        yield buf


def run(chk):
    quick = chk.tier == "quick"
    rng = chk.rng
    chk.rule = ("sequential: every sequence of length 3 (thorough: also 4) over the 24-letter alphabet {get k, set k ttl in "
                "(None,0,-1,1,2), delete k, clear, advance 1, advance 2} x 3 keys, for capacities 0,1,2,3 (and -1 at length 2), "
                "plus seeded random sequences of length 4-8 and 9-60 (5 keys incl. '' and non-ASCII, fractional / boolean / huge "
                "TTLs, clock skew inside set, None and container values, capacities -3..2048) and 1000-key sequences around the "
                "128-entry purge prefix; compared per operation: answer, size, ordered content with deadlines. concurrent: "
                "2-8 threads, recorded histories searched for a linearisation (checked by the extracted model), long rounds "
                "checked for raised operations / size / foreign values. non-trivial = the sequence contains a lookup after "
                "another operation (or a hit); distinct = distinct (capacity, start time, op list) resp. distinct round")
    chk.assumptions = [
        "keys are Python str; stored values are compared with == and type (a stored None cannot be told from a miss)",
        f"clock readings and TTLs are multiples of 1/{UNIT} s of moderate size, so the float arithmetic of the code "
        "(monotonic() + float(ttl), <=) is exact and equals the model's integer arithmetic; NaN/inf TTLs are not covered",
        "time.monotonic is replaced test-side by a scripted (sequential part) or shared counting (concurrent part) clock; "
        "readings are non-decreasing in the order in which they are taken",
        "atomicity of each method body is provided by threading.RLock and the GIL (assumed by c15_linearizable; tied by the "
        "recorded concurrent histories and the ast lock-discipline check)",
        "negative maxsize: modelled as the code behaves (set raises KeyError after emptying the cache); the property "
        "quantifies over capacities 0, 1, 2, ...",
    ]
    # 0. corpus first
    cc = corpus_cases()
    if cc:
        check_cases(chk, cc)
    # 1. static support
    rep = ast_check(chk)
    # 2. exhaustive in the small
    fams = [(2, [-1, 0, 1, 2, 3], 1), (3, [0, 1, 2, 3], 1)]
    if not quick:
        fams.append((4, [0, 1, 2, 3], 1))
    for length, caps, stride in fams:
        for ch in chunks(enum_cases(length, caps, stride), 30000):
            if stop_early(chk):
                break
            check_seq(chk, ch)
    chk.exhaustive = not stop_early(chk)
    # 3. seeded random
    n1, n2, n3 = (20000, 2500, 40) if quick else (200000, 30000, 400)
    for ch in chunks((random_case(rng, 4, 8, "random4-8") for _ in range(n1)), 25000):
        if not stop_early(chk):
            check_seq(chk, ch)
    for ch in chunks((random_case(rng, 9, 60, "random9-60") for _ in range(n2)), 10000):
        if not stop_early(chk):
            check_seq(chk, ch)
    for ch in chunks((bigkey_case(rng, 1.0 if quick else 2.5) for _ in range(n3)), 20):
        if not stop_early(chk):
            check_seq(chk, ch)
    if not stop_early(chk):
        check_seq(chk, [default_ctor_case(rng)])
    # 4. concurrency
    t_conc = time.time()
    budget = (18 if quick else 240) * (3 if not rep["ok"] else 1)
    nsmall = nlong = 0
    while time.time() - t_conc < budget and not any("linearizable" in v["clause"] for v in chk.violations):
        c = conc_program(rng, small=True)
        c["rounds"] = 6
        check_conc(chk, c)
        nsmall += 1
        if nsmall % 6 == 0:
            c = conc_program(rng, small=False) if nlong % 3 == 0 else conc_roles(rng)
            c["rounds"] = 2
            check_conc(chk, c)
            nlong += 1
    chk.extra["concurrent"] = {"programs_small": nsmall, "programs_long": nlong,
                               "switchinterval": 1e-6, "wall_s": round(time.time() - t_conc, 1)}
