"""C10 x C16 - tie of the composition coq/theories/ReloadFile.v to the code: the REAL
rbacx.store.file_store.atomic_write replaces the policy file while a REAL
HotReloader(Guard, FilePolicySource(path)) checks it.

One case = one schedule, everything on one thread (deterministic, no timing):

  * the writer: ONE call atomic_write(path, new) over an existing complete document `old`.  Its file-system calls are
    found at run time by a writer-side tap (WTap: os.open - hence tempfile.mkstemp -, os.fdopen, every scripted piece of
    the write reaching the disk, write, flush, close, os.fsync, os.replace / rename, os.unlink / remove, os.utime,
    os.chmod, ... - whatever calls the implementation under test makes in the policy directory, in whatever order).
    After the k-th of them the writer may be stopped: "crash" = the writing process dies there (nothing of it runs
    afterwards: buffered data is lost, the cleanup does not run - the model's Crash), "fail" / "fail-base" = the k-th
    call raises OSError / a BaseException instead of being performed and the writer's own error handling runs (Fail);
  * the reloader: check_and_reload() / check_and_reload(force=True) calls executed from inside the tap's callback BETWEEN
    two file-system calls of the writer (boundary k = right after the k-th call; 0 = before the first), whole ("chk"),
    or split at the source calls ("beg" runs a check up to and including its etag(), each "step" takes it one source
    call further: the model's IStep granularity - a check may straddle the rename, and checks may overlap);
  * a tail of checks after the writer has returned, failed or died.

Judged directly by the statements of the theorems of props/C10.v (ReloadFile.run_sys is exported by no runner, so
there is no model run; the clauses below ARE the theorems' conclusions):
  c10_reload_never_sees_torn_policy        whenever looked at, the path shows the complete old or the complete new file;
        after every check and at the end the engine's policy (guard.policy AND the decisions on probe requests that
        tell initial / old / new / truncations apart) is the initial one, parse(old) or parse(new); every document a
        load() returned is the parse of a whole file (the one the path held); the policy object changed only in checks
        that returned True, to the document that check's own load returned
  c10_reload_failed_load_keeps_policy      a check whose load() (or unforced etag()) raised returns False and leaves
        policy and stored tag as they were
  c10_reload_converges_through_atomic_write   the write returned and parse(new) is loadable: after ONE tail check
        (forced, or unforced and due) the engine enforces parse(new) and the stored tag is the new file's; further
        unforced checks return False, call no load(), leave the guard - EXCEPT where the theorem's hypothesis "a file
        with old's (size, mtime_ns) has old's hash" fails (same size, same mtime tick: c16_stale_without_sig_change);
        that condition is computed from the actual stat results and such cases are counted, not judged.
Control (never a violation): the same rewrite done in place - open(path, "wb"), pieces, a check in between - must be seen
to tear for YAML documents whose prefixes are valid documents (c10_example_in_place_write_tears).
"""
import builtins
import hashlib
import io
import json
import os
import shutil
import tempfile

import lib
import c16
import c10

T_TORN = "c10_reload_never_sees_torn_policy"
T_FAIL = "c10_reload_failed_load_keeps_policy"
T_CONV = "c10_reload_converges_through_atomic_write"
THEOREMS = [T_TORN, T_FAIL, "c10_reload_converges_after_atomic_write", T_CONV]


# --------------------------------------------------------------------------
# the writer-side tap
# --------------------------------------------------------------------------
class _Killed(BaseException):
    """the writing process dies at this point."""


class _InjectedFault(OSError):
    pass


class _InjectedInterrupt(KeyboardInterrupt):
    pass


_RAISE = object()
_PATH_FUNCS = ("replace", "rename", "unlink", "remove", "utime", "chmod", "chown", "link", "symlink", "truncate",
               "mkdir", "rmdir", "setxattr", "removexattr", "chflags")
_FD_FUNCS = ("fsync", "fdatasync", "ftruncate", "fchmod", "fchown", "write", "pwrite", "writev")


class _WFile:
    """stands for the file object the writer opened: the scripted pieces of the first write() reach the disk one by one
    (each a boundary), the rest stays in the (this) user-space buffer until flush() / close() - as it does in the real
    text file object for a small document.  Nothing is ever left in the real object's own buffers, so a dying writer
    loses exactly what had not reached the disk."""

    def __init__(self, tap, real, fd=None):
        self._tap, self._real, self._pending, self._closed, self._fd = tap, real, b"", False, fd

    def _raw(self):
        return getattr(self._real, "buffer", self._real)

    def _put(self, b):
        if b:
            raw = self._raw()
            raw.write(b)
            raw.flush()

    def _drain(self):
        b, self._pending = self._pending, b""
        self._put(b)

    def __enter__(self):
        return self

    def __exit__(self, *exc):
        self.close()
        return False

    def write(self, data):
        T = self._tap
        if T.dead:
            return len(data)
        if isinstance(data, str):
            b = data.encode(getattr(self._real, "encoding", None) or "utf-8", getattr(self._real, "errors", None) or "strict")
        else:
            b = bytes(data)
        cuts, T.cuts = T.cuts, []            # the scripted pieces belong to the first write
        pos = [0]
        for cut in cuts:
            cut = min(int(cut), len(b))
            if cut <= pos[0]:
                continue

            def piece(cut=cut):
                self._put(b[pos[0]:cut])
                pos[0] = cut
            T.call("piece", piece)
        self._pending += b[pos[0]:]
        T.call("write", lambda: None)
        return len(data)

    def flush(self):
        if self._tap.dead or self._closed:
            return None
        return self._tap.call("flush", self._drain)

    def close(self):
        if self._closed:
            return None
        self._closed = True
        self._tap.fds.discard(self._fd)
        if self._tap.dead:
            self._pending = b""
            self._real.close()
            return None

        def do_close():
            self._drain()
            self._real.close()
        try:
            return self._tap.call("close", do_close)
        except BaseException:
            self._pending = b""
            try:
                self._real.close()
            except Exception:  # noqa: BLE001
                pass
            raise

    @property
    def closed(self):
        return self._closed

    def __getattr__(self, n):
        return getattr(self._real, n)


class WTap:
    """While `on`, every file-system call the running writer makes in directory `d` (by path or on a descriptor it
    opened there) is a boundary: cb(k, name) runs right after the k-th has returned or raised.  stop = [k, "crash"]:
    the writer dies right after boundary k; [k, "fail"] / [k, "fail-base"]: the k-th call is not performed and raises
    OSError / a KeyboardInterrupt subclass.  log: the calls seen ("name", "name^" raised by itself, "name!" injected)."""

    def __init__(self, d, cuts=(), stop=None, cb=None):
        self.ds = {os.path.abspath(d), os.path.realpath(d)}
        self.cuts, self.stop, self.cb = list(cuts or []), (list(stop) if stop else None), cb
        self.on, self.depth, self.dead = False, 0, False
        self.n, self.log, self.fds = 0, [], set()
        self.raw = set()            # descriptors the writer opened that no file object owns yet
        self._r_close = os.close
        self._saved = []

    # -- which calls are the writer's
    def _in_dir(self, p):
        try:
            p = os.fspath(p)
        except TypeError:
            return False
        if isinstance(p, bytes):
            p = os.fsdecode(p)
        return os.path.dirname(os.path.abspath(p)) in self.ds

    def _concerns(self, a):
        for x in a[:2]:
            if isinstance(x, bool):
                continue
            if isinstance(x, int):
                if x in self.fds:
                    return True
            elif isinstance(x, (str, bytes, os.PathLike)) and self._in_dir(x):
                return True
        return False

    def _boundary(self, k, name):
        if self.cb is not None:
            self.on = False
            try:
                self.cb(k, name)
            finally:
                self.on = True

    def call(self, name, fn, dead=None):
        if not self.on or self.depth:
            return fn()
        if self.dead:
            if dead is _RAISE:
                raise _Killed()
            return dead
        k = self.n + 1
        st = self.stop
        if st and st[0] == k and st[1] in ("fail", "fail-base"):
            self.n = k
            self.log.append(name + "!")
            self._boundary(k, name)
            if st[1] == "fail":
                raise _InjectedFault(5, "injected I/O failure at " + name)
            raise _InjectedInterrupt()
        self.depth += 1
        try:
            try:
                r = fn()
            finally:
                self.depth -= 1
        except BaseException:
            self.n = k
            self.log.append(name + "^")
            self._boundary(k, name)
            self._maybe_die(k)
            raise
        self.n = k
        self.log.append(name)
        self._boundary(k, name)
        self._maybe_die(k)
        return r

    def _maybe_die(self, k):
        if self.stop and self.stop[0] == k and self.stop[1] == "crash":
            self.dead = True
            for fd in list(self.raw):       # a dead process holds no descriptors (keeps the harness process tidy)
                try:
                    self._r_close(fd)
                except OSError:
                    pass
                self.raw.discard(fd)
                self.fds.discard(fd)
            raise _Killed()

    # -- patching
    def _patch(self, mod, name, new):
        self._saved.append((mod, name, getattr(mod, name)))
        setattr(mod, name, new)

    def __enter__(self):
        T = self

        def by_args(name, real, dead=None):
            def f(*a, **kw):
                if not T.on or T.depth or not T._concerns(a):
                    return real(*a, **kw)
                return T.call(name, lambda: real(*a, **kw), dead)
            return f

        for n in _PATH_FUNCS + _FD_FUNCS:
            if hasattr(os, n):
                self._patch(os, n, by_args(n, getattr(os, n)))
        r_osopen, r_close, r_fdopen, r_open = os.open, os.close, os.fdopen, builtins.open

        def t_osopen(*a, **kw):
            if not T.on or T.depth or not T._concerns(a):
                return r_osopen(*a, **kw)

            def do():
                fd = r_osopen(*a, **kw)
                T.fds.add(fd)
                T.raw.add(fd)
                return fd
            return T.call("open", do, _RAISE)

        def t_close(fd, *a, **kw):
            if not T.on or T.depth or fd not in T.fds:
                return r_close(fd, *a, **kw)
            if T.dead:
                T.fds.discard(fd)
                T.raw.discard(fd)
                return r_close(fd, *a, **kw)
            try:
                return T.call("os.close", lambda: r_close(fd, *a, **kw))
            finally:
                T.fds.discard(fd)
                T.raw.discard(fd)

        def writable(mode):
            return any(ch in str(mode) for ch in "wax+")

        def t_fdopen(fd, *a, **kw):
            if not T.on or T.depth or fd not in T.fds:
                return r_fdopen(fd, *a, **kw)
            mode = a[0] if a else kw.get("mode", "r")
            if T.dead:
                r_close(fd)
                T.fds.discard(fd)
                T.raw.discard(fd)
                raise _Killed()

            def do():
                f = r_fdopen(fd, *a, **kw)
                T.raw.discard(fd)                # the file object owns it now
                return f
            try:
                f = T.call("fdopen", do)
            except (_InjectedFault, _InjectedInterrupt):
                r_close(fd)                      # the code leaks it; closing keeps the harness tidy, not observable
                T.fds.discard(fd)
                T.raw.discard(fd)
                raise
            if not writable(mode):
                T.fds.discard(fd)
                return f
            return _WFile(T, f, fd)

        def t_open(file, *a, **kw):
            if not T.on or T.depth or not T._concerns((file,)):
                return r_open(file, *a, **kw)
            mode = a[0] if a else kw.get("mode", "r")
            f = T.call("open", lambda: r_open(file, *a, **kw), _RAISE)
            if not writable(mode):
                if isinstance(file, int):
                    T.fds.discard(file)
                return f
            return _WFile(T, f, file if isinstance(file, int) else None)

        self._patch(os, "open", t_osopen)
        self._patch(os, "close", t_close)
        self._patch(os, "fdopen", t_fdopen)
        self._patch(builtins, "open", t_open)
        self._patch(io, "open", t_open)
        return self

    def __exit__(self, *exc):
        self.on = False
        for mod, name, old in reversed(self._saved):
            setattr(mod, name, old)
        self._saved = []
        for fd in list(self.raw):               # left open by a writer that failed between open and fdopen
            try:
                os.close(fd)
            except OSError:
                pass
        self.raw.clear()
        return False


_DRY = {}


def writer_calls(name, old, new, cuts):
    """dry run of the implementation under test: the file-system calls one complete atomic_write(path, new) makes."""
    key = (name, old, new, tuple(cuts))
    if key not in _DRY:
        from rbacx.store.file_store import atomic_write
        d = tempfile.mkdtemp(prefix="c10f_")
        try:
            path = os.path.join(d, name)
            with open(path, "wb") as f:
                f.write(old.encode("utf-8"))
            tap = WTap(d, cuts)
            with tap:
                tap.on = True
                try:
                    atomic_write(path, new)
                except Exception:  # noqa: BLE001
                    pass
                finally:
                    tap.on = False
            _DRY[key] = list(tap.log)
        finally:
            shutil.rmtree(d, ignore_errors=True)
    return _DRY[key]


# --------------------------------------------------------------------------
# documents
# --------------------------------------------------------------------------
def y_rule(rid, effect, act):
    return "- id: %s\n  effect: %s\n  actions: [%s]\n  resource: {type: doc}\n" % (rid, effect, act)


def y_doc(pid, rules, head="# access policy\n"):
    return head + "id: %s\nalgorithm: deny-overrides\nrules:\n" % pid + \
        "".join(y_rule("r%d" % (i + 1), e, a) for i, (e, a) in enumerate(rules))


def o_doc(pid, rules):
    return {"id": pid, "algorithm": "deny-overrides",
            "rules": [{"id": "r%d" % (i + 1), "effect": e, "actions": [a], "resource": {"type": "doc"}}
                      for i, (e, a) in enumerate(rules)]}


def j_doc(pid, rules, pad=0):
    return json.dumps(o_doc(pid, rules)) + " " * pad


P, D = "permit", "deny"
ACTS = ["read", "write", "share", "purge", "zz"]
BOOT = o_doc("boot", [(P, "zz")])

# (pair name, file name, old text, new text)
PAIRS = [
    ("yaml-grow", "policy.yaml", y_doc("pol-7", [(P, "read"), (P, "write")]),
     y_doc("pol-12", [(P, "read"), (P, "write"), (P, "share"), (P, "purge")])),
    ("yaml-shrink", "policy.yml", y_doc("pol-31", [(P, "read"), (P, "write"), (P, "share"), (P, "purge")]),
     y_doc("pol-32", [(P, "write"), (P, "share")])),
    ("yaml-same-size", "policy.yaml", y_doc("pol-21", [(P, "read"), (P, "share")]),
     y_doc("pol-22", [(P, "read"), (P, "purge")])),
    ("yaml-deny-last", "policy.yaml", y_doc("pol-41", [(P, "read")]),
     y_doc("pol-42", [(P, "read"), (P, "purge"), (D, "purge")])),
    ("yaml-v", "policy.yaml", "v: 1", "v: 22"),
    ("yaml-utf8", "policy.yaml", y_doc("pöl-5", [(P, "read")], head="# révision 5 — accès\n"),
     y_doc("pöl-6é", [(P, "read"), (P, "share")], head="# révision 6 — accès\n")),
    ("json-grow", "policy.json", j_doc("pol-51", [(P, "read")]), j_doc("pol-52", [(P, "read"), (P, "write"), (P, "share")])),
    ("json-same-size", "policy.json", j_doc("pol-61", [(P, "read"), (P, "share")]), j_doc("pol-62", [(P, "read"), (P, "purge")])),
    ("yaml-new-schema-invalid", "policy.yaml", y_doc("pol-71", [(P, "read")]),
     y_doc("pol-72", [(P, "read"), ("allow", "write")])),
    ("json-new-unparsable", "policy.json", j_doc("pol-81", [(P, "read")]), '{"id": "pol-82", "rules": ['),
    ("json-old-unparsable", "policy.json", "{x1", j_doc("pol-92", [(P, "write")])),
]
SAME_SIZE = ("yaml-same-size", "json-same-size")
assert all(len(o.encode()) == len(n.encode()) for nm, _f, o, n in PAIRS if nm in SAME_SIZE)


def fmt_of(name):
    return c16._expected_format(name)


_ORACLE = {}


def oracle(b, name, validate):
    """("ok", doc) | ("raise", why): what a load() of a file with these bytes must give - json / yaml / jsonschema asked
    directly, not rbacx."""
    if b is None:
        return ("raise", "FileNotFoundError")
    key = (b, fmt_of(name), bool(validate))
    if key not in _ORACLE:
        r = c16._oracle_parse(b, fmt_of(name))
        if r[0] == "ok" and fmt_of(name) == "yaml":
            if r[1] is None:
                r = ["ok", {}]
            elif not isinstance(r[1], dict):
                r = ["raise", "ValueError"]
        if r[0] == "ok" and validate and c16._schema_ok(r[1]) is False:
            r = ["raise", "ValidationError"]
        _ORACLE[key] = (r[0], r[1])
    return _ORACLE[key]


def expected_vec(doc, acts):
    """decisions of `doc` on the probe requests {subject u / staff, action a, resource doc/1, empty context}, by
    construction of the documents (deny-overrides named explicitly: a matching deny rule wins, else a matching permit
    rule, else deny; no rules = deny).  None = not specified for this object."""
    if not isinstance(doc, dict) or "policies" in doc:
        return None
    rules = doc.get("rules")
    if rules is None:
        rules = []
    if not isinstance(rules, list):
        return None
    algo = doc.get("algorithm")
    if algo not in (None, "deny-overrides"):
        return None
    for r in rules:
        if not (isinstance(r, dict) and r.get("effect") in (P, D) and isinstance(r.get("actions"), list)
                and all(isinstance(a, str) for a in r["actions"]) and r.get("resource") == {"type": "doc"}
                and r.get("condition") is None and not r.get("obligations")):
            return None
    if algo is None and any(r["effect"] == D for r in rules):
        return None             # the default algorithm is another property's business (C17)
    out = []
    for a in acts:
        if any(r["effect"] == D and a in r["actions"] for r in rules):
            out.append(D)
        elif any(r["effect"] == P and a in r["actions"] for r in rules):
            out.append(P)
        else:
            out.append(D)
    return out


_CUTS = {}


def valid_prefix_cuts(name, new, validate=False):
    """byte offsets k (at line ends and inside the id line) such that new[:k] is itself a loadable document that is not
    parse(new): what a reader of a half-written file would install."""
    key = (name, new, bool(validate))
    if key not in _CUTS:
        full = oracle(new.encode("utf-8"), name, False)
        cand = set()
        pos = 0
        for line in new.splitlines(keepends=True):
            if line.startswith(("id: ", "v: ")):
                for j in range(len(line.split(": ")[0]) + 3, len(line)):
                    cand.add(pos + j)
            pos += len(line)
            cand.add(pos)
        out = []
        for k in sorted(cand):
            if 0 < k < len(new):
                r = oracle(new[:k].encode("utf-8"), name, validate)
                if r[0] == "ok" and r != full:
                    out.append(len(new[:k].encode("utf-8")))
        _CUTS[key] = out
    return _CUTS[key]


# --------------------------------------------------------------------------
# running one case on the implementation
# --------------------------------------------------------------------------
class _Yield:
    """what a source call of a stepped check returns: the value is computed already (the call was atomic with respect
    to the directory); awaiting it hands control back to the schedule once."""
    __slots__ = ("v",)

    def __init__(self, v):
        self.v = v

    def __await__(self):
        yield
        return self.v


def _short(x, n=160):
    s = repr(x)
    return s if len(s) <= n else s[:n] + "..."


class Rig:
    def __init__(self, c):
        import rbacx.policy.loader as loader
        from rbacx.core.engine import Guard
        from rbacx.store.file_store import FilePolicySource

        self.c, self.loader = c, loader
        self.d = self.wd = None
        self.saved = None
        self.validate = bool(c.get("validate"))
        if self.validate:
            c10.speed_up_jsonschema()
        self.oldb, self.newb = c["old"].encode("utf-8"), c["new"].encode("utf-8")
        self.o_old = oracle(self.oldb, c["name"], self.validate)
        self.o_new = oracle(self.newb, c["name"], self.validate)
        self.acts = list(c.get("acts") or ACTS)
        try:
            self.d = tempfile.mkdtemp(prefix="c10f_")
            self.wd = tempfile.mkdtemp(prefix="c10fw_")
            self.path = os.path.join(self.d, c["name"])
            with open(self.path, "wb") as f:
                f.write(self.oldb)
            age = float(c.get("old_age") or 0.0)
            if age:
                st = os.stat(self.path)
                ns = st.st_mtime_ns - int(age * 10 ** 9) - 123456789
                os.utime(self.path, ns=(ns, ns))
            self.ft, self.fr = c10.FakeTime(), c10.FakeRandom()
            self.saved = (loader.time, loader.random)
            loader.time, loader.random = self.ft, self.fr
            self.src = FilePolicySource(self.path, validate_schema=self.validate,
                                        include_mtime_in_etag=bool(c.get("mtime")))
            self.calls, self.loaded, self.stepping = [], [], False
            self._wrap("etag")
            self._wrap("load")
            self.p0 = json.loads(json.dumps(c["p0"]))
            # round 6: a share of the schedules runs with a decision cache whose backend fails (c10.FlakyCache)
            self.guard = Guard(self.p0, cache=c10.FlakyCache(c["cache"])) if c.get("cache") else Guard(self.p0)
            cfg = c.get("cfg") or [0.0, 0.125, 0.5]
            self.r = loader.HotReloader(self.guard, self.src, initial_load=bool(c.get("initial_load")),
                                        poll_interval=None, backoff_min=cfg[0], backoff_max=cfg[1], jitter_ratio=cfg[2])
            self.primed = self.r.last_etag
            self.calls = []
            self.inflight = {}
            self.events = []
            self.paths = []
            self.n_true = 0
            self.n_changes = 0
        except BaseException:
            self.close()
            raise

    def close(self):
        if self.saved is not None:
            self.loader.time, self.loader.random = self.saved
            self.saved = None
        for d in (self.d, self.wd):
            if d:
                shutil.rmtree(d, ignore_errors=True)
        # Guard.__init__ installs a fresh "current" event loop whenever there is none (there is none after every
        # asyncio.run): close that loop rather than leaving its descriptors to the garbage collector
        try:
            import asyncio
            loop = getattr(asyncio.get_event_loop_policy()._local, "_loop", None)
            if loop is not None and loop is not c10._PROBE_LOOP.get("loop") and not loop.is_running():
                asyncio.set_event_loop(None)
                loop.close()
        except Exception:  # noqa: BLE001
            pass

    # -- observation
    def read_path(self):
        try:
            with open(self.path, "rb") as f:
                return f.read()
        except FileNotFoundError:
            return None

    def path_label(self, b="?"):
        if b == "?":
            b = self.read_path()
        if b is None:
            return "missing"
        if b == self.oldb:
            return "old"
        if b == self.newb:
            return "new"
        return "other:" + _short(b, 80)

    def labels(self, obj):
        out = []
        if obj is self.p0:
            out.append("init")
        if self.o_old[0] == "ok" and obj == self.o_old[1]:
            out.append("old")
        if self.o_new[0] == "ok" and obj == self.o_new[1]:
            out.append("new")
        return out or ["torn", _short(obj, 300)]

    def sig(self):
        try:
            st = os.stat(self.path)
            return [st.st_size, st.st_mtime_ns]
        except FileNotFoundError:
            return None

    def tick(self):
        """the file system's idea of 'now': the mtime_ns a file written at this moment gets."""
        p = os.path.join(self.wd, "now")
        with open(p, "wb") as f:
            f.write(b"x")
        ns = os.stat(p).st_mtime_ns
        os.unlink(p)
        return ns

    def _wrap(self, name):
        orig, rig = getattr(self.src, name), self

        def f():
            held = rig.path_label()
            try:
                v = orig()
            except Exception as e:  # noqa: BLE001
                rig.calls.append([name, "exc", type(e).__name__, held])
                raise
            rig.calls.append([name, "ok", v, held])
            if name == "load":
                rig.loaded.append(v)
            return _Yield(v) if rig.stepping else v
        setattr(self.src, name, f)

    def vec(self):
        from rbacx.core.model import Action, Context, Resource, Subject
        subj, res, ctx, guard, acts = Subject("u", ["staff"]), Resource("doc", "1"), Context({}), self.guard, self.acts

        async def go(strict):
            got = []
            for a in acts:
                try:
                    got.append((await guard.evaluate_async(subj, Action(a), res, ctx)).effect)
                except Exception as e:  # noqa: BLE001
                    if strict:
                        raise
                    got.append("raised %s" % type(e).__name__)
            return got
        try:
            got = c10.SYNC_LOOP.run(go(True))
            c10.PROBE_STATS["sync"] += 1
            return got
        except Exception:  # noqa: BLE001
            c10.PROBE_STATS["real"] += 1
            return c10.probe_loop().run_until_complete(go(False))

    # -- actions of the schedule
    def do(self, act, at):
        kind = act[0]
        if kind == "age":
            # what a rewrite within one mtime tick looks like: the old file carries the mtime_ns of the newest temporary
            # file of the directory (the file about to be renamed over it)
            best = None
            for n in os.listdir(self.d):
                if n != self.c["name"]:
                    ns = os.stat(os.path.join(self.d, n)).st_mtime_ns
                    best = ns if best is None else max(best, ns)
            if best is not None and os.path.exists(self.path):
                os.utime(self.path, ns=(best, best))
            self.events.append({"at": at, "act": act, "kind": "age", "to": best})
            return
        if kind == "chk":
            _, force, now, u = act
            ck = {"force": bool(force), "now": float(now), "u": float(u), "coro": None, "done": False, "calls": [],
                  "loaded": [], "etag0": self.r.last_etag}
            self._segment(ck, act, at, whole=True)
        elif kind == "beg":
            _, cid, force, now, u = act
            ck = {"force": bool(force), "now": float(now), "u": float(u), "done": False, "calls": [], "loaded": [],
                  "etag0": self.r.last_etag}
            ck["coro"] = self.r.check_and_reload_async(force=bool(force))
            self.inflight[cid] = ck
            self._segment(ck, act, at)
        elif kind == "step":
            ck = self.inflight.get(act[1])
            if ck is None or ck["done"]:
                return
            self._segment(ck, act, at)
        else:
            raise ValueError(act)

    def _segment(self, ck, act, at, whole=False):
        r, g = self.r, self.guard
        self.ft.now, self.fr.u = ck["now"], ck["u"]
        before_obj, n_calls, n_loaded = g.policy, len(self.calls), len(self.loaded)
        etag_before, su_before = r.last_etag, r.suppressed_until
        res = None
        try:
            if whole and self.c.get("how") == "sync":
                self.stepping = False
                res = r.check_and_reload(force=ck["force"])
                ck["done"] = True
            else:
                self.stepping = not whole
                coro = ck["coro"] if not whole else r.check_and_reload_async(force=ck["force"])
                try:
                    coro.send(None)
                    if whole:
                        coro.close()
                        res = "harness: an unstepped check suspended"
                        ck["done"] = True
                except StopIteration as stop:
                    res = stop.value
                    ck["done"] = True
        except Exception as e:  # noqa: BLE001
            res = "raised %s: %s" % (type(e).__name__, e)
            ck["done"] = True
        finally:
            self.stepping = False
        new_calls = self.calls[n_calls:]
        ck["calls"] += new_calls
        ck["loaded"] += self.loaded[n_loaded:]
        after_obj = g.policy
        changed = after_obj is not before_obj
        if changed:
            self.n_changes += 1
        if res is True:
            self.n_true += 1
        ev = {"at": at, "act": act, "kind": "check", "force": ck["force"], "now": ck["now"], "done": ck["done"], "res": res,
              "calls": [[n, k, (v if (n == "etag" or k == "exc") else self.labels(v)), held] for n, k, v, held in new_calls],
              "check_calls": [[n, k] for n, k, _v, _h in ck["calls"]],
              "changed": changed,
              "own": bool(ck["loaded"]) and after_obj is ck["loaded"][-1],
              "n_own_loads": len(ck["loaded"]),
              "policy": self.labels(after_obj),
              "etag_before": etag_before, "etag_after": r.last_etag, "etag_at_start": ck["etag0"],
              "su_before": su_before, "err": r.last_error is not None,
              "path": self.path_label()}
        if changed or res is True:
            ev["vec"] = self.vec()
        self.events.append(ev)


def impl_run(c):
    out = {"error": None}
    try:
        rig = Rig(c)
    except Exception as e:  # noqa: BLE001
        out["error"] = "setup raised %s: %s" % (type(e).__name__, e)
        return out
    try:
        from rbacx.store.file_store import atomic_write
        sched = {}
        for k, acts in c.get("sched") or []:
            sched.setdefault(int(k), []).extend(acts)
        out["primed"] = rig.primed
        out["sig_old"] = rig.sig()
        sigs = {"last_old": rig.sig()}

        def cb(k, name):
            lab = rig.path_label()
            rig.paths.append([k, name, lab])
            for act in sched.pop(k, []):
                rig.do(act, k)
            if rig.path_label() == "old":
                sigs["last_old"] = rig.sig()      # 'age' may have changed it

        cb(0, "start")
        out["tick_lo"] = rig.tick()
        if c.get("writer", "atomic") == "atomic":
            tap = WTap(rig.d, c.get("cuts") or [], c.get("stop"), cb)
            with tap:
                tap.on = True
                try:
                    atomic_write(rig.path, c["new"])
                    outcome = "returned"
                except _Killed:
                    outcome = "crashed"
                except (_InjectedInterrupt, Exception) as e:  # noqa: BLE001
                    outcome = ["raised", type(e).__name__]
                finally:
                    tap.on = False
            out["writer_calls"] = list(tap.log)
        else:
            # control: the same rewrite in place
            k = 0
            outcome = "returned"
            with open(rig.path, "wb") as f:
                k += 1
                cb(k, "open-truncate")
                pos = 0
                for cut in list(c.get("cuts") or []) + [len(rig.newb)]:
                    if cut <= pos:
                        continue
                    f.write(rig.newb[pos:cut])
                    f.flush()
                    pos = cut
                    k += 1
                    cb(k, "piece")
            k += 1
            cb(k, "close")
            out["writer_calls"] = ["open-truncate"] + ["piece"] * (k - 2) + ["close"]
        out["tick_hi"] = rig.tick()
        out["outcome"] = outcome
        out["sig_last_old"] = sigs["last_old"]
        out["sig_end"] = rig.sig()
        out["path_end"] = rig.path_label()
        out["listing_end"] = sorted(os.listdir(rig.d))
        # boundaries the writer never reached: their checks run now, in order; checks in flight are completed
        for k in sorted(sched):
            for act in sched[k]:
                rig.do(act, "after")
        for cid in sorted(rig.inflight):
            ck = rig.inflight[cid]
            for _ in range(8):
                if ck["done"]:
                    break
                rig._segment(ck, ["step", cid], "after")
        out["n_sched_events"] = len(rig.events)
        for act in c.get("tail") or []:
            rig.do(act, "tail")
        g = rig.guard
        out["events"] = rig.events
        out["paths"] = rig.paths
        out["final"] = {"policy": rig.labels(g.policy), "vec": rig.vec(), "etag": rig.r.last_etag,
                        "n_true": rig.n_true, "n_changes": rig.n_changes, "path": rig.path_label()}
        fb = rig.read_path()
        if fb is not None:
            sha = hashlib.sha256(fb).hexdigest()
            st = rig.sig()
            out["final"]["file_tag"] = ("%s:%d" % (sha, st[1])) if c.get("mtime") else sha
        out["vecs"] = {"init": expected_vec(rig.p0, rig.acts),
                       "old": expected_vec(rig.o_old[1], rig.acts) if rig.o_old[0] == "ok" else None,
                       "new": expected_vec(rig.o_new[1], rig.acts) if rig.o_new[0] == "ok" else None}
        out["new_loadable"] = rig.o_new[0] == "ok"
        out["old_loadable"] = rig.o_old[0] == "ok"
    except Exception as e:  # noqa: BLE001
        import traceback
        out["error"] = "harness error %s: %s | %s" % (type(e).__name__, e, traceback.format_exc()[-600:])
    finally:
        rig.close()
    return out


# --------------------------------------------------------------------------
# judgement
# --------------------------------------------------------------------------
def judge(c, out):
    """-> (violations [(clause, detail)], facts)"""
    viol, facts = [], {}
    vecs = out["vecs"]
    whole_vecs = [v for v in vecs.values() if v is not None]
    atomic = c.get("writer", "atomic") == "atomic"

    def vec_of(labels):
        for lab in labels:
            if lab in vecs and vecs[lab] is not None:
                return vecs[lab]
        return None

    # (1) what the path shows between the writer's calls
    if atomic:
        for k, name, lab in out["paths"]:
            if lab not in ("old", "new"):
                viol.append((T_TORN + ": while atomic_write runs the path shows neither the complete old nor the complete "
                             "new file (first conjunct; c16_reader_sees_whole_file)", {"after_call": k, "call": name, "path": lab}))
                break
    prev_etag_ok = True
    for ix, ev in enumerate(out["events"]):
        if ev["kind"] != "check":
            continue
        res = ev["res"]
        where = {"event": ix, "at": ev["at"], "act": ev["act"]}
        if res not in (True, False, None) or (res is None and ev["done"]):
            viol.append(("a check raised / returned a non-boolean", dict(where, result=res)))
            continue
        # every document a load() returned is a whole-file parse - of the file the path held at that moment
        for n, k, v, held in ev["calls"]:
            if n == "load" and k == "ok":
                if v[0] == "torn":
                    viol.append((T_TORN + ": load() returned a document that is the parse of neither the complete old nor "
                                 "the complete new file", dict(where, path_held=held, load_returned=v)))
                elif held in ("old", "new") and held not in v:
                    viol.append((T_TORN + ": load() returned the parse of another file than the one the path held "
                                 "(c16_load_during_write_parses_whole_file)", dict(where, path_held=held, load_returned=v)))
        # the active policy
        if ev["policy"][0] == "torn":
            viol.append((T_TORN + ": the engine's active policy (guard.policy) is neither the initial one nor parse(old) "
                         "nor parse(new)", dict(where, policy=ev["policy"], result=res)))
        if "vec" in ev:
            want = vec_of(ev["policy"])
            if whole_vecs and ev["vec"] not in whole_vecs and all(v is not None for v in vecs.values()):
                viol.append((T_TORN + ": the decisions on the probe requests are those of neither the initial policy nor "
                             "parse(old) nor parse(new)", dict(where, decisions=ev["vec"], whole=vecs, policy=ev["policy"])))
            elif want is not None and ev["vec"] != want:
                viol.append((T_TORN + ": the decisions taken after the check are not those of the document guard.policy "
                             "shows (the active policy is the one decisions come from)",
                             dict(where, decisions=ev["vec"], expected=want, policy=ev["policy"])))
        # set_policy ran exactly in the checks that returned True, with that check's own loaded document
        if res is True:
            if not (ev["changed"] and ev["own"] and ev["n_own_loads"] == 1):
                viol.append((T_TORN + ": a check returned True without installing exactly the document its own load() "
                             "returned (sets = number of checks that returned True)",
                             dict(where, changed=ev["changed"], own=ev["own"], loads=ev["n_own_loads"])))
        elif ev["changed"]:
            viol.append((T_FAIL + ": the policy object was replaced by a check that did not return True",
                         dict(where, result=res, policy=ev["policy"])))
        # failed load / failed unforced etag: False, nothing moves
        failed = [x for x in ev["calls"] if x[1] == "exc" and not (ev["force"] and x[0] == "etag")]
        if failed:
            if res is not False or ev["changed"] or ev["etag_after"] != ev["etag_before"]:
                viol.append((T_FAIL + ": etag() / load() raised, but the check did not return False with policy and stored "
                             "tag as before", dict(where, result=res, changed=ev["changed"], raised=failed,
                                                  tags=[ev["etag_before"], ev["etag_after"]])))
            elif not ev["err"]:
                viol.append((T_FAIL + ": the failure was not recorded in last_error", where))
        if res is False and ev["done"] and ev["etag_after"] != ev["etag_before"]:
            viol.append((T_FAIL + ": a check returned False but moved the stored tag",
                         dict(where, tags=[ev["etag_before"], ev["etag_after"]])))
    fin = out["final"]
    if fin["policy"][0] == "torn":
        viol.append((T_TORN + ": at the end the engine's active policy is neither the initial one nor parse(old) nor "
                     "parse(new)", {"policy": fin["policy"]}))
    else:
        want = vec_of(fin["policy"])
        if want is not None and fin["vec"] != want:
            viol.append((T_TORN + ": at the end the decisions on the probe requests are not those of the document "
                         "guard.policy shows", {"decisions": fin["vec"], "expected": want, "policy": fin["policy"]}))
    if fin["n_true"] != fin["n_changes"] and not viol:
        viol.append((T_TORN + ": number of policy replacements != number of checks that returned True",
                     {"replacements": fin["n_changes"], "true": fin["n_true"]}))

    # (3) convergence through a completed write
    tail = out["events"][out["n_sched_events"]:]
    facts["outcome"] = out["outcome"] if isinstance(out["outcome"], str) else "raised"
    facts["conv"] = "not-applicable"
    if atomic and out["outcome"] == "returned" and tail and all(e["kind"] == "check" for e in tail):
        so, se = out["sig_last_old"], out["sig_end"]
        same_sig = so is not None and se is not None and so == se and c["old"] != c["new"]
        in_tick = se is not None and out["tick_lo"] <= se[1] <= out["tick_hi"]
        if out["path_end"] != "new":
            viol.append((T_CONV + ": atomic_write returned but the path does not hold the new document "
                         "(c16_returned_means_written)", {"path": out["path_end"]}))
        elif c["old"] == c["new"]:
            facts["conv"] = "same-content"
        elif not out["new_loadable"]:
            facts["conv"] = "new-not-loadable"
            # (a policy made from it would be labelled torn above: parse(new) includes the validation)
        elif same_sig and in_tick:
            facts["conv"] = "excluded:same-size-same-mtime-tick"
        else:
            first = tail[0]
            due = first["force"] or first["now"] >= first["su_before"]
            if not due:
                facts["conv"] = "tail-not-due"
            else:
                facts["conv"] = "judged"
                why = None
                if "new" not in first["policy"]:
                    why = ("after one %s check following the completed write the engine does not enforce parse(new)"
                           % ("forced" if first["force"] else "due unforced"))
                elif first["etag_after"] != fin.get("file_tag"):
                    why = "after the first tail check the stored tag is not the new file's"
                elif vecs["new"] is not None and first.get("vec", vecs["new"]) != vecs["new"]:
                    why = "after the first tail check the decisions are not parse(new)'s"
                else:
                    for e in tail[1:]:
                        if e["force"]:
                            continue
                        if e["res"] is not False or e["changed"] or any(x[0] == "load" for x in e["calls"]):
                            why = "a later unforced check did not return False without loading"
                            break
                    if why is None and "new" not in fin["policy"]:
                        why = "at the end the engine does not enforce parse(new)"
                if why:
                    det = {"tail": [[e["act"], e["res"], e["policy"][:1], e["calls"]] for e in tail],
                           "sig_old": so, "sig_new": se, "tick_window": [out["tick_lo"], out["tick_hi"]],
                           "stored_tag": fin["etag"], "file_tag": fin.get("file_tag")}
                    if same_sig:
                        why += (" [the replacement has the old file's (size, mtime_ns) although it was written in a later "
                                "mtime tick: atomic_write did not stamp the time of its write (FileStore.atomic_write: "
                                "mkFile data now), so the stat-signature cache cannot see the change]")
                    viol.append((T_CONV + ": " + why, det))
    facts["torn"] = any(cl.startswith(T_TORN) for cl, _ in viol)
    return viol, facts


# --------------------------------------------------------------------------
# cases
# --------------------------------------------------------------------------
CFGS = [[0.0, 0.125, 0.5], [2.0, 30.0, 0.15], [0.5, 4.0, 0.25]]
BIG = 128.0


class _Clock:
    def __init__(self):
        self.t = 1.0

    def tick(self, d=0.5):
        self.t += d
        return self.t


def _options(rng, pair, **fix):
    nm = pair[0]
    o = {"mtime": rng.random() < 0.5, "validate": rng.random() < (0.15 if nm == "yaml-v" else 0.4),
         "initial_load": rng.random() < 0.3, "p0": "old" if rng.random() < 0.3 else "boot",
         "how": "sync" if rng.random() < 0.3 else "coro", "cfg": rng.choice(CFGS), "old_age": 10.0}
    o.update(fix)
    return o


def _cuts_variants(pair):
    nm, name, _old, new = pair
    n = len(new.encode("utf-8"))
    vp = valid_prefix_cuts(name, new) if fmt_of(name) == "yaml" else []
    out = [[]]
    if vp:
        out.append([vp[-1]])
        out.append([vp[0], vp[-1]] if len(vp) > 1 else [vp[0]])
        if len(vp) > 2:
            out.append([vp[len(vp) // 2]])
    else:
        out.append([max(1, n // 2)])
        out.append([max(1, n // 3), max(2, 2 * n // 3)])
    out.append([n])
    return out


def make_case(pair, opt, cuts, stop, sched, tail, fam, writer="atomic"):
    nm, name, old, new = pair
    p0 = BOOT
    if opt["p0"] == "old":
        r = oracle(old.encode("utf-8"), name, False)
        if r[0] == "ok":
            p0 = r[1]
    return {"rf": 1, "fam": fam, "pair": nm, "name": name, "old": old, "new": new, "p0": p0, "acts": ACTS,
            "mtime": bool(opt["mtime"]), "validate": bool(opt["validate"]), "initial_load": bool(opt["initial_load"]),
            "how": opt["how"], "cfg": list(opt["cfg"]), "old_age": opt["old_age"], "writer": writer,
            "cuts": list(cuts), "stop": stop, "sched": sched, "tail": tail}


def _tail(rng, clk, forced=None):
    if forced is None:
        forced = rng.random() < 0.4
    us = [rng.choice(c10.US) for _ in range(3)]
    return [["chk", bool(forced), clk.tick(BIG), us[0]], ["chk", False, clk.tick(BIG), us[1]],
            ["chk", False, clk.tick(BIG), us[2]]]


def _stops(n, rng, tier):
    out = [None]
    for k in range(1, n + 1):
        out.append([k, "crash"])
        if tier == "thorough" or rng.random() < 0.6:
            out.append([k, "fail"])
        if tier == "thorough" or rng.random() < 0.15:
            out.append([k, "fail-base"])
    return out


def gen_cases(chk):
    rng, tier = chk.rng, chk.tier
    cases = []
    ctl = []
    for pi, pair in enumerate(PAIRS):
        nm, name, old, new = pair
        variants = _cuts_variants(pair)
        # A: a check at every boundary, for every stop
        for vi, cuts in enumerate(variants if tier == "thorough" else [variants[(pi + j) % len(variants)] for j in range(2)]):
            calls = writer_calls(name, old, new, cuts)
            n = len(calls)
            for si, stop in enumerate(_stops(n, rng, tier)):
                if tier != "thorough" and vi == 1 and stop is not None and rng.random() < 0.55:
                    continue
                reach = stop[0] if (stop is not None and stop[1] == "crash") else n   # a failed call: the cleanup's calls too
                clk = _Clock()
                sched = []
                for b in range(0, reach + 1):
                    sched.append([b, [["chk", rng.random() < 0.25, clk.tick(), rng.choice(c10.US)]]])
                cases.append(make_case(pair, _options(rng, pair), cuts, stop, sched, _tail(rng, clk), "rf-every"))
        # B: a check straddling writer steps (etag() before, load() after), possibly with whole checks in between
        cuts = variants[1]
        calls = writer_calls(name, old, new, cuts)
        n = len(calls)
        combos = [(b1, b2, b3) for b1 in range(0, n + 1) for b2 in range(b1, n + 1) for b3 in range(b2, n + 1)
                  if b3 > b1]
        pick = combos if tier == "thorough" else rng.sample(combos, min(len(combos), 11))
        for b1, b2, b3 in pick:
            for force in ((False, True) if tier == "thorough" else (rng.random() < 0.5,)):
                clk = _Clock()
                stop = None if rng.random() < 0.7 else [rng.randint(b3, n) if b3 <= n else n, "crash"]
                sched = [[b1, [["beg", 0, force, clk.tick(), rng.choice(c10.US)]]]]
                if rng.random() < 0.5 and b2 > b1:
                    sched.append([b2, [["chk", rng.random() < 0.3, clk.tick(), 0.0]]])
                sched.append([b2, [["step", 0]]])
                sched.append([b3, [["step", 0]]])
                cases.append(make_case(pair, _options(rng, pair), cuts, stop, sched, _tail(rng, clk), "rf-straddle"))
        # C: random schedules (overlapping stepped checks among whole ones)
        for _ in range(9 if tier != "thorough" else 180):
            cuts = rng.choice(variants)
            n = len(writer_calls(name, old, new, cuts))
            stop = rng.choice(_stops(n, rng, "thorough")) if rng.random() < 0.6 else None
            clk = _Clock()
            sched, live, nid = [], [], 0
            for b in range(0, n + 1):
                acts = []
                for _j in range(rng.choice([0, 1, 1, 2, 3])):
                    x = rng.random()
                    if x < 0.45:
                        acts.append(["chk", rng.random() < 0.3, clk.tick(), rng.choice(c10.US)])
                    elif x < 0.7 and len(live) < 3:
                        acts.append(["beg", nid, rng.random() < 0.4, clk.tick(), rng.choice(c10.US)])
                        live.append(nid)
                        nid += 1
                    elif live:
                        acts.append(["step", rng.choice(live)])
                if acts:
                    sched.append([b, acts])
            cases.append(make_case(pair, _options(rng, pair), cuts, stop, sched, _tail(rng, clk), "rf-random"))
        # D (thorough): every crash point x every boundary, one check
        if tier == "thorough":
            cuts = variants[1]
            n = len(writer_calls(name, old, new, cuts))
            for stop in [None] + [[k, "crash"] for k in range(1, n + 1)]:
                reach = n if stop is None else stop[0]
                for b in range(0, reach + 1):
                    for force in (False, True):
                        clk = _Clock()
                        sched = [[b, [["chk", force, clk.tick(), 0.0]]]]
                        cases.append(make_case(pair, _options(rng, pair), cuts, stop, sched, _tail(rng, clk), "rf-single"))
        # E: same size - a rewrite within one mtime tick (by chance: the old file is fresh; by construction: "age")
        if nm in SAME_SIZE:
            cuts = []
            calls = writer_calls(name, old, new, cuts)
            n = len(calls)
            b_close = max((i + 1 for i, x in enumerate(calls) if x.startswith("close")), default=max(1, n - 2))
            for j in range(6 if tier != "thorough" else 24):
                clk = _Clock()
                opt = _options(rng, pair, validate=False, how="coro", initial_load=(j % 3 == 2))
                if j % 2 == 0:
                    opt["old_age"] = 0.0
                    sched = [[n, [["chk", False, clk.tick(), 0.0]]]] if j % 4 == 0 else []
                else:
                    sched = [[b_close, [["age"], ["chk", bool(j % 4 == 3), clk.tick(), 0.0]]]]
                cases.append(make_case(pair, opt, cuts, None, sched, _tail(rng, clk, forced=(j % 6 == 5)), "rf-sametick"))
        # Z: control - the same rewrite in place
        if nm not in ("json-old-unparsable",):
            for validate in (False, True):
                vp = valid_prefix_cuts(name, new, validate) if fmt_of(name) == "yaml" else [max(1, len(new) // 2)]
                pick = vp if tier == "thorough" else (vp[-1:] + vp[:1] if not validate else vp[-1:])
                for cut in pick:
                    clk = _Clock()
                    opt = _options(rng, pair, how="coro", old_age=10.0, validate=validate)
                    sched = [[2, [["chk", rng.random() < 0.3, clk.tick(), 0.0]]]]
                    ctl.append(make_case(pair, opt, [cut], None, sched, _tail(rng, clk), "rf-control", writer="inplace"))
    return cases + ctl


# --------------------------------------------------------------------------
# check
# --------------------------------------------------------------------------
STATS = {"cases": 0, "control_cases": 0, "control_tears": 0, "control_yaml_valid_prefix_cases": 0,
         "control_yaml_valid_prefix_tears": 0, "control_json_cases": 0, "control_json_tears": 0, "conv": {}, "checks": 0,
         "checks_between_writer_calls": 0, "stepped_checks_straddling_a_writer_call": 0, "writer_outcomes": {},
         "writer_call_sequences": {}, "loads_while_temp_file_holds_a_loadable_prefix": 0}


def _is_ctl_yaml_valid(c):
    return c.get("writer") == "inplace" and fmt_of(c["name"]) == "yaml" and \
        any(k in valid_prefix_cuts(c["name"], c["new"], c.get("validate")) for k in c.get("cuts") or [])


class _Runner:
    """impl_run in a forked helper process, one case at a time, with a time limit: the schedules start checks from
    inside the writer's file-system calls and from inside other checks on ONE thread — on a tree where a check
    blocks until another check has finished (a non-re-entrant lock held across the whole check) such a schedule
    never returns.  The helper is then killed, the case is reported, and the next case gets a fresh helper."""

    LIMIT = 40.0

    def __init__(self):
        self.pool = None
        self.hangs = 0

    def _ensure(self):
        if self.pool is None:
            import multiprocessing as mp
            self.pool = mp.get_context("fork").Pool(1)

    def run(self, c):
        import multiprocessing as mp
        if self.hangs >= 5:          # checks block each other on this tree: said five times, not five hundred
            return {"error": "not run: five earlier schedules of this run never returned (see their reports)", "skipped": True}
        self._ensure()
        try:
            return self.pool.apply_async(impl_run, (c,)).get(timeout=self.LIMIT)
        except mp.TimeoutError:
            self.hangs += 1
            self.close(kill=True)
            return {"error": "the schedule did not return within %.0f s: a check started while another check of the same "
                             "thread was in progress (or while the writer was inside a file-system call) never came back — "
                             "checks block each other" % self.LIMIT}
        except Exception as e:  # noqa: BLE001  (e.g. an unpicklable result: run it here)
            self.close(kill=True)
            return impl_run(c)

    def close(self, kill=False):
        if self.pool is not None:
            try:
                self.pool.terminate() if kill else self.pool.close()
            finally:
                self.pool = None


def check_cases(chk, cases, replay=False):
    runner = _Runner()
    try:
        _check_cases(chk, cases, replay, runner)
    finally:
        runner.close(kill=True)


def _check_cases(chk, cases, replay, runner):
    for c in cases:
        out = runner.run(c)
        if out.get("skipped"):
            chk.count("rf:skipped-after-hangs")
            continue
        key = json.dumps({k: v for k, v in c.items() if k != "fam"}, sort_keys=True)
        fam = c.get("fam", "?")
        chk.count("fam:" + fam)
        chk.count("rf:pair:" + str(c.get("pair")))
        if out.get("error"):
            chk.mark(key, False)
            chk.violation("the writer / reloader could not be driven through the schedule: " + out["error"], c,
                          impl=out["error"])
            continue
        evs = [e for e in out["events"] if e["kind"] == "check"]
        n_mid = sum(1 for e in evs if isinstance(e["at"], int) and 0 < e["at"] < len(out["writer_calls"]))
        chk.mark(key, n_mid >= 1 or out["outcome"] != "returned" or bool(c.get("tail")))
        STATS["cases"] += 1
        STATS["checks"] += sum(1 for e in evs if e["done"])
        STATS["checks_between_writer_calls"] += n_mid
        seq = " ".join(out["writer_calls"])
        if c.get("writer", "atomic") == "atomic" and c.get("stop") is None:
            STATS["writer_call_sequences"][seq] = STATS["writer_call_sequences"].get(seq, 0) + 1
        begs = {}
        for e in evs:
            if e["act"][0] in ("beg", "step"):
                begs.setdefault(e["act"][1], set()).add(e["at"])
        STATS["stepped_checks_straddling_a_writer_call"] += sum(1 for s in begs.values() if len(s) > 1)
        for e in evs:
            if e["res"] in (True, False):
                chk.count("rf:result:%s" % e["res"])
            for x in e["calls"]:
                if x[1] == "exc":
                    chk.count("rf:exc:%s:%s" % (x[0], x[2]))
        viol, facts = judge(c, out)
        oc = facts["outcome"] + ("" if c.get("stop") is None else ":" + c["stop"][1])
        chk.sample({"case": c, "impl": {"writer_calls": out["writer_calls"], "outcome": out["outcome"],
                                        "final": out["final"]}}, every=211)
        if c.get("writer", "atomic") != "atomic":
            # control: the application's misuse, not the library's - recorded, never a violation
            STATS["control_cases"] += 1
            torn = facts["torn"]
            STATS["control_tears"] += int(torn)
            if _is_ctl_yaml_valid(c):
                STATS["control_yaml_valid_prefix_cases"] += 1
                STATS["control_yaml_valid_prefix_tears"] += int(torn)
            elif fmt_of(c["name"]) == "json":
                STATS["control_json_cases"] += 1
                STATS["control_json_tears"] += int(torn)
            chk.count("rf:control:%s" % ("tears" if torn else "does-not-tear"))
            if replay:
                print("control case (in-place writer): %s" % ("tears" if torn else "does not tear"))
            continue
        STATS["writer_outcomes"][oc] = STATS["writer_outcomes"].get(oc, 0) + 1
        STATS["conv"][facts["conv"]] = STATS["conv"].get(facts["conv"], 0) + 1
        chk.count("rf:convergence:" + facts["conv"])
        for clause, detail in viol[:2]:
            chk.violation(clause, c, impl={"detail": detail, "writer_calls": out["writer_calls"], "outcome": out["outcome"],
                                           "path_between_calls": out["paths"], "events": out["events"],
                                           "final": out["final"], "expected_decisions": out["vecs"]},
                          model="no model run (ReloadFile.run_sys has no runner entry): judged by the theorem's statement")


def evidence(chk):
    s = STATS
    chk.extra["reload_file_tie"] = {
        "what": "real atomic_write interleaved with real HotReloader(Guard, FilePolicySource) checks at the writer's "
                "file-system call boundaries, one thread; judged directly by the statements of " + ", ".join(THEOREMS) +
                " (ReloadFile.run_sys is exported by no runner: no model run)",
        "schedules": s["cases"] - s["control_cases"], "checks_completed": s["checks"],
        "checks_run_between_two_writer_calls": s["checks_between_writer_calls"],
        "stepped_checks_straddling_a_writer_call": s["stepped_checks_straddling_a_writer_call"],
        "writer_outcomes": s["writer_outcomes"],
        "writer_call_sequences_of_complete_writes": s["writer_call_sequences"],
        "convergence": s["conv"],
        "convergence_not_judged_same_size_same_mtime_tick": s["conv"].get("excluded:same-size-same-mtime-tick", 0),
        "control_in_place_cases": s["control_cases"],
        "control_in_place_yaml_valid_prefix": [s["control_yaml_valid_prefix_tears"], s["control_yaml_valid_prefix_cases"]],
        "control_in_place_json": [s["control_json_tears"], s["control_json_cases"]],
        "control_in_place_tears": bool(s["control_yaml_valid_prefix_cases"]) and
        s["control_yaml_valid_prefix_tears"] == s["control_yaml_valid_prefix_cases"],
    }


def run(chk):
    import time
    t0 = time.time()
    cases = gen_cases(chk)
    for c in cases:
        spec = c10.cache_spec(chk.rng)      # None for most: no cache, as before
        if spec:
            c["cache"] = spec
            chk.count("cache:atomic_write schedules with a failing cache backend")
    check_cases(chk, cases)
    evidence(chk)
    chk.extra["reload_file_tie"]["wall_s"] = round(time.time() - t0, 2)
    return len(cases)
