"""Deterministic cooperative scheduler over real threads (test-side only).

Registered threads run real code under ``sys.settrace``.  Inside the chosen
functions of the chosen source files a thread stops *before* every source line
that the stop filter selects and continues only when the scheduler grants it a
step; everything between two stop points (calls into other modules, the
``asyncio.to_thread`` hand-off to a worker thread, the event loop) is part of
the step.  Exactly one controlled thread runs at a time, so an execution is a
function of the sequence of grants: replaying the sequence replays the run.

Blocking: a thread stopped at ``with <name>:`` whose ``<name>`` is a lock that
reports ``locked()`` is *predicted* disabled (no grant is attempted).  A granted
thread that does not reach its next stop point within ``block_timeout`` is
*observed* blocked; it stays in limbo and is picked up again when it reaches a
stop point after another thread has released what it waits for.

No source hooks: source lines are found by text patterns at run time.
"""
from __future__ import annotations

import _thread
import linecache
import os
import re
import sys
import threading

_WITH_RE = re.compile(r"^\s*with\s+([A-Za-z_][A-Za-z_0-9]*(?:\.[A-Za-z_][A-Za-z_0-9]*)*)\s*:")


class Stop:
    """where a controlled thread is waiting: before executing `text`."""

    __slots__ = ("func", "lineno", "text", "frame", "is_exit")

    def __init__(self, func, lineno, text, frame, is_exit=False):
        self.func, self.lineno, self.text, self.frame, self.is_exit = func, lineno, text, frame, is_exit

    def key(self):
        return (self.func, self.text.strip())

    def __repr__(self):
        return f"{self.func}:{self.lineno}:{self.text.strip()}" + (" (exit)" if self.is_exit else "")


class _T:
    def __init__(self, name, target):
        self.name = name
        self.target = target
        self.thread = None
        # binary signals (raw locks, released by the other side; each release is consumed once)
        self.go = _thread.allocate_lock()     # scheduler -> thread: run to the next stop point
        self.go.acquire()
        self.halt = _thread.allocate_lock()   # thread -> scheduler: stopped (or done)
        self.halt.acquire()
        self.stop: Stop | None = None
        self.done = False
        self.started = False
        self.limbo = False                    # granted, did not come back in time
        self.result = None
        self.exc = None
        self.free_run = False                 # scheduler gave up control (cleanup)
        self.in_with: set = set()             # (id(frame), lineno) of `with` lines entered, not yet left


class Scheduler:
    def __init__(self, files, funcs=None, stop_filter=None, block_timeout=10.0, hard_timeout=20.0):
        """files: iterable of source file paths to trace; funcs: optional set of function
        names (co_name) to trace inside them; stop_filter(func, text, is_exit) -> bool selects
        the lines that are stop points (default: every line); block_timeout: how long a granted
        thread may take to reach its next stop point before it is declared blocked."""
        self.files = {os.path.realpath(f) for f in files}
        self.funcs = set(funcs) if funcs else None
        self.stop_filter = stop_filter
        self.block_timeout = block_timeout
        self.hard_timeout = hard_timeout
        self.threads: dict[str, _T] = {}
        self.trace: list[tuple[str, str, str]] = []   # (thread, func, line text) of every executed stop point
        self._fn_cache: dict = {}

    # ------------------------------------------------------------------ thread side
    def _want(self, code) -> bool:
        r = self._fn_cache.get(code)
        if r is None:
            fn = code.co_filename
            r = (os.path.realpath(fn) in self.files) and (self.funcs is None or code.co_name in self.funcs)
            self._fn_cache[code] = r
        return r

    def _make_tracer(self, t: _T):
        def local(frame, event, arg):
            if event == "line" and not t.free_run:
                code = frame.f_code
                text = linecache.getline(code.co_filename, frame.f_lineno)
                is_exit = False
                if _WITH_RE.match(text):
                    # a `with` line is reported twice: on entry and again when the block is left
                    k = (id(frame), frame.f_lineno)
                    if k in t.in_with:
                        t.in_with.discard(k)
                        is_exit = True
                    else:
                        t.in_with.add(k)
                if self.stop_filter is None or self.stop_filter(code.co_name, text, is_exit):
                    t.stop = Stop(code.co_name, frame.f_lineno, text, frame, is_exit)
                    t.halt.release()
                    t.go.acquire()
                    t.stop = None
            return local

        def glob(frame, event, arg):
            if event == "call" and self._want(frame.f_code):
                return local
            return None

        return glob

    def _run(self, t: _T):
        sys.settrace(self._make_tracer(t))
        try:
            t.result = t.target()
        except BaseException as e:  # noqa: BLE001
            t.exc = e
        finally:
            sys.settrace(None)
            t.done = True
            t.stop = None
            t.halt.release()

    # ------------------------------------------------------------------ scheduler side
    def add(self, name, target):
        self.threads[name] = _T(name, target)

    def _await(self, t: _T, timeout=None) -> str:
        if t.halt.acquire(timeout=self.block_timeout if timeout is None else timeout):
            t.limbo = False
            return "done" if t.done else "stopped"
        t.limbo = True
        return "blocked"

    def _poll_limbo(self):
        for t in self.threads.values():
            if t.limbo and t.halt.acquire(timeout=0.05):
                t.limbo = False

    def start(self, name) -> str:
        """start the thread and let it run to its first stop point."""
        t = self.threads[name]
        if t.started:
            raise RuntimeError("already started: " + name)
        t.started = True
        t.thread = threading.Thread(target=self._run, args=(t,), name="sched-" + name, daemon=True)
        t.thread.start()
        return self._await(t)

    def at(self, name) -> Stop | None:
        t = self.threads[name]
        return None if (t.done or t.limbo or not t.started) else t.stop

    def is_done(self, name) -> bool:
        return self.threads[name].done

    def predicted_blocked(self, name) -> bool:
        st = self.at(name)
        if st is None or st.is_exit:
            return False
        m = _WITH_RE.match(st.text)
        if not m:
            return False
        try:
            parts = m.group(1).split(".")
            obj = st.frame.f_locals.get(parts[0])
            for a in parts[1:]:
                obj = getattr(obj, a, None)
            lk = getattr(obj, "locked", None)
            return bool(lk()) if lk is not None else False
        except Exception:  # noqa: BLE001
            return False

    def enabled(self, name) -> bool:
        t = self.threads[name]
        if t.done or t.limbo:
            return False
        if not t.started:
            return True
        return not self.predicted_blocked(name)

    def step(self, name, timeout=None) -> str:
        """grant one step: the thread executes its current stop line and runs to the next
        stop point.  Returns 'stopped' | 'done' | 'blocked'."""
        t = self.threads[name]
        if not t.started:
            return self.start(name)
        if t.done:
            return "done"
        if t.limbo:
            self._poll_limbo()
            if t.limbo:
                return "blocked"
            return "done" if t.done else "stopped"
        st = t.stop
        if st is not None:
            self.trace.append((name, st.func, st.text.strip()))
        t.go.release()
        r = self._await(t, timeout)
        self._poll_limbo()
        return r

    def run_until(self, name, pred, max_steps=10000) -> str:
        """grant steps until the thread is stopped before a line with pred(Stop) true (or is
        done / blocked / predicted blocked)."""
        r = "stopped"
        if not self.threads[name].started:
            r = self.start(name)
        for _ in range(max_steps):
            if r != "stopped":
                return r
            st = self.at(name)
            if st is None:
                return "done" if self.is_done(name) else "blocked"
            if pred(st):
                return "stopped"
            if self.predicted_blocked(name):
                return "blocked"
            r = self.step(name)
        return r

    def finish(self, order=None):
        """run every thread to completion (round robin over enabled threads)."""
        names = list(order or self.threads)
        for _ in range(100000):
            progressed = False
            alive = False
            for n in names:
                t = self.threads[n]
                if t.done:
                    continue
                alive = True
                if self.enabled(n):
                    while not t.done and self.enabled(n):
                        if self.step(n) == "blocked":
                            break
                        progressed = True
            if not alive:
                return True
            if not progressed:
                self._poll_limbo()
                if not any(self.enabled(n) for n in names if not self.threads[n].done):
                    return False  # deadlock
        return False

    def close(self):
        """release every thread from control and join."""
        for t in self.threads.values():
            t.free_run = True
            if t.started and not t.done:
                t.go.release()
        for t in self.threads.values():
            if t.thread is not None:
                t.thread.join(timeout=self.hard_timeout)

    def results(self):
        return {n: (t.result, t.exc) for n, t in self.threads.items()}
