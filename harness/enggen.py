"""Engine-level cases shared by C01, C06, C08, C11, C13: generation, running Guard with recording
collaborators, running the model (engine.eval / engine.facts)."""
import asyncio
import copy
import json
import itertools
import multiprocessing as mp

import gen
import lib
import polgen

RUNNER = "engine"

import datetime as _dt0

DT_NOW = _dt0.datetime(2025, 1, 1, tzinfo=_dt0.timezone.utc)

OBLS = [None, [], [{"type": "require_mfa"}], [{"type": "require_level", "attrs": {"min": 2}}],
        [{"type": "require_mfa", "on": "deny"}], [{"type": "unknown_kind"}],
        [{"type": "require_mfa"}, {"type": "require_reauth", "attrs": {"max_age": 60}}],
        [{"type": "http_challenge", "attrs": {"scheme": "Basic"}}],
        [{"type": {"vendor": "x", "name": "audit"}}, {"type": "require_mfa"}], [{"type": ["require_mfa"]}, {"type": "require_level", "attrs": {"min": 2}}],
        [{"type": "http_challenge", "attrs": {"scheme": 1}}], [{"type": "require_consent", "attrs": {"key": ""}}],
        [{"type": "require_level", "attrs": {"min": 1}}, {"type": "require_level", "attrs": {"min": 3}}],
        [{"type": "require_reauth", "attrs": {"max_age": 3600}}, {"type": "require_mfa"}, {"type": "require_reauth", "attrs": {"max_age": 60}}]]
CTXS = [{"auth_level": 2, "mfa": True, "reauth_age_seconds": 900}, {"now": DT_NOW, "mfa": True}, {"now": "2025-01-01T00:00:00Z"}, {"now": 1735689600, "n": 5}, {}, {"mfa": True}, {"mfa": True, "auth_level": 3, "reauth_age_seconds": 5}, {"auth_level": "high"},
        {"mfa": 0, "n": 5}, {"mfa": True, "n": 5, "reauth_age_seconds": 500}]
REL_CONDS = [{"rel": "viewer"}, {"rel": {"relation": "owner", "resource": {"attr": "resource.attrs.parent"}}},
             {"and": [{"rel": "viewer"}, {"rel": "viewer"}]}, {"or": [{"rel": "editor"}, {"rel": "viewer"}]},
             {"not": {"rel": "banned"}}, {"rel": {"relation": "viewer", "subject": "group:g1", "ctx": {"ip": "10.0.0.1"}}}]


import datetime as _dt

DT_LITERAL = _dt.datetime(2999, 1, 1, tzinfo=_dt.timezone.utc)


def rich_rule(rng, i):
    rule = {"id": "r%d" % i, "effect": rng.choice(["permit", "permit", "deny"]),
            "actions": rng.choice([["read"], ["*"], ["write"], ["read", "write"]]),
            "resource": rng.choice([{"type": "doc"}, {"type": "*"}, {"type": ["doc", "img"]}, {"type": "doc", "id": "1"},
                                    {"type": "doc", "id": 1}, {"type": "doc", "attrs": {"k": 1}}, {"type": "img"},
                                    {"type": "doc", "attrs": {"k": [1, 2]}}, {"type": "doc", "attrs": {"k": "1"}},
                                    {"type": "doc", "attrs": {"locked_by": None}}, {"type": "doc", "attrs": {"k": [None, 1]}},
                                    {"type": "doc", "attrs": {"owner": "None"}}])}
    r = rng.random()
    if r < 0.25:
        rule["condition"] = rng.choice([{"==": [{"attr": "context.n"}, 5]}, {"<": [{"attr": "context.n"}, 3]},
                                        {"hasAny": [{"attr": "subject.roles"}, ["admin", "staff"]]},
                                        {"in": ["staff", {"attr": "subject.roles"}]},
                                        {"==": [{"attr": "subject.roles"}, ["admin", "staff"]]},
                                        {"!=": [{"attr": "subject.roles"}, ["staff", "admin"]]},
                                        {"<": [{"attr": "subject.id"}, 5]}, {"startsWith": [{"attr": "subject.attrs.dept"}, "en"]},
                                        {"before": [{"attr": "context.now"}, "2999-01-01T00:00:00Z"]}, False, True,
                                        # logic trees whose operands are ill-typed for some requests (short-circuit, not/or)
                                        {"not": {"or": [{"<": [{"attr": "subject.id"}, 5]}, {"==": [{"attr": "context.n"}, 6]}]}},
                                        {"or": [{"<": [{"attr": "subject.attrs.dept"}, 3]}, True]},
                                        {"or": [{"==": [{"attr": "context.n"}, 5]}, {"<": [{"attr": "subject.attrs.dept"}, 3]}]},
                                        {"and": [{"==": [{"attr": "context.n"}, 6]}, {">": [{"attr": "subject.id"}, 1]}]},
                                        {"not": {"and": [False, {"startsWith": [{"attr": "context.n"}, "x"]}]}},
                                        {"not": {"or": [{">": [{"attr": "context.missing"}, 3]}, False]}},
                                        # a policy need not be JSON text: datetime objects as literals (json.dumps cannot serialise them)
                                        {"after": [DT_LITERAL, {"attr": "context.now"}]},
                                        {"before": [{"attr": "context.missing"}, DT_LITERAL]}])
    elif r < 0.4:
        rule["condition"] = copy.deepcopy(rng.choice(REL_CONDS))
    ob = rng.choice(OBLS)
    if ob is not None:
        rule["obligations"] = copy.deepcopy(ob)
    return rule


def rich_policy(rng, depth=0):
    if depth < 2 and rng.random() < (0.35 if depth == 0 else 0.25):
        kids = [rich_policy(rng, depth + 1) for _ in range(rng.choice([1, 2, 2, 3]))]
        for k in kids:               # the schema does not require ids: children without one, or with an empty one
            r = rng.random()
            if r < 0.25:
                k.pop("id", None)
            elif r < 0.32:
                k["id"] = ""
        ps = {"id": "s%d" % rng.randrange(100), "policies": kids}
        a = rng.choice(polgen.ALGOS + [None])
        if a:
            ps["algorithm"] = a
        return ps
    pol = {"id": "p%d" % rng.randrange(100), "rules": [rich_rule(rng, rng.randrange(1000)) for _ in range(rng.choice([0, 1, 2, 3, 4]))]}
    a = rng.choice(polgen.ALGOS + ([None] if depth > 0 else []))  # top-level single policies name their algorithm (F12)
    if a:
        pol["algorithm"] = a
    return pol


def requests(rng, n):
    out = []
    for _ in range(n):
        out.append({"subject": {"id": rng.choice(["u1", "u2", 7, None]), "roles": rng.choice([["staff"], [], ["admin", "staff"], ["x"], ["staff", "admin"], ["admin", "staff", "admin"]]),
                                "attrs": rng.choice([{"dept": "eng"}, {}, {"dept": 5}])},
                    "action": rng.choice(["read", "read", "write", "delete"]),
                    "resource": {"type": rng.choice(["doc", "doc", "img", None, 1]), "id": rng.choice(["1", 1, "2", None]),
                                 "attrs": rng.choice([{"k": 1}, {"k": "1"}, {"k": 2, "parent": "folder:f1"}, {}])},
                    "context": copy.deepcopy(rng.choice(CTXS))})
    return out


def pattern_cases(chk, maxlen):
    """every rule-outcome pattern x algorithm through the engine, with obligations on some"""
    out = []
    n = 0
    for pat in polgen.all_patterns(maxlen):
        n += 1
        for ai, algo in enumerate(polgen.ALGOS):
            if len(pat) == maxlen and maxlen >= 3 and (n + ai) % 5 != chk.seed % 5:
                continue
            pol = polgen.pattern_policy(pat, algo, with_obl=(n % 3 == 0))
            out.append({"fam": "pattern%d" % len(pat), "policy": pol, "req": polgen.BASE_REQ, "strict": False})
            if n % 4 == 0:
                out.append({"fam": "pattern%d" % len(pat), "policy": pol,
                            "req": {**polgen.BASE_REQ, "context": {"n": 5}}, "strict": n % 8 == 0})
    return out


def set_cases(chk):
    pool = polgen.child_pool()
    out = []
    for k in (1, 2):
        for combo in itertools.product(range(len(pool)), repeat=k):
            for algo in polgen.ALGOS + [None]:
                ps = {"policies": [pool[i][1] for i in combo]}
                if algo:
                    ps["algorithm"] = algo
                out.append({"fam": "set%d" % k, "policy": ps, "req": polgen.BASE_REQ, "strict": False})
                if k == 2:           # the first child without an id (the schema does not require one)
                    first = {kk: v for kk, v in pool[combo[0]][1].items() if kk != "id"}
                    ps2 = dict(ps, policies=[first, pool[combo[1]][1]])
                    out.append({"fam": "set2_noid", "policy": ps2, "req": polgen.BASE_REQ, "strict": False})
    return out


def role_order_cases():
    """policies that compare the whole role list, on engines with a cache, for role lists that are permutations of one
    another or differ by a repeat (the warm runs evaluate the permuted / repeated sibling first)"""
    out = []
    conds = [{"==": [{"attr": "subject.roles"}, ["admin", "staff"]]}, {"!=": [{"attr": "subject.roles"}, ["staff", "admin"]]},
             {"==": [{"attr": "subject.roles"}, ["staff"]]}, {"in": [{"attr": "subject.roles"}, [["admin", "staff"], ["x"]]]}]
    for ci, cond in enumerate(conds):
        for algo in polgen.ALGOS:
            pol = {"id": "roles%d" % ci, "algorithm": algo, "rules": [
                {"id": "exact", "effect": "permit", "actions": ["read"], "resource": {"type": "doc"}, "condition": cond},
                {"id": "other", "effect": "deny", "actions": ["write"], "resource": {"type": "doc"}}]}
            for roles in (["admin", "staff"], ["staff", "admin"], ["admin", "staff", "admin"], ["staff"], ["staff", "staff"], []):
                req = {**polgen.BASE_REQ, "subject": {"id": "u1", "roles": roles, "attrs": {}}}
                for shape in ("single", "set"):
                    p2 = pol if shape == "single" else {"algorithm": "deny-overrides", "policies": [pol]}
                    out.append({"fam": "role_order", "policy": p2, "req": req, "strict": False, "cache": True})
    return out


def time_mode_cases():
    """time operators whose bound is an ISO literal written in the policy, against requests carrying an aware datetime, a
    naive one, an ISO string or an epoch number, in both type modes (strict accepts aware datetimes only - the literal
    in the policy is a string there, hence a type mismatch), single policy (compiled path) and set"""
    naive = _dt0.datetime(2025, 1, 1)
    out = []
    conds = [{"before": [{"attr": "context.now"}, "2999-01-01T00:00:00Z"]}, {"after": ["2999-01-01T00:00:00Z", {"attr": "context.now"}]},
             {"between": [{"attr": "context.now"}, ["2000-01-01T00:00:00Z", "2999-01-01T00:00:00Z"]]},
             {"not": {"after": [{"attr": "context.now"}, "2999-01-01T00:00:00+00:00"]}},
             {"before": [{"attr": "context.now"}, DT_LITERAL]}]
    for ci, cond in enumerate(conds):
        pol = {"id": "time%d" % ci, "algorithm": "deny-overrides", "rules": [
            {"id": "window", "effect": "permit", "actions": ["read"], "resource": {"type": "doc"}, "condition": cond}]}
        for now in (DT_NOW, naive, "2025-01-01T00:00:00Z", 1735689600, None):
            req = {**polgen.BASE_REQ, "context": {"now": now}}
            for strict in (False, True):
                for shape in ("single", "set"):
                    p2 = pol if shape == "single" else {"algorithm": "deny-overrides", "policies": [pol]}
                    out.append({"fam": "time_mode", "policy": p2, "req": req, "strict": strict})
    return out


def random_cases(chk, n):
    rng = chk.rng
    out = []
    for _ in range(n):
        pol = rich_policy(rng)
        for req in requests(rng, 2):
            out.append({"fam": "random", "policy": pol, "req": req, "strict": rng.random() < 0.3,
                        "resolver": rng.choice([None, None, "static", "raising"]),
                        "checker": rng.choice([None, "sync", "sync", "async", "raising", "def-coroutine", "async-callable",
                                               "decorated-async", "async-raising", "custom-awaitable"]),
                        "cache": rng.random() < 0.4})
    return out


def rel_answer(subject, relation, resource, ctx):
    """deterministic pseudo-random relationship data"""
    import hashlib
    h = hashlib.sha256(repr((subject, relation, resource, sorted((ctx or {}).items(), key=repr))).encode()).digest()
    return h[0] % 3 != 0


GRAPH = {"admin": ["staff"], "staff": ["user"], "x": ["x", "staff"]}


def run_impl_one(c):
    """returns dict with decisions (list: cold [, cached]), rel table, sink records, resolver answer"""
    from rbacx.core.cache import DefaultInMemoryCache
    from rbacx.core.engine import Guard
    from rbacx.core.model import Action, Context, Resource, Subject
    from rbacx.core.roles import StaticRoleResolver

    table = []

    class SyncChecker:
        def check(self, subject, relation, resource, *, context=None):
            a = rel_answer(subject, relation, resource, context)
            table.append([subject, relation, resource, copy.deepcopy(context), a])
            return a

        def batch_check(self, triples, *, context=None):
            return [self.check(*t, context=context) for t in triples]

    class AsyncChecker(SyncChecker):
        async def check(self, subject, relation, resource, *, context=None):  # type: ignore[override]
            await asyncio.sleep(0)
            return SyncChecker.check(self, subject, relation, resource, context=context)

    class RaisingChecker(SyncChecker):
        def check(self, subject, relation, resource, *, context=None):
            table.append([subject, relation, resource, copy.deepcopy(context), None])
            raise RuntimeError("rebac down")

    # asynchronous checkers whose check() is not literally an `async def` (delegating wrappers, clients
    # returning awaitables): every one must be awaited like an async def
    class DefCoroutineChecker(SyncChecker):
        def check(self, subject, relation, resource, *, context=None):  # type: ignore[override]
            return AsyncChecker.check(self, subject, relation, resource, context=context)

    class _ACall:
        def __init__(self, owner):
            self.owner = owner

        async def __call__(self, subject, relation, resource, *, context=None):
            await asyncio.sleep(0)
            return SyncChecker.check(self.owner, subject, relation, resource, context=context)

    class AsyncCallableChecker(SyncChecker):
        def __init__(self):
            self.check = _ACall(self)  # type: ignore[method-assign]

    def _plain_decorator(fn):
        import functools

        @functools.wraps(fn)
        def wrapper(*a, **k):
            return fn(*a, **k)
        return wrapper

    class DecoratedAsyncChecker(SyncChecker):
        @_plain_decorator
        async def check(self, subject, relation, resource, *, context=None):  # type: ignore[override]
            await asyncio.sleep(0)
            return SyncChecker.check(self, subject, relation, resource, context=context)

    class AsyncRaisingChecker(SyncChecker):
        async def check(self, subject, relation, resource, *, context=None):  # type: ignore[override]
            table.append([subject, relation, resource, copy.deepcopy(context), None])
            await asyncio.sleep(0)
            raise RuntimeError("rebac down (while awaited)")

    class _LaterAnswer:                      # awaitable only through __await__ (neither coroutine nor Future)
        def __init__(self, owner, a, context):
            self.owner, self.a, self.context = owner, a, context

        def __await__(self):
            return AsyncChecker.check(self.owner, *self.a, context=self.context).__await__()

    class CustomAwaitableChecker(SyncChecker):
        def check(self, subject, relation, resource, *, context=None):  # type: ignore[override]
            return _LaterAnswer(self, (subject, relation, resource), context)

    CHECKERS = {"custom-awaitable": CustomAwaitableChecker, "sync": SyncChecker, "async": AsyncChecker, "raising": RaisingChecker,
                "def-coroutine": DefCoroutineChecker, "async-callable": AsyncCallableChecker,
                "decorated-async": DecoratedAsyncChecker, "async-raising": AsyncRaisingChecker}

    class Sink:
        def __init__(self, fail=False):
            self.payloads, self.fail = [], fail

        def log(self, payload):
            self.payloads.append(copy.deepcopy(payload))
            if self.fail:
                raise RuntimeError("sink down")

    class Metrics:
        def __init__(self, fail=False):
            self.incs, self.fail = [], fail

        def inc(self, name, labels=None):
            self.incs.append((name, dict(labels or {})))
            if self.fail:
                raise RuntimeError("metrics down")

        def observe(self, name, value, labels=None):
            if self.fail:
                raise RuntimeError("metrics down")

    req = c["req"]
    kw = {}
    resolved = None
    if c.get("resolver") == "static":
        kw["role_resolver"] = StaticRoleResolver(GRAPH)
        resolved = StaticRoleResolver(GRAPH).expand(list(req["subject"].get("roles") or []))
    elif c.get("resolver") == "raising":
        class R:
            def expand(self, roles):
                raise RuntimeError("resolver down")
        kw["role_resolver"] = R()
    ck = c.get("checker")
    if ck:
        kw["relationship_checker"] = CHECKERS[ck]()
    class AsyncSink(Sink):                       # the same sinks as `async def`s: they fail while awaited
        async def log(self, payload):            # type: ignore[override]
            self.payloads.append(copy.deepcopy(payload))
            await asyncio.sleep(0)
            if self.fail:
                raise RuntimeError("sink down (awaited)")

    class AsyncMetrics(Metrics):
        async def inc(self, name, labels=None):  # type: ignore[override]
            self.incs.append((name, dict(labels or {})))
            await asyncio.sleep(0)
            if self.fail:
                raise RuntimeError("metrics down (awaited)")

        async def observe(self, name, value, labels=None):  # type: ignore[override]
            await asyncio.sleep(0)
            if self.fail:
                raise RuntimeError("metrics down (awaited)")

    sf = c.get("sinks_fail")      # True / "both": both sinks raise; "metrics" / "log": only that one raises
    if c.get("sinks_async"):
        sink, metrics = AsyncSink(fail=sf in (True, "both", "log")), AsyncMetrics(fail=sf in (True, "both", "metrics"))
    else:
        sink, metrics = Sink(fail=sf in (True, "both", "log")), Metrics(fail=sf in (True, "both", "metrics"))
    kw["logger_sink"], kw["metrics"] = sink, metrics
    if c.get("cache"):
        kw["cache"] = DefaultInMemoryCache(64)
    pol_before = copy.deepcopy(c["policy"])
    # lax is the documented default: when the case is lax the argument is simply omitted
    strict_kw = {"strict_types": True} if c.get("strict") else {}
    g = Guard(c["policy"], **strict_kw, **kw)
    subj = Subject(id=req["subject"].get("id"), roles=list(req["subject"].get("roles") or []), attrs=dict(req["subject"].get("attrs") or {}))
    res = Resource(type=req["resource"].get("type"), id=req["resource"].get("id"), attrs=dict(req["resource"].get("attrs") or {}))
    ctx = Context(attrs=dict(req.get("context") or {}))
    act = Action(req.get("action"))
    decisions = []
    tables = []

    async def go():
        for _ in range(2 if c.get("cache") else 1):
            del table[:]
            try:
                d = await g.evaluate_async(subj, act, res, ctx)
                decisions.append(copy.deepcopy({"allowed": d.allowed, "effect": d.effect, "obligations": d.obligations,
                                                "challenge": d.challenge, "rule_id": d.rule_id, "policy_id": d.policy_id,
                                                "reason": d.reason}))
                # the caller consumes the Decision it was handed (list-level edits of its obligations, as a PEP that
                # pops them while fulfilling them): nothing of that may reach the next answer (the cache hit)
                if isinstance(d.obligations, list):
                    k = len(json.dumps(c["req"], default=str)) % 3
                    if k == 0:
                        d.obligations.clear()
                    elif k == 1 and d.obligations:
                        d.obligations.pop(0)
                    else:
                        d.obligations.append({"type": "zz_caller_note"})
            except Exception as e:  # noqa: BLE001
                decisions.append(["Raise", type(e).__name__])
            tables.append(copy.deepcopy(table))

    asyncio.run(go())
    warm = []
    if c.get("warm", True):
        try:
            warm = _warm_runs(c, kw, subj, act, res, ctx, CHECKERS)
        except Exception as e:  # noqa: BLE001  (harness trouble must not masquerade as a verdict)
            warm = [{"how": "harness-error", "decision": ["HarnessError", repr(e)[:200]]}]
    return {"decisions": decisions, "tables": tables, "payloads": sink.payloads, "incs": metrics.incs,
            "resolved": resolved, "policy_unchanged": pol_before == c["policy"], "warm": warm}


DECOY_RULE = {"id": "zz_decoy", "effect": "permit", "actions": ["*"], "resource": {}}


def _siblings(req):
    """requests differing from req in one place (attributes, id, type, action, roles, context)"""
    out = []
    for attrs in ({}, {"k": 2}, {"k": "1"}, {"k": 1, "extra": True}):
        if attrs != (req["resource"].get("attrs") or {}):
            out.append({**req, "resource": {**req["resource"], "attrs": attrs}})
    out.append({**req, "resource": {**req["resource"], "id": "other-id"}})
    out.append({**req, "resource": {**req["resource"], "type": "img" if req["resource"].get("type") != "img" else "doc"}})
    out.append({**req, "action": "write" if req.get("action") != "write" else "read"})
    out.append({**req, "subject": {**req["subject"], "roles": ["admin"] if req["subject"].get("roles") != ["admin"] else []}})
    roles = list(req["subject"].get("roles") or [])
    if len(roles) >= 2:          # the same role set in another order / with a repeat: other requests all the same
        out.append({**req, "subject": {**req["subject"], "roles": roles[::-1]}})
    if roles:
        out.append({**req, "subject": {**req["subject"], "roles": roles + roles[:1]}})
    else:
        out.append({**req, "subject": {**req["subject"], "roles": ["staff", "admin"]}})
    out.append({**req, "context": {"mfa": True, "n": 5} if req.get("context") != {"mfa": True, "n": 5} else {}})
    return out


def _warm_runs(c, kw, subj, act, res, ctx, CHECKERS):
    """the same request on engines with a past: (1) after sibling requests on the same Guard, (2) after the
    policy object was edited in place and re-installed with set_policy(same object), (3) after set_policy(fresh
    object) on a Guard created with another policy.  Every one must give the decision of a fresh Guard."""
    from rbacx.core.cache import DefaultInMemoryCache
    from rbacx.core.engine import Guard
    from rbacx.core.model import Action, Context, Resource, Subject

    def mk(policy):
        kw2 = {k: v for k, v in kw.items() if k in ("role_resolver",)}
        ck = c.get("checker")
        if ck:
            kw2["relationship_checker"] = CHECKERS[ck]()
        if c.get("cache"):
            kw2["cache"] = DefaultInMemoryCache(64)
        return Guard(policy, strict_types=bool(c.get("strict")), **kw2)

    def objs(r):
        return (Subject(id=r["subject"].get("id"), roles=list(r["subject"].get("roles") or []), attrs=dict(r["subject"].get("attrs") or {})),
                Action(r.get("action")),
                Resource(type=r["resource"].get("type"), id=r["resource"].get("id"), attrs=dict(r["resource"].get("attrs") or {})),
                Context(attrs=dict(r.get("context") or {})))

    def dec(d):
        return {"allowed": d.allowed, "effect": d.effect, "obligations": d.obligations, "challenge": d.challenge,
                "rule_id": d.rule_id, "policy_id": d.policy_id, "reason": d.reason}

    pol = c["policy"]
    if "policies" in pol:
        decoy = {**copy.deepcopy(pol), "policies": [{"id": "zz_decoy_pol", "algorithm": "permit-overrides",
                                                      "rules": [copy.deepcopy(DECOY_RULE)]}] + copy.deepcopy(pol.get("policies") or [])}
        key = "policies"
    else:
        decoy = {**copy.deepcopy(pol), "rules": [copy.deepcopy(DECOY_RULE)] + copy.deepcopy(pol.get("rules") or [])}
        key = "rules"
    out = []

    async def go():
        # (1) siblings first
        g = mk(copy.deepcopy(pol))
        for sreq in _siblings(c["req"]):
            try:
                await g.evaluate_async(*objs(sreq))
            except Exception:  # noqa: BLE001
                pass
        try:
            out.append({"how": "after sibling requests on the same Guard", "decision": dec(await g.evaluate_async(subj, act, res, ctx))})
        except Exception as e:  # noqa: BLE001
            out.append({"how": "after sibling requests on the same Guard", "decision": ["Raise", type(e).__name__]})
        # (2) in-place edit + set_policy(same object)
        obj = copy.deepcopy(decoy)
        g = mk(obj)
        try:
            await g.evaluate_async(subj, act, res, ctx)
        except Exception:  # noqa: BLE001
            pass
        if isinstance(obj.get(key), list) and obj[key]:
            del obj[key][0]
        g.set_policy(obj)
        try:
            out.append({"how": "after an in-place edit of the policy object and set_policy(same object)",
                        "decision": dec(await g.evaluate_async(subj, act, res, ctx))})
        except Exception as e:  # noqa: BLE001
            out.append({"how": "after an in-place edit of the policy object and set_policy(same object)", "decision": ["Raise", type(e).__name__]})
        # (3) set_policy(fresh object)
        g = mk(copy.deepcopy(decoy))
        try:
            await g.evaluate_async(subj, act, res, ctx)
        except Exception:  # noqa: BLE001
            pass
        g.set_policy(copy.deepcopy(pol))
        try:
            out.append({"how": "after set_policy(fresh object) on a Guard created with another policy",
                        "decision": dec(await g.evaluate_async(subj, act, res, ctx))})
        except Exception as e:  # noqa: BLE001
            out.append({"how": "after set_policy(fresh object) on a Guard created with another policy", "decision": ["Raise", type(e).__name__]})

        # (4) a Guard created with ANOTHER configuration whose public attributes are then reassigned to this case's
        #     (policy via set_policy; strict_types, role_resolver, relationship_checker, obligations, cache, cache_ttl)
        g = Guard(copy.deepcopy(decoy), strict_types=not bool(c.get("strict")))
        try:
            await g.evaluate_async(subj, act, res, ctx)
        except Exception:  # noqa: BLE001
            pass
        ref = mk(copy.deepcopy(pol))
        g.set_policy(copy.deepcopy(pol))
        g.strict_types = bool(c.get("strict"))
        g.role_resolver = ref.role_resolver
        g.relationship_checker = ref.relationship_checker
        g.obligations = ref.obligations
        g.cache, g.cache_ttl = ref.cache, ref.cache_ttl
        try:
            out.append({"how": "on a Guard created with another configuration whose public attributes were then reassigned",
                        "decision": dec(await g.evaluate_async(subj, act, res, ctx))})
        except Exception as e:  # noqa: BLE001
            out.append({"how": "on a Guard created with another configuration whose public attributes were then reassigned",
                        "decision": ["Raise", type(e).__name__]})

        # (5) the policy OBJECT was seen by the library in another state and then edited in place into this policy
        #     (identity-keyed memos of targets / actions / obligations / conditions / children must not show): morph.py
        import zlib
        import morph
        crc = zlib.crc32(json.dumps(pol, sort_keys=True, default=str).encode("utf-8", "replace"))
        modes = [morph.mode_for(crc)]
        if crc % 2 == 0 and "obligations" not in modes and '"obligations"' in json.dumps(pol, default=str):
            modes.append("obligations")

        async def ask(gg):
            return dec(await gg.evaluate_async(subj, act, res, ctx))
        out.extend(await morph.morph_runs(mk, pol, ask, modes))

    asyncio.run(go())
    return out


def warm_decisions(impl):
    """[(tag, decision)] for the judges: cold/cached decisions first, then the warm ones"""
    return [(" [cache hit]" if k else "", d) for k, d in enumerate(impl["decisions"])] + \
           [(" [engine with a past: %s]" % w["how"], w["decision"]) for w in impl.get("warm", [])]


def _shard(cases):
    return [run_impl_one(c) for c in cases]


def run_impl(cases):
    n = min(12, max(1, len(cases) // 300))
    if n <= 1:
        return _shard(cases)
    shards = [cases[i::n] for i in range(n)]
    with mp.get_context("fork").Pool(n) as pool:
        parts = pool.map(_shard, shards)
    out = [None] * len(cases)
    for i, part in enumerate(parts):
        out[i::n] = part
    return out


def model_table(c, impl):
    """the relationship table handed to the model: None = no checker configured"""
    if not c.get("checker"):
        return None
    return impl["tables"][0]


def run_model(cases, impls, entry="engine.eval"):
    lines = [lib.model_call(entry, bool(c.get("strict")), c["policy"], c["req"], i["resolved"], model_table(c, i))
             for c, i in zip(cases, impls)]
    return [lib.dec(x) for x in lib.run_model(RUNNER, lines)]


def retry_unknown_with_sync_table(cases, impls, results_by_entry):
    """When the model asks a relationship query the implementation never put to its checker (so the recorded table
    has no answer), and the checker is not the plain synchronous one, take the table from a run with the plain
    synchronous checker over the same relationship data and let the model answer with that: the implementation's
    decision (made with the exotic checker) is then judged against what the relationship data really say.
    results_by_entry: {entry: list of model outputs}; updated in place.  Returns the indices retried."""
    idx = [k for k, c in enumerate(cases)
           if c.get("checker") not in (None, "sync")
           and any(res[k] == ["UnknownRelQuery"] for res in results_by_entry.values())]
    if not idx:
        return []
    sync_impls = [run_impl_one({**cases[k], "checker": "sync", "warm": False, "cache": False}) for k in idx]
    for entry, res in results_by_entry.items():
        lines = [lib.model_call(entry, bool(cases[k].get("strict")), cases[k]["policy"], cases[k]["req"], impls[k]["resolved"],
                                si["tables"][0]) for k, si in zip(idx, sync_impls)]
        outs = [lib.dec(x) for x in lib.run_model(RUNNER, lines)]
        for k, o in zip(idx, outs):
            res[k] = o
    return idx
