"""C16 — file source reflects the disk; atomic write is all-or-nothing at any crash.

Correspondence of the Coq model FileStore (atomic_write as a scripted step list,
FilePolicySource.etag()/load() over histories) with rbacx.store.file_store on a
real temp directory, and the property judged directly on the implementation's
output:

fam "aw"   every fault script of atomic_write: each step (mkstemp, fdopen, every
           piece of the write, close, os.replace, the finally-unlink) succeeds,
           raises (injected OSError, or a natural failure: missing directory,
           target is a directory, unencodable text, unknown encoding), or is the
           point where the writing process dies (a forked child calling
           os._exit(9) / SIGKILL) — after a partial write too.  Compared with the
           model: outcome, completed steps, target bytes and directory listing
           after every step and at the end.  Judged directly: target in {old, new}
           in every state, new only after the rename; a failed write leaves the
           listing as before; a returned write has written; other files untouched.
fam "seq"  histories of atomic writes / in-place same-size rewrites with a new
           mtime / silent same-size rewrites that keep the mtime / touches /
           deletes / restores with a preserved mtime, interleaved with etag() and
           load() (also etag() calls during which the file changes: after EVERY
           file-system call the call makes on its path - os.stat, open, each read,
           whatever a dry run of the implementation shows; symbol E@<k>:<change>),
           for .json/.yaml/.yml, include_mtime on and off.  Layouts of the configured path (case field
           "layout", see LAYOUTS): a plain file (default); the path is a symbolic link to a file (new content
           by atomic_write over the link, or by switching the link atomically to a new version file; delete =
           unlink / a dangling link); a parent directory is a symbolic link (written through, or switched to a
           new release directory, ConfigMap style); directories renamed into place; a relative configured path
           (working directory constant).  The history and the model stay the same - the harness carries out
           "this content becomes visible at the path" by the layout's own operations and reads back what
           open(path) shows.
           Compared with the model: the equality pattern of the tags, None for a
           missing file, load() result or exception class (a change before the
           file is opened / read = the model's mid-call change; a change after the
           old bytes were read = [etag; change]).  Judged directly when the
           history satisfies the property's hypothesis; with in-call changes: every
           etag() on a quiet file must equal the tag of a fresh FilePolicySource.
fam "doc"  one content x one file name: format by extension, parse results and
           exception classes, schema validation on/off.
fam "rw"   a reader thread (load()/etag() in a loop) against a writer thread
           using atomic_write: every load parses to one of the documents written.
"""
import builtins
import hashlib
import io
import itertools
import json
import os
import shutil
import signal
import tempfile
import threading

import lib

PREFIX = ".rbacx.tmp."
MODEL = "filestore"


# --------------------------------------------------------------------------
# small helpers
# --------------------------------------------------------------------------
def _snapshot(d, name):
    """(target bytes as text | None, sorted listing, {temp name: text}) of directory d."""
    names = sorted(os.listdir(d))
    p = os.path.join(d, name)
    tgt = None
    if os.path.isfile(p):
        with open(p, "rb") as f:
            tgt = f.read().decode("utf-8", "replace")
    temps = {}
    for n in names:
        if n.startswith(PREFIX):
            with open(os.path.join(d, n), "rb") as f:
                temps[n] = f.read().decode("utf-8", "replace")
    # a directory standing at the target path is not a file of the model
    listing = [n for n in names if not os.path.isdir(os.path.join(d, n))]
    return tgt, listing, temps


def _proj(snap, old, new, realfile=False):
    """projection of a snapshot, as FileStoreRun.proj_state reports a model state."""
    tgt, listing, temps = snap
    cls = "none" if tgt is None else "old" if (old is not None and tgt == old) else "new" if tgt == new else "other"
    tl = sorted([n, len(t.encode()), (new or "").encode().startswith(t.encode())] for n, t in temps.items())
    return [cls, sorted(listing)] if realfile else [cls, sorted(listing), tl]


def _mproj(st, realfile=False):
    cls, names, temps = st
    return [cls, sorted(names)] if realfile else [cls, sorted(names), sorted(temps)]


class _Inject(OSError):
    def __init__(self, step):
        super().__init__(5, "injected I/O failure at " + step)
        self.step = step


class _InjectPerm(PermissionError):
    def __init__(self, step):
        super().__init__(13, "injected failure at " + step)
        self.step = step


def _die(how):
    if how == "sigkill":
        os.kill(os.getpid(), signal.SIGKILL)
    os._exit(9)


class _Faults:
    """Test-side wrappers around the calls atomic_write makes.  `script` is the model's script; the
    step named by `natural` is left to fail on its own."""

    def __init__(self, d, name, script, cands, natural=None, realfile=False, kill="exit", events=None, snap=True):
        self.d, self.name, self.script, self.natural = d, name, script, natural
        self.cands, self.realfile, self.kill = cands, realfile, kill
        self.events = [] if events is None else events
        self.snap = snap
        self.saved = {}

    def outcome(self, step):
        ix = {"mkstemp": 0, "fdopen": 1, "close": 3, "replace": 4, "unlink": 5}[step]
        o = self.script[ix]
        if self.natural == step and o == "f":
            return "d"
        return o

    def event(self, step):
        self.events.append([step, _snapshot(self.d, self.name) if self.snap else None])

    def gate(self, step, exc=_Inject):
        o = self.outcome(step)
        if o == "c":
            _die(self.kill)
        if o == "f":
            raise exc(step)

    def __enter__(self):
        F = self
        real_mkstemp, real_fdopen, real_replace, real_unlink = tempfile.mkstemp, os.fdopen, os.replace, os.unlink
        real_names = tempfile._get_candidate_names
        self.saved = dict(mkstemp=real_mkstemp, fdopen=real_fdopen, replace=real_replace, unlink=real_unlink,
                          names=real_names)

        def mkstemp(*a, **k):
            F.gate("mkstemp")
            r = real_mkstemp(*a, **k)
            F.event("mkstemp")
            return r

        def fdopen(fd, *a, **k):
            o = F.outcome("fdopen")
            if o == "c":
                _die(F.kill)
            if o == "f":
                os.close(fd)  # the code leaks it; closing keeps the harness tidy and is not observable
                raise _Inject("fdopen")
            f = real_fdopen(fd, *a, **k)
            F.event("fdopen")
            return f if F.realfile else _FileProxy(F, f)

        def replace(src, dst, *a, **k):
            F.gate("replace")
            r = real_replace(src, dst, *a, **k)
            F.event("replace")
            return r

        def unlink(p, *a, **k):
            F.gate("unlink", _InjectPerm)
            try:
                return real_unlink(p, *a, **k)
            finally:
                F.event("unlink")

        tempfile.mkstemp, os.fdopen, os.replace, os.unlink = mkstemp, fdopen, replace, unlink
        if self.cands is not None:
            cands = list(self.cands)
            tempfile._get_candidate_names = lambda: iter(cands)
        return self

    def __exit__(self, *exc):
        tempfile.mkstemp, os.fdopen = self.saved["mkstemp"], self.saved["fdopen"]
        os.replace, os.unlink = self.saved["replace"], self.saved["unlink"]
        tempfile._get_candidate_names = self.saved["names"]
        return False


class _FileProxy:
    """Stands for the text file object os.fdopen returned: write() lets the scripted pieces reach the
    disk one by one, close() flushes the rest — so partial writes are under the test's control."""

    def __init__(self, F, real):
        self.F, self.real, self.pending, self.closed = F, real, b"", False

    def __enter__(self):
        return self

    def __exit__(self, *exc):
        self.close()

    def write(self, text):
        F = self.F
        b = text.encode(self.real.encoding, self.real.errors)  # raises as TextIOWrapper.write would
        pos = 0
        for n, o in F.script[2]:
            if o == "c":
                _die(F.kill)
            if o == "f":
                if F.natural == "piece":
                    raise AssertionError("natural write failure expected earlier")
                raise _Inject("piece")
            self.real.buffer.write(b[pos:pos + n])
            self.real.buffer.flush()
            pos += n
            F.event("piece")
        self.pending = b[pos:]
        return len(text)

    def close(self):
        if self.closed:
            return
        self.closed = True
        o = self.F.outcome("close")
        if o == "c":
            _die(self.F.kill)
        if o == "f":
            self.real.close()
            raise _Inject("close")
        self.real.buffer.write(self.pending)
        self.real.close()
        self.F.event("close")


NATURAL_STEP = {"nodir": "mkstemp", "badenc": "fdopen", "unencodable": "piece", "isdir": "replace"}


def _classify_exc(e, natural):
    if isinstance(e, (_Inject, _InjectPerm)):
        return ["raised", e.step]
    if natural and isinstance(e, (OSError, LookupError, UnicodeError, StopIteration)):
        return ["raised", NATURAL_STEP[natural]]
    if isinstance(e, (FileExistsError, StopIteration)):
        return ["raised", "mkstemp"]  # no usable temporary name
    return ["raised", "?" + type(e).__name__]


# --------------------------------------------------------------------------
# fam "aw": one run of atomic_write under a fault script
# --------------------------------------------------------------------------
def _aw_setup(c):
    d = tempfile.mkdtemp(prefix="c16_")
    name = c["name"]
    for n, content in (c.get("others") or {}).items():
        with open(os.path.join(d, n), "wb") as f:
            f.write(content.encode())
    if c.get("natural") == "isdir":
        os.mkdir(os.path.join(d, name))
    elif c.get("old") is not None:
        with open(os.path.join(d, name), "wb") as f:
            f.write(c["old"].encode())
    return d


def _aw_path(c, d):
    if c.get("natural") == "nodir":
        return os.path.join(d, "no-such-dir", c["name"])
    if c.get("rel"):
        return c["name"]
    return os.path.join(d, c["name"])


def _aw_call(c, d, F):
    from rbacx.store.file_store import atomic_write

    kw = {}
    if c.get("encoding"):
        kw["encoding"] = c["encoding"]
    cwd = os.getcwd()
    if c.get("rel"):
        os.chdir(d)
    try:
        with F:
            try:
                atomic_write(_aw_path(c, d), c["data"], **kw)
                return "returned"
            except BaseException as e:  # noqa: BLE001
                if isinstance(e, (KeyboardInterrupt, SystemExit, AssertionError)):
                    raise
                return _classify_exc(e, c.get("natural"))
    finally:
        if c.get("rel"):
            os.chdir(cwd)


def impl_atomic(c):
    """-> dict(out, events [[step, snapshot]], final snapshot)."""
    d = _aw_setup(c)
    try:
        script = c["script"]
        has_crash = "c" in json.dumps(script)
        if not has_crash and not c.get("fork"):
            F = _Faults(d, c["name"], script, c.get("cands"), c.get("natural"), c.get("realfile", False))
            out = _aw_call(c, d, F)
            return {"out": out, "events": F.events, "final": _snapshot(d, c["name"])}
        # the writer runs in a child process that may die at the scripted step
        r, w = os.pipe()
        pid = os.fork()
        if pid == 0:
            code = 70
            try:
                os.close(r)
                F = _Faults(d, c["name"], script, c.get("cands"), c.get("natural"), c.get("realfile", False),
                            kill=c.get("kill", "exit"), snap=True)
                real_event = F.event

                def event(step):
                    real_event(step)
                    os.write(w, (json.dumps(F.events[-1]) + "\n").encode())

                F.event = event
                out = _aw_call(c, d, F)
                os.write(w, (json.dumps({"out": out}) + "\n").encode())
                code = 0
            except BaseException as e:  # noqa: BLE001
                try:
                    os.write(w, (json.dumps({"out": ["harness-error", repr(e)[:200]]}) + "\n").encode())
                except Exception:  # noqa: BLE001
                    pass
            finally:
                os._exit(code)
        os.close(w)
        buf = b""
        while True:
            chunk = os.read(r, 65536)
            if not chunk:
                break
            buf += chunk
        os.close(r)
        _, status = os.waitpid(pid, 0)
        events, out = [], None
        for line in buf.decode().splitlines():
            x = json.loads(line)
            if isinstance(x, dict):
                out = x["out"]
            else:
                events.append([x[0], tuple(x[1]) if x[1] is not None else None])
        died = (os.WIFEXITED(status) and os.WEXITSTATUS(status) == 9) or \
               (os.WIFSIGNALED(status) and os.WTERMSIG(status) == signal.SIGKILL)
        if died and out is None:
            out = "crashed"
        elif out is None:
            out = ["harness-error", "child status %r" % (status,)]
        return {"out": out, "events": events, "final": _snapshot(d, c["name"])}
    finally:
        shutil.rmtree(d, ignore_errors=True)


def _aw_model_line(c):
    fs = []
    if c.get("old") is not None and c.get("natural") != "isdir":
        fs.append([c["name"], c["old"], 1])
    for n, content in (c.get("others") or {}).items():
        fs.append([n, content, 1])
    data = c["data"]
    if c.get("natural") == "unencodable":
        data = ""  # nothing is ever encoded
    return lib.model_call("fs.atomic", fs, c["name"], data, 2, c.get("cands") or ["x"], c["script"])


def _norm_snap(s):
    if s is None:
        return None
    tgt, listing, temps = s
    return [tgt, list(listing), dict(temps)]


def _judge_aw(chk, c, impl, m):
    """property clauses on the implementation's output alone."""
    old = c.get("old") if c.get("natural") != "isdir" else None
    new = c["data"] if c.get("natural") != "unencodable" else None
    before = sorted(([c["name"]] if old is not None else []) + list((c.get("others") or {}).keys()))
    others = c.get("others") or {}
    bad = []
    replaced = False
    states = []
    for step, snap in impl["events"]:
        if step == "replace":
            replaced = True
        if snap is not None:
            states.append((step, replaced, snap))
    states.append(("final", replaced, impl["final"]))
    for step, rep, (tgt, listing, temps) in states:
        if tgt != old and tgt != new:
            bad.append(f"target is neither the old nor the new content after step {step}")
        elif tgt != old and not rep:
            bad.append(f"target changed before the rename completed (after step {step})")
        elif rep and tgt != new:
            bad.append(f"target is not the new content after the rename (step {step})")
    tgt, listing, temps = impl["final"]
    out = impl["out"]
    if out == "returned" and tgt != new:
        bad.append("atomic_write returned but the target does not hold the new content")
    cleanup_failed = c["script"][5] == "f"
    if isinstance(out, list) and out[0] == "raised" and not cleanup_failed:
        want = sorted(set(before) | ({c["name"]} if replaced else set()))
        if listing != want:
            bad.append("a failed write changed the directory listing (temporary file left behind?)")
    stray = [n for n in listing if n not in before and n != c["name"] and not n.startswith(PREFIX)]
    if stray:
        bad.append("unexpected new names in the directory: %r" % stray)
    if out == "returned" and [n for n in listing if n.startswith(PREFIX) and n not in before]:
        bad.append("a successful write left a temporary file behind")
    # other files untouched (content)
    for n, content in others.items():
        if n.startswith(PREFIX) and temps.get(n) != content:
            bad.append(f"an unrelated existing file {n!r} was modified or removed")
        elif n not in listing:
            bad.append(f"an unrelated existing file {n!r} was removed")
    return bad


def check_aw(chk, cases):
    if not cases:
        return
    answers = [lib.dec(x) for x in lib.run_model(MODEL, [_aw_model_line(c) for c in cases], chunk=48, procs=12)]
    for c, m in zip(cases, answers):
        impl = impl_atomic(c)
        script = c["script"]
        flat = json.dumps(script)
        nontriv = '"f"' in flat or '"c"' in flat or bool(script[2])
        chk.mark(("aw", json.dumps(c, sort_keys=True)), nontriv)
        chk.count("aw:" + ("kill" if '"c"' in flat else "raise" if '"f"' in flat else "clean"))
        chk.count("aw_out:" + (impl["out"] if isinstance(impl["out"], str) else ":".join(impl["out"][:2])))
        if c.get("natural"):
            chk.count("aw_natural:" + c["natural"])
        chk.sample({"case": c, "impl_out": impl["out"], "impl_steps": [e[0] for e in impl["events"]],
                    "impl_final": _norm_snap(impl["final"]), "model_out": m["out"]}, every=397)
        if isinstance(impl["out"], list) and impl["out"][0] == "harness-error":
            raise RuntimeError("harness error in child: %r" % (impl["out"],))
        bad = _judge_aw(chk, c, impl, m)
        rf = bool(c.get("realfile"))
        old_m = c.get("old") if c.get("natural") != "isdir" else None
        new_m = c["data"] if c.get("natural") != "unencodable" else ""
        # the real file object's write/close are not observable steps
        m_trace = [e for e in m["trace"] if not (rf and e[0] in ("piece", "close"))]
        m_steps = [e[0] for e in m_trace]
        m_final = _mproj(m["fs"], rf)
        i_final = _proj(impl["final"], old_m, new_m, rf)
        for b in bad:
            chk.violation("atomic_write: " + b, c,
                          impl={"out": impl["out"], "steps": [e[0] for e in impl["events"]],
                                "final": _norm_snap(impl["final"])},
                          model={"out": m["out"], "steps": m_steps, "final": m_final})
        if bad:
            continue
        # correspondence with the model
        diffs = []
        if impl["out"] != m["out"]:
            diffs.append("outcome")
        i_steps = [e[0] for e in impl["events"]]
        if i_steps != m_steps:
            diffs.append("completed steps")
        else:
            for (step, snap), (_ms, mst) in zip(impl["events"], m_trace):
                if snap is not None and _proj(snap, old_m, new_m, rf) != _mproj(mst, rf):
                    diffs.append("state after step " + step)
                    break
        if i_final != m_final:
            diffs.append("final state")
        if diffs:
            chk.corr_break("atomic_write differs from the model FileStore.atomic_write in: " + ", ".join(diffs), c,
                           impl={"out": impl["out"], "steps": i_steps, "final": i_final},
                           model={"out": m["out"], "steps": m_steps, "final": m_final},
                           theorems=["c16_all_or_nothing", "c16_no_temp_after_failure", "c16_reader_sees_whole_file",
                                     "c16_timeline", "c16_outcomes"])


# --------------------------------------------------------------------------
# generators for fam "aw"
# --------------------------------------------------------------------------
def _piece_plans(nbytes, cuts):
    """write() plans: lists of [n, outcome]; at most one non-"d", and it is last."""
    plans = [[]]
    for k in cuts:
        plans.append([[k, "d"]])
        for o in ("f", "c"):
            plans.append([[k, "d"], [nbytes - k, o]])
    for o in ("f", "c"):
        plans.append([[nbytes, o]])
    if len(cuts) >= 2:
        a, b = cuts[0], cuts[-1]
        if a < b:
            plans.append([[a, "d"], [b - a, "d"]])
            for o in ("f", "c"):
                plans.append([[a, "d"], [b - a, "d"], [nbytes - b, o]])
    # dedupe
    seen, out = set(), []
    for p in plans:
        k = json.dumps(p)
        if k not in seen:
            seen.add(k)
            out.append(p)
    return out


def _scripts(plans):
    O = ("d", "f", "c")
    for mk in O:
        if mk != "d":
            yield [mk, "d", [], "d", "d", "d"]
            continue
        for fd in O:
            if fd == "c":
                yield ["d", "c", [], "d", "d", "d"]
                continue
            if fd == "f":
                for ul in O:
                    yield ["d", "f", [], "d", "d", ul]
                continue
            for ps in plans:
                last = ps[-1][1] if ps else "d"
                if last == "c":
                    yield ["d", "d", ps, "d", "d", "d"]
                    continue
                for cl in O:
                    if cl == "c":
                        yield ["d", "d", ps, "c", "d", "d"]
                        continue
                    if last == "f" or cl == "f":
                        for ul in O:
                            yield ["d", "d", ps, cl, "d", ul]
                        continue
                    for rp in O:
                        if rp == "c":
                            yield ["d", "d", ps, "d", "c", "d"]
                            continue
                        for ul in O:
                            yield ["d", "d", ps, "d", rp, ul]


def _char_cuts(data, want):
    """byte offsets on character boundaries nearest to the wanted ones."""
    offs = [0]
    for ch in data:
        offs.append(offs[-1] + len(ch.encode()))
    res = []
    for w in want:
        res.append(min(offs, key=lambda o: abs(o - w)))
    return sorted(set(res))


def gen_aw(chk):
    rng = chk.rng
    cases = []
    OLD = '{"rules": [], "v": "old"}'
    datas = [
        ("NEW!", "all"),                                    # every partial byte count
        ("", "all"),
        ('{"rules": [{"id": "r1", "effect": "permit"}], "v": "new"}', "some"),
        ('{"rules": [], "note": "héllo ✓ \U0001f600"}', "some"),   # multi-byte UTF-8
        (json.dumps({"rules": [{"id": "r%d" % i, "effect": "deny"} for i in range(560)]}), "some"),  # > 2 buffers
    ]
    others = {PREFIX + "stale": "LEFTOVER", "other.txt": "x"}
    for di, (data, mode) in enumerate(datas):
        nb = len(data.encode())
        if mode == "all":
            cuts = list(range(0, nb + 1))
        else:
            cuts = _char_cuts(data, [0, 1, nb // 2, nb - 1, nb])
        plans = _piece_plans(nb, cuts)
        for old in (None, OLD):
            for script in _scripts(plans):
                cases.append({"fam": "aw", "name": "policy.json", "old": old, "others": others, "data": data,
                              "cands": ["stale", "k3"], "script": script})
    chk.exhaustive = True
    # killed by a real SIGKILL instead of os._exit, and runs with the real file object (no proxy)
    base = {"fam": "aw", "name": "policy.yaml", "old": OLD, "others": others, "cands": ["stale", "k3"]}
    big = datas[4][0]
    for data in ("NEW!", big):
        for script in _scripts([[]]):
            if '"c"' in json.dumps(script):
                cases.append({**base, "data": data, "script": script, "kill": "sigkill"})
            if script[3] == "d":  # close cannot be scripted on the real file object
                cases.append({**base, "data": data, "script": script, "realfile": True, "fork": True})
                cases.append({**base, "data": data, "script": script, "realfile": True, "old": None})
    # relative bare file name (directory = "."), no candidate-name control (real random names)
    for script in _scripts([[], [[2, "d"], [2, "c"]], [[2, "d"], [2, "f"]]]):
        cases.append({"fam": "aw", "name": "p.json", "old": OLD, "others": {}, "data": "NEW!", "rel": True,
                      "fork": True, "cands": ["k3"], "script": script})
    # natural failures
    for old in (None, OLD):
        for ul in ("d", "f", "c"):
            cases.append({**base, "old": old, "data": "NEW!", "natural": "nodir", "script": ["f", "d", [], "d", "d", "d"]})
            cases.append({**base, "old": old, "data": "NEW!", "natural": "badenc", "encoding": "no-such-codec",
                          "script": ["d", "f", [], "d", "d", ul]})
            cases.append({**base, "old": old, "data": "bad \udc80 text", "natural": "unencodable",
                          "script": ["d", "d", [[0, "f"]], "d", "d", ul]})
            cases.append({**base, "old": old, "data": "café", "natural": "unencodable", "encoding": "ascii",
                          "script": ["d", "d", [[0, "f"]], "d", "d", ul]})
            cases.append({**base, "old": old, "data": "NEW!", "natural": "isdir", "script": ["d", "d", [], "d", "f", ul]})
            cases.append({**base, "old": old, "data": "NEW!", "encoding": "latin-1", "script": ["d", "d", [], "d", "d", ul]})
    # all candidate names taken: mkstemp itself fails
    cases.append({**base, "data": "NEW!", "cands": ["stale"], "script": ["d", "d", [], "d", "d", "d"]})
    # seeded random scripts over random data / piece cuts
    n_rand = 300 if chk.tier == "quick" else 6000
    for _ in range(n_rand):
        L = rng.choice([0, 1, 2, 7, 64, 5000, 20000])
        data = "".join(rng.choice("abc{}[]\":, \n") for _ in range(L))
        k = rng.randint(0, 4)
        cuts = sorted(rng.randint(0, L) for _ in range(k))
        ps, pos = [], 0
        for cpt in cuts:
            ps.append([cpt - pos, "d"])
            pos = cpt
        O = ["d"] * 6 + ["f", "c"]
        if ps and rng.random() < 0.5:
            ps[-1][1] = rng.choice(["f", "c"])
        script = [rng.choice(O), rng.choice(O), ps, rng.choice(O), rng.choice(O), rng.choice(O)]
        cases.append({"fam": "aw", "name": rng.choice(["policy.json", "p.yml"]),
                      "old": rng.choice([None, OLD, data[: L // 2] + "#"]),
                      "others": rng.choice([{}, others]), "data": data, "cands": ["stale", "k3"], "script": script})
    return cases


# --------------------------------------------------------------------------
# file-system call boundaries inside one call of the source (used by c10.py too)
# --------------------------------------------------------------------------
class _TapFile:
    """the file object open() returned for the tapped path: every read call is a file-system call boundary."""

    def __init__(self, tap, f):
        self._tap, self._f = tap, f

    def _counted(self, name, fn, *a):
        try:
            r = fn(*a)
        except BaseException:
            self._tap._after(name)
            raise
        self._tap.pieces.append(r)
        self._tap._after(name)
        return r

    def read(self, *a):
        return self._counted("read", self._f.read, *a)

    def read1(self, *a):
        return self._counted("read", self._f.read1, *a)

    def readall(self):
        return self._counted("read", self._f.readall)

    def readline(self, *a):
        return self._counted("read", self._f.readline, *a)

    def readlines(self, *a):
        r = self._counted("read", self._f.readlines, *a)
        self._tap.pieces.pop()
        self._tap.pieces.extend(r)
        return r

    def readinto(self, b):
        try:
            n = self._f.readinto(b)
        except BaseException:
            self._tap._after("read")
            raise
        self._tap.pieces.append(bytes(b[:n or 0]))
        self._tap._after("read")
        return n

    readinto1 = readinto

    def __iter__(self):
        return self

    def __next__(self):
        line = self._f.readline()
        self._tap.pieces.append(line)
        self._tap._after("read")
        if not line:
            raise StopIteration
        return line

    def __enter__(self):
        self._f.__enter__()
        return self

    def __exit__(self, *exc):
        return self._f.__exit__(*exc)

    def __getattr__(self, n):
        return getattr(self._f, n)


class FsTap:
    """While active, counts the file-system calls made on `path` - os.stat / os.lstat (hence os.path.getsize,
    getmtime, exists, isfile, pathlib.Path.stat), open / io.open / os.open, os.fstat on a descriptor of the path, and
    every read call on a file object opened for it - and runs `fire()` once, right after the k-th of them has
    returned or raised.  Nothing about the caller is assumed: whatever calls it makes, in whatever order, each one is
    a boundary.  `log` = the calls seen, `pieces` = what the read calls returned, `fired_at` = k when fired."""

    def __init__(self, path, k=None, fire=None):
        self.path, self.k, self.fire = os.fspath(path), k, fire
        self.n, self.log, self.pieces, self.fired_at, self.opened = 0, [], [], None, 0
        self.active = False
        self._fds = set()

    def _mine(self, p):
        try:
            if isinstance(p, int):
                return p in self._fds
            p = os.fspath(p)
            if isinstance(p, bytes):
                p = os.fsdecode(p)
            return p == self.path
        except TypeError:
            return False

    def _after(self, name):
        self.n += 1
        self.log.append(name)
        if self.k is not None and self.n == self.k and self.fired_at is None and self.fire is not None:
            self.fired_at = self.n
            self.active = False
            try:
                self.fire()
            finally:
                self.active = True

    def content(self):
        """what the call read from the path (None if it never opened it)."""
        if not self.opened:
            return None
        ps = [x for x in self.pieces if x is not None]
        if ps and isinstance(ps[0], str):
            return "".join(ps).encode("utf-8", "surrogatepass")
        return b"".join(ps)

    def __enter__(self):
        T = self
        self._saved = (os.stat, os.lstat, builtins.open, io.open, os.open, os.fstat)
        r_stat, r_lstat, r_open, _r_ioopen, r_osopen, r_fstat = self._saved

        def counted(name, real, mine):
            def f(p, *a, **kw):
                if not (T.active and mine(p)):
                    return real(p, *a, **kw)
                try:
                    r = real(p, *a, **kw)
                except BaseException:
                    T._after(name)
                    raise
                T._after(name)
                return r
            return f

        def t_open(p, *a, **kw):
            if not (T.active and T._mine(p)):
                return r_open(p, *a, **kw)
            try:
                f = r_open(p, *a, **kw)
            except BaseException:
                T._after("open")
                raise
            T.opened += 1
            T._after("open")
            return _TapFile(T, f)

        def t_osopen(p, *a, **kw):
            if not (T.active and T._mine(p)):
                return r_osopen(p, *a, **kw)
            try:
                fd = r_osopen(p, *a, **kw)
            except BaseException:
                T._after("os.open")
                raise
            T._fds.add(fd)
            T.opened += 1
            T._after("os.open")
            return fd

        os.stat = counted("stat", r_stat, T._mine)
        os.lstat = counted("lstat", r_lstat, T._mine)
        os.fstat = counted("fstat", r_fstat, T._mine)
        builtins.open = io.open = t_open
        os.open = t_osopen
        self.active = True
        return self

    def __exit__(self, *exc):
        self.active = False
        os.stat, os.lstat, builtins.open, io.open, os.open, os.fstat = self._saved
        return False


def fs_calls_of(fn, path):
    """dry run: the file-system calls `fn()` makes on `path` (names, in order)."""
    with FsTap(path) as t:
        try:
            fn()
        except Exception:  # noqa: BLE001
            pass
    return t.log


# --------------------------------------------------------------------------
# fam "seq" / "doc": histories of the source
# --------------------------------------------------------------------------
# short on purpose: the model runner's text decoding dominates its running time
A = '{"rules": [], "v": "a"}'
B = '{"rules": [], "v": "b"}'
C = '{"algorithm": "deny-overrides", "rules": []}'
assert len(A) == len(B) and len(C) != len(A)
CONTENT = {"a": A, "b": B, "c": C}

DOC_POOL = [
    A, C, "", "   \n", "{}", "[]", "null", "true", "17", '"text"', '{"rules": ', "{'rules': []}", "rules: []\n",
    "rules:\n  - id: y1\n    actions: [read]\n    effect: permit\n    resource: {type: doc}\n",
    "- a\n- b\n", "just a scalar", "a: 1\nb: [1, 2\n", "a: &x 1\nb: *x\n", "key: !!python/object:os.system x\n",
    '{"rules": [], "n": 1.5, "t": true, "z": null, "s": "hé"}', '{"a": 1}\r\n', "a: 1\r\nb: 2\r\n",
    '﻿{"rules": []}', '{"rules": []} trailing', '{"rules": [], "rules": [1]}',
    '{"rules": [{"id": "x", "actions": ["read"], "effect": "maybe", "resource": {"type": "doc"}}]}',
    # flow mappings that both parsers accept but read differently (YAML 1.1 has no bare-exponent floats; tabs)
    '{"rules": [], "n": 1e3}', '{"rules": [], "n": 1E+2, "m": [2e0]}', '{"rules": [],\t"n": 1}', '{"rules": [], "s": "a\\/b"}',
]
DOC_NAMES = ["p.json", "p.yaml", "p.yml", "p.YAML", "p.Yml", "p.JSON", "p.txt", "p", "p.json.yaml", "p.yaml.json",
             "pyaml", "p.yamlx", ".yaml", "p.yaml.bak",
             # characters that mean something in URLs mean nothing in a file name
             "p#1.yaml", "rev#2.yml", "p.yaml#frag", "p.yaml?x=1", "what?.yaml", "a%2Eyaml", "p.json#x.yaml", "p;v=1.yml", "p&q.yaml"]


def _decode_text(b):
    """what open(path, "r", encoding="utf-8").read() yields for these bytes (independent of rbacx)."""
    return io.TextIOWrapper(io.BytesIO(b), encoding="utf-8").read()


def _expected_format(name):
    n = name.lower()
    return "yaml" if n.endswith((".yaml", ".yml")) else "json"


_PARSE_CACHE = {}


def _oracle_parse(b, fmt):
    """["ok", doc] | ["raise", class name] by calling json / yaml directly (memoised; callers copy)."""
    k = (b, fmt)
    if k not in _PARSE_CACHE:
        _PARSE_CACHE[k] = _oracle_parse0(b, fmt)
    r = _PARSE_CACHE[k]
    return [r[0], r[1]]


def _oracle_parse0(b, fmt):
    try:
        text = _decode_text(b)
        if fmt == "json":
            return ["ok", json.loads(text)]
        import yaml

        data = yaml.safe_load(text)
        return ["ok", data]
    except Exception as e:  # noqa: BLE001
        return ["raise", type(e).__name__]


def _wire_ok(v):
    try:
        lib.enc(v)
        return _plain(v)
    except TypeError:
        return False


def _plain(v):
    if isinstance(v, float):
        return v == v and v not in (float("inf"), float("-inf"))
    if isinstance(v, (list, tuple)):
        return all(_plain(x) for x in v)
    if isinstance(v, dict):
        return all(isinstance(k, str) and _plain(x) for k, x in v.items())
    return v is None or isinstance(v, (bool, int, str))


_SCHEMA = None
_SCHEMA_CACHE = {}


def _schema_ok(doc):
    """jsonschema against the bundled schema, called directly (None when jsonschema is unavailable)."""
    global _SCHEMA
    if _SCHEMA is None:
        try:
            import jsonschema

            schema = json.loads((lib.REPO / "src" / "rbacx" / "dsl" / "policy.schema.json").read_text())
            cls = jsonschema.validators.validator_for(schema)
            cls.check_schema(schema)
            _SCHEMA = cls(schema)
        except Exception:  # noqa: BLE001
            _SCHEMA = False
    if _SCHEMA is False:
        return None
    try:
        k = lib.enc(doc)
    except TypeError:
        k = repr(doc)
    if k not in _SCHEMA_CACHE:
        _SCHEMA_CACHE[k] = _SCHEMA.is_valid(doc)
    return _SCHEMA_CACHE[k]


_ROW_CACHE = {}


def _rows(text):
    """(parse-table row, schema-table rows) for one file content."""
    if text not in _ROW_CACHE:
        b = text.encode()
        j, y = _oracle_parse(b, "json"), _oracle_parse(b, "yaml")
        for r in (j, y):
            if r[0] == "ok" and not _wire_ok(r[1]):
                r[:] = ["raise", "?unencodable-result"]
        srows = []
        for r, is_yaml in ((j, False), (y, True)):
            if r[0] == "ok":
                doc = {} if (is_yaml and r[1] is None) else r[1]
                ok = _schema_ok(doc)
                srows.append([lib.enc(doc), True if ok is None else ok])
        _ROW_CACHE[text] = ([text, j, y], srows)
    return _ROW_CACHE[text]


def _tables(contents):
    ptab, stab, seen = [], [], set()
    for text in contents:
        prow, srows = _rows(text)
        ptab.append(prow)
        for k, ok in srows:
            if k not in seen:
                seen.add(k)
                stab.append([k, ok])
    return ptab, stab


def _seq_contents(c):
    cs = dict(CONTENT)
    cs.update(c.get("contents") or {})
    return cs


def _to_model_ops(c):
    """symbols -> model ops (logical mtimes: a fresh tick per modification)."""
    cs = _seq_contents(c)
    tick = [10_000]

    def nxt():
        tick[0] += 1000
        return tick[0]

    def wop(sym):
        k = sym[0]
        if k == "W":      # atomic_write, then the harness stamps a fresh mtime
            return ["atomic", cs[sym[1:]], nxt(), ["x"], ["d", "d", [], "d", "d", "d"]]
        if k == "F":      # atomic_write whose rename fails: nothing changes
            return ["atomic", cs[sym[1:]], nxt(), ["x"], ["d", "d", [], "d", "f", "d"]]
        if k == "I":      # rewrite in place, fresh mtime
            return ["set", cs[sym[1:]], nxt()]
        if k == "R":      # restore a content with ITS fixed mtime (cp -p, rsync -t)
            return ["set", cs[sym[1:]], 1000 + 1000 * sorted(cs).index(sym[1:])]
        if k == "T":
            return ["touch", nxt()]
        if k == "D":
            return ["del"]
        if k == "N":
            return ["none"]
        raise ValueError(sym)

    ops = []
    for sym in c["ops"]:
        if sym == "E":
            ops.append(["e", ["none"]])
        elif sym == "L":
            ops.append(["l"])
        elif sym.startswith("E:"):
            ops.append(["e", None if sym[2] == "Q" else wop(sym[2:])])
        elif sym.startswith("E@"):    # E@<k>:<change> - the change lands after the k-th file-system call of etag()
            ks, _, x = sym[2:].partition(":")
            ops.append(["e@", int(ks), None if x[0] == "Q" else wop(x)])
        elif sym[0] == "Q":
            ops.append(["w", None])
        else:
            ops.append(["w", wop(sym)])
    return ops


# file-system layouts of the configured path (case field "layout"; absent = a plain file in a plain directory,
# absolute path).  The history stays a history of the model: "this content with this mtime becomes visible at the
# configured path" / in-place rewrite / touch / "nothing is visible at the path"; the layout decides by which
# file-system operations the harness brings that about.  What is visible at the path is always read back with
# os.stat(path) / open(path) (following links), never assumed.
#   flink      the path is a symbolic link to a file in another directory (at first to a file that does not exist
#              yet); new content arrives by atomic_write(path) - which replaces the LINK by a regular file -,
#              in-place rewrites and touches go through the link; delete = unlink of whatever stands at the path
#   flink-sw   the same link, switched atomically to a new version file for every new content (symlink under a
#              temporary name + rename over the path); delete = the link is switched to a name that does not exist
#   dlink      a parent directory of the path is a symbolic link (releases/current -> rel0); everything goes through it
#   dlink-sw   the directory link is switched atomically to a new release directory holding the new file
#              (ConfigMap / "releases/current" style); delete = switched to a release without the file
#   dren       plain directories, new content arrives by renaming a prepared directory into place
#   rel, rel:<layout>   the configured path is RELATIVE (to the directory that holds the layout); the working
#              directory stays the same from construction to the last observation
LAYOUTS = ("flink", "flink-sw", "dlink", "dlink-sw", "dren", "rel", "rel:dlink-sw", "rel:flink")
_LAYOUT_KINDS = ("plain", "flink", "flink-sw", "dlink", "dlink-sw", "dren")


class _Layout:
    def __init__(self, kind, sub, name):
        kind = kind or "plain"
        self.rel = kind == "rel" or kind.startswith("rel:")
        self.kind = "plain" if kind == "rel" else kind[4:] if kind.startswith("rel:") else kind
        if self.kind not in _LAYOUT_KINDS:
            raise ValueError("unknown layout %r" % (kind,))
        self.sub, self.name, self.n, self.cwd = sub, name, 0, None
        j = os.path.join
        if self.kind in ("flink", "flink-sw"):
            os.mkdir(j(sub, "store"))
            os.symlink(j("store", "v0-" + name), j(sub, name))
            p = j(sub, name)
        elif self.kind in ("dlink", "dlink-sw"):
            os.mkdir(j(sub, "rel0"))
            os.symlink("rel0", j(sub, "current"))
            p = j(sub, "current", name)
        elif self.kind == "dren":
            os.mkdir(j(sub, "live"))
            p = j(sub, "live", name)
        else:
            p = j(sub, name)
        self.switching = self.kind in ("flink-sw", "dlink-sw", "dren")
        if self.rel:
            self.cwd = os.getcwd()
            os.chdir(sub)
            p = os.path.relpath(p, sub)
        self.path = p          # the configured path: what the source, atomic_write and the observer are given

    def close(self):
        if self.cwd is not None:
            os.chdir(self.cwd)
            self.cwd = None

    @staticmethod
    def _file(p, data, mtime):
        with open(p, "wb") as f:
            f.write(data.encode())
        os.utime(p, ns=(mtime, mtime))

    def _switch(self, target, link):
        tmp = os.path.join(self.sub, ".switch.tmp")
        os.symlink(target, tmp)
        os.rename(tmp, link)   # rename(2): replaces the link itself, atomically

    def publish(self, data, mtime):
        """switching layouts: `data` with `mtime` becomes what is visible at the configured path (None: nothing is)."""
        self.n += 1
        j, sub, name, n = os.path.join, self.sub, self.name, self.n
        if self.kind == "flink-sw":
            tgt = j("store", ("v%d-" % n if data is not None else "gone%d-" % n) + name)
            if data is not None:
                self._file(j(sub, tgt), data, mtime)
            self._switch(tgt, j(sub, name))
        elif self.kind == "dlink-sw":
            r = "rel%d" % n
            os.mkdir(j(sub, r))
            if data is not None:
                self._file(j(sub, r, name), data, mtime)
            self._switch(r, j(sub, "current"))
        elif self.kind == "dren":
            os.mkdir(j(sub, "next"))
            if data is not None:
                self._file(j(sub, "next", name), data, mtime)
            os.rename(j(sub, "live"), j(sub, "old%d" % n))
            os.rename(j(sub, "next"), j(sub, "live"))
        else:
            raise AssertionError(self.kind)


def _run_seq_impl(c, d, uniq):
    """Runs the history on the real source; returns (model ops with Q resolved, observations).
    An observation: dict(kind, value, disk=(bytes|None, mtime|None))."""
    sub = os.path.join(d, "s%d" % uniq)
    os.mkdir(sub)
    lay = _Layout(c.get("layout"), sub, c["name"])
    try:
        return _run_seq_body(c, lay)
    finally:
        lay.close()
        shutil.rmtree(sub, ignore_errors=True)


def _run_seq_body(c, lay):
    from rbacx.store.file_store import FilePolicySource, atomic_write

    cs = _seq_contents(c)
    path = lay.path
    src = FilePolicySource(path, include_mtime_in_etag=bool(c.get("incl")), validate_schema=bool(c.get("validate")),
                           **({"chunk_size": c["chunk"]} if c.get("chunk") else {}))
    mops = _to_model_ops(c)
    real_replace, real_stat = os.replace, os.stat

    def disk():
        try:
            st = real_stat(path)
        except FileNotFoundError:
            return None, None
        with open(path, "rb") as f:
            return f.read(), st.st_mtime_ns

    def stamp(t):
        os.utime(path, ns=(t, t))

    def apply(w):
        """perform the model world-op w on the disk; returns w (resolved)."""
        k = w[0]
        if k == "atomic" and lay.switching and w[4][4] != "f":
            lay.publish(w[1], w[2])
        elif k == "del" and lay.switching:
            lay.publish(None, None)
        elif k == "atomic":
            fail = w[4][4] == "f"
            if fail:
                def boom(*a, **kw):
                    raise _Inject("replace")
                os.replace = boom
            try:
                atomic_write(path, w[1])
            except _Inject:
                pass
            finally:
                os.replace = real_replace
            if not fail:
                stamp(w[2])
        elif k == "set":
            with open(path, "wb") as f:
                f.write(w[1].encode())
            stamp(w[2])
        elif k == "touch":
            if os.path.exists(path):
                stamp(w[1])
        elif k == "del":
            try:
                os.unlink(path)
            except FileNotFoundError:
                pass
        return w

    def resolve_silent():
        """Q: rewrite with ANOTHER content of the same size, mtime kept (model: set c same-mtime)."""
        b, mt = disk()
        if b is None:
            return ["none"]
        cur = b.decode()
        alt = None
        for key in sorted(cs):
            if cs[key] != cur and len(cs[key].encode()) == len(b):
                alt = cs[key]
                break
        if alt is None:
            return ["none"]
        return ["set", alt, mt]

    obs = []
    out_ops = []          # the model history: in-call changes resolved to the model's two forms
    states = [disk()]     # every state of the file along the history (also those inside a call)
    calls = []            # per etag() call: what the harness knows about it (not about the source's internals)
    info = {"torn": False, "incall": 0}

    def world(w):
        apply(w)
        states.append(disk())

    def etag_value():
        try:
            return ["tag", src.etag()]
        except FileNotFoundError:
            return ["tagraise"]
        except Exception as e:  # noqa: BLE001
            return ["tagraise", type(e).__name__]

    def fresh_tag():
        try:
            return ["tag", FilePolicySource(path, include_mtime_in_etag=bool(c.get("incl"))).etag()]
        except Exception as e:  # noqa: BLE001
            return ["tagraise", type(e).__name__]

    nonquiet = any(op[0] == "e@" or (op[0] == "e" and op[1] != ["none"]) for op in mops)
    for i, op in enumerate(mops):
        if op[0] == "w":
            if op[1] is None:
                op[1] = resolve_silent()
            world(op[1])
            out_ops.append(op)
        elif op[0] == "l":
            try:
                v = ["ok", src.load()]
            except Exception as e:  # noqa: BLE001
                v = ["raise", type(e).__name__]
            obs.append({"kind": "load", "value": v, "disk": disk()})
            out_ops.append(op)
        else:
            k, mid = (op[1], op[2]) if op[0] == "e@" else (1, op[1])
            if mid is None:
                mid = resolve_silent()
            start = disk()
            if mid[0] == "none":
                v = etag_value()
                o = {"kind": "tag", "value": v, "disk": disk()}
                if nonquiet:
                    o["fresh"] = fresh_tag()
                obs.append(o)
                calls.append({"start": start, "inside": False, "read": None, "value": v, "obs": len(obs) - 1})
                out_ops.append(["e", ["none"]])
                continue
            info["incall"] += 1
            tap = FsTap(path, k, fire=lambda: world(mid))
            with tap:
                v = etag_value()
            R = tap.content()
            rec = {"start": start, "inside": tap.fired_at is not None, "read": R, "value": v, "k": k,
                   "fs_calls": list(tap.log), "obs": len(obs)}
            calls.append(rec)
            if tap.fired_at is None:
                # the call made fewer than k file-system calls: the change follows it
                world(mid)
                obs.append({"kind": "tag", "value": v, "disk": start, "after_call": True})
                out_ops += [["e", ["none"]], ["w", mid]]
                continue
            post = states[-1]
            opens = [j + 1 for j, nm in enumerate(tap.log) if nm in ("open", "os.open")]
            if not opens or tap.fired_at < opens[0]:
                form = "mid"            # after the stat(s), before the file is opened: the model's mid-call change
            elif R == start[0]:
                form = "after"          # the call had read the old bytes: as if the change followed the call
            elif R is not None and R == post[0]:
                form = "mid"            # opened before, read after an in-place rewrite: old signature, new bytes
            else:
                form = "mid"
                info["torn"] = True     # bytes of both contents: no counterpart in the model
            if form == "mid":
                obs.append({"kind": "tag", "value": v, "disk": disk(), "inside": True})
                out_ops.append(["e", mid])
            else:
                obs.append({"kind": "tag", "value": v, "disk": start, "inside": True})
                out_ops += [["e", ["none"]], ["w", mid]]
    # once the file has stopped changing: two more etag() calls, each against what a fresh source reports
    if nonquiet:
        for _ in range(2):
            start = disk()
            v = etag_value()
            calls.append({"start": start, "inside": False, "read": None, "value": v, "obs": None,
                          "fresh": fresh_tag(), "tail": True})
    info["states"] = states
    info["calls"] = calls
    info["nonquiet"] = nonquiet
    return out_ops, obs, info


def _sig(st):
    return None if st[0] is None else (len(st[0]), st[1])


def _sig_determines(states):
    seen = {}
    for st in states:
        if st[0] is None:
            continue
        if seen.setdefault(_sig(st), st[0]) != st[0]:
            return False
    return True


def _poisoned_by_design(calls, ix):
    """the one situation in which the unchanged algorithm (remember the signature taken BEFORE hashing) reports a
    stale hash although (size, mtime_ns) determines the content: an earlier etag() call started at the signature the
    file has now, the file changed inside that call before the call had read it, and no etag() call has since
    started at another signature and returned (c16_midcall_change_refuted; corpus seq-midcall-change-then-restore).
    Judged from what the harness did and saw, not from the source's private fields."""
    cur = _sig(calls[ix]["start"])
    for q in reversed(calls[:ix]):
        if _sig(q["start"]) == cur:
            if q["inside"] and q["read"] is not None and q["read"] != q["start"][0]:
                return True
            continue
        if q["value"][0] == "tag":
            return False
    return False


def _pattern(tags):
    """equality pattern: first-occurrence index per distinct tag; None stays None."""
    seen, out = {}, []
    for t in tags:
        if t is None:
            out.append(None)
        else:
            k = json.dumps(t)
            out.append(seen.setdefault(k, len(seen)))
    return out


def _split_tag(t, incl):
    """implementation tag string -> [sha part, mtime part | None]"""
    if t is None:
        return None
    if not isinstance(t, str):
        return ["?", repr(t)]
    if incl:
        sha, sep, mt = t.rpartition(":")
        if not sep:
            return [t, None]
        return [sha, mt]
    return [t, None]


def check_seq(chk, cases):
    if not cases:
        return
    d = tempfile.mkdtemp(prefix="c16_")
    try:
        runs = []
        for i, c in enumerate(cases):
            runs.append(_run_seq_impl(c, d, i))
        lines = []
        for c, (mops, _obs, _info) in zip(cases, runs):
            ptab, stab = _tables(sorted(set(_seq_contents(c).values())))
            lines.append(lib.model_call("fs.run", c["name"], bool(c.get("incl")), bool(c.get("validate")), [],
                                        mops, ptab, stab))
        answers = [lib.dec(x) for x in lib.run_model(MODEL, lines, chunk=250, procs=14)]
    finally:
        shutil.rmtree(d, ignore_errors=True)
    for c, (mops, obs, info), m in zip(cases, runs, answers):
        _judge_seq(chk, c, mops, obs, m, info)


def _judge_seq(chk, c, mops, obs, m, info=None):
    info = info or {}
    incl = bool(c.get("incl"))
    fam = c.get("fam", "seq")
    fmt = _expected_format(c["name"])
    n_mod = sum(1 for o in mops if o[0] == "w" and o[1][0] != "none")
    chk.mark((fam, c["name"], incl, bool(c.get("validate")), json.dumps(c["ops"]), json.dumps(c.get("contents")))
             + ((c["layout"],) if c.get("layout") else ()), bool(obs) and n_mod > 0)
    if c.get("layout"):
        chk.count(f"{fam}:layout:" + c["layout"])
    chk.count(f"{fam}:len{min(len(c['ops']), 8)}")
    chk.count(f"{fam}:hyp_{'holds' if m['hyp'] else 'fails'}")
    chk.count(f"{fam}:ext:" + os.path.splitext(c["name"])[1].lower())
    chk.sample({"case": c, "impl": [[o["kind"], o["value"] if o["kind"] == "tag" else o["value"][0]] for o in obs],
                "model_hyp": m["hyp"]}, every=1499)
    mobs = m["obs"]
    if len(mobs) != len(obs):
        raise RuntimeError("observation count mismatch")
    viol = []
    # ---- load(): judged directly against json/yaml called on the bytes on disk
    for o, (mo, _mf) in zip(obs, mobs):
        if o["kind"] != "load":
            continue
        b, _mt = o["disk"]
        chk.count(f"{fam}:load:" + (o["value"][0] if o["value"][0] == "ok" else o["value"][1]))
        if b is None:
            want = ["raise", "FileNotFoundError"]
        else:
            want = _oracle_parse(b, fmt)
            if fmt == "yaml" and want[0] == "ok":
                if want[1] is None:
                    want = ["ok", {}]
                elif not isinstance(want[1], dict):
                    want = ["raise", "ValueError"]
            if want[0] == "ok" and c.get("validate"):
                ok = _schema_ok(want[1])
                if ok is False:
                    want = ["raise", "ValidationError"]
                elif ok is None:
                    want = None  # jsonschema not importable here: skip the direct judgement
        if want is not None and not _same_doc(o["value"], want):
            viol.append(("load() did not return the parse of the current file content (%s by extension)" % fmt,
                         o["value"], want))
    # ---- etag(): judged directly when the history satisfies the property's hypothesis
    tags = [(o, mo) for o, (mo, _mf) in zip(obs, mobs) if o["kind"] == "tag"]
    itags = []
    for o, mo in tags:
        v = o["value"]
        itags.append(_split_tag(v[1], incl) if v[0] == "tag" else ["!raise"])
        chk.count(f"{fam}:etag:" + ("raise" if v[0] != "tag" else "none" if v[1] is None else "tag"))
    if m["hyp"]:
        for i, (o, _mo) in enumerate(tags):
            b, mt = o["disk"]
            if o.get("inside"):
                continue    # the file changed during this very call: not an observation of a quiet file
            if o["value"][0] != "tag":
                viol.append(("etag() raised in a sequential history", o["value"], None))
                continue
            if (o["value"][1] is None) != (b is None):
                viol.append(("etag() is None exactly for a missing file: violated", o["value"], b is None))
            for j in range(i):
                o2 = tags[j][0]
                b2, mt2 = o2["disk"]
                if b is None or b2 is None or o2["value"][0] != "tag" or o2.get("inside"):
                    continue
                t1, t2 = o2["value"][1], o["value"][1]
                if b == b2 and (not incl or mt == mt2) and t1 != t2:
                    viol.append(("two observations of unchanged content have different tags", [t1, t2], None))
                if b != b2 and t1 == t2:
                    viol.append(("content differs (together with its size or mtime) but the tags are equal",
                                 [t1, t2], None))
                if incl and mt != mt2 and t1 == t2:
                    viol.append(("include_mtime: modification time differs but the tags are equal", [t1, t2], None))
    # ---- histories with a change INSIDE an etag() call (at any file-system call boundary): every etag() call during
    #      which the file is quiet - and the two made after the file has stopped changing - must report what a fresh
    #      source reports for the same file, as long as (size, mtime_ns) determines the content along the history
    if info.get("nonquiet"):
        chk.count(f"{fam}:incall_changes", info["incall"])
        calls = info["calls"]
        for q in calls:
            if q.get("k") is not None:
                chk.count(f"{fam}:incall:" + ("after-call" if not q["inside"] else "k%d" % min(q["k"], 9)))
        if _sig_determines(info["states"]):
            for ix, q in enumerate(calls):
                if q["inside"] or q.get("k") is not None:
                    continue
                fr = q.get("fresh") or (obs[q["obs"]].get("fresh") if q["obs"] is not None else None)
                if fr is None or fr == q["value"]:
                    continue
                if _poisoned_by_design(calls, ix):
                    chk.count(f"{fam}:stale-after-return-to-old-signature (outside the quantifier)")
                    continue
                prev = [x for x in calls[:ix] if x["inside"]]
                viol.append(("etag() on a quiet file differs from the tag a fresh FilePolicySource computes for the "
                             "same file (the file changed inside an earlier etag() call and has not returned to the "
                             "signature that call started from): content / mtime differ but the tag does not follow"
                             + (" - still so once the file has stopped changing" if q.get("tail") else ""),
                             {"etag": q["value"], "fresh_source": fr,
                              "file_now": [None if q["start"][0] is None else q["start"][0].decode("utf-8", "replace"),
                                           q["start"][1]],
                              "change_landed_after_fs_call": prev[-1]["k"] if prev else None,
                              "fs_calls_of_that_etag": prev[-1]["fs_calls"] if prev else None}, None))
                break
        else:
            chk.count(f"{fam}:incall:signature-does-not-determine-content")
    for clause, iv, mv in viol[:3]:
        chk.violation(clause, c, impl=iv, model=mv)
    if viol:
        return
    if info.get("torn"):
        chk.count(f"{fam}:incall:torn-read (no model counterpart)")
        return
    # ---- correspondence with the model: equality pattern of the tags (+ mtime part), load results
    mtags = []
    for _o, mo in tags:
        if mo[0] == "tagraise":
            mtags.append(["!raise"])
        elif mo[1] is None:
            mtags.append(None)
        else:
            mtags.append([mo[1][0], None if mo[1][1] is None else str(mo[1][1])])
    diffs = []
    if _pattern([t if t is None else t[0] for t in itags]) != _pattern([t if t is None else t[0] for t in mtags]):
        diffs.append("equality pattern of the tags")
    elif [None if t is None else t[1:] for t in itags] != [None if t is None else t[1:] for t in mtags]:
        diffs.append("mtime part of the tags")
    for o, (mo, _mf) in zip(obs, mobs):
        if o["kind"] == "load" and not _same_doc(o["value"], mo[1]) and mo[1] != ["raise", "?unencodable-result"] \
                and not (c.get("validate") and _schema_ok({}) is None):
            diffs.append("load() result")
            break
    if diffs:
        chk.corr_break("FilePolicySource differs from the model FileStore.run in: " + ", ".join(diffs), c,
                       impl=[o["value"] if o["kind"] == "tag" else ["load", o["value"]] for o in obs],
                       model=[mo for mo, _ in mobs],
                       theorems=["c16_etag_tracks_content", "c16_etag_equal_and_different",
                                 "c16_etag_exact_iff_coherent", "c16_load_parses_current"])


def _same_doc(a, b):
    if a[0] != b[0]:
        return False
    if a[0] == "raise":
        return a[1] == b[1]
    try:
        return lib.enc(a[1]) == lib.enc(b[1])
    except TypeError:
        return repr(a[1]) == repr(b[1])


def _rotation():
    """-> rot(configs): the next (layout, config) pair; consecutive calls walk through all layouts, then move on
    to the next config."""
    i = [0]

    def rot(configs):
        k = i[0]
        i[0] += 1
        return LAYOUTS[k % len(LAYOUTS)], configs[(k // len(LAYOUTS)) % len(configs)]
    return rot


def gen_seq(chk):
    rng = chk.rng
    cases = []
    quick = chk.tier == "quick"
    # 1. every history up to length n over: atomic writes of A / B (same size) / C, a silent same-size rewrite,
    #    touch, delete, etag, load
    alpha1 = ["Wa", "Wb", "Wc", "Q", "T", "D", "E", "L"]
    n1 = 4 if quick else 5
    configs = [(ext, incl) for ext in (".json", ".yaml", ".yml") for incl in (False, True)]
    rot = _rotation()
    h = 0
    for n in range(1, n1 + 1):
        for seq in itertools.product(alpha1, repeat=n):
            if "E" not in seq and "L" not in seq:
                continue
            if seq[-1] not in ("E", "L"):
                continue  # a trailing modification is observed by nobody
            for ci, (ext, incl) in enumerate(configs):
                cases.append({"fam": "seq", "name": "p" + ext, "incl": incl, "ops": list(seq)})
            # the same history on the other layouts of the configured path (links, switched links, renamed
            # directories, relative path): thorough - every layout for histories up to length 4, one (rotating) for
            # length 5; quick - one rotating layout for every history up to length 3 and every second one of length 4
            h += 1
            if quick:
                k_lay = 1 if (n <= 3 or h % 2 == 0) else 0
            else:
                k_lay = len(LAYOUTS) if n <= 4 else 1
            for _ in range(k_lay):
                lay, (ext, incl) = rot(configs)
                cases.append({"fam": "seq", "name": "p" + ext, "incl": incl, "ops": list(seq), "layout": lay})
    # 2. restores with a preserved mtime, in-place rewrites, failed atomic writes, and etag() calls during which
    #    the file changes between the stat and the read
    alpha2 = ["Ra", "Rb", "Ib", "Fc", "D", "E", "E:Ra", "E:Rb", "E:D", "E:Q", "L"]
    n2 = 3 if quick else 4
    for n in range(1, n2 + 1):
        for seq in itertools.product(alpha2, repeat=n):
            if not any(s[0] in "EL" for s in seq) or seq[-1][0] not in "EL":
                continue
            for ci, (ext, incl) in enumerate([(".json", False), (".yaml", True)]):
                cases.append({"fam": "seq", "name": "p" + ext, "incl": incl, "ops": list(seq)})
            h += 1    # on another layout: thorough - every history; quick - up to length 2 and every third of length 3
            for _ in range(1 if (not quick or n <= 2 or h % 3 == 0) else 0):
                lay, (ext, incl) = rot([(".json", False), (".yaml", True), (".yml", False), (".json", True)])
                cases.append({"fam": "seq", "name": "p" + ext, "incl": incl, "ops": list(seq), "layout": lay})
    # 2b. tiny hashing chunk sizes (the read loop of _hash_file): A and B differ only in their 21st byte
    alpha2b = ["Ia", "Ib", "Ic", "T", "E"]
    for n in range(2, 5):
        for seq in itertools.product(alpha2b, repeat=n):
            if seq[-1] != "E" or seq.count("E") < 2:
                continue
            for chunk in (1, 5, 22, 23):
                cases.append({"fam": "seq", "name": "p.json", "incl": False, "ops": list(seq), "chunk": chunk})
    # 3. seeded random longer histories over the whole alphabet and a wider content pool
    alpha3 = ["Wa", "Wb", "Wc", "Ia", "Ib", "Ic", "Ra", "Rb", "Fa", "Fb", "Q", "T", "D", "E", "E", "L", "L",
              "E:Wb", "E:Ra", "E:D", "E:T", "E:Q", "Wd", "Id"]
    n_rand = 1500 if quick else 30000
    for _ in range(n_rand):
        n = rng.randint(5, 14)
        extra = rng.choice(DOC_POOL)
        cases.append({"fam": "seq", "name": "p" + rng.choice([".json", ".yaml", ".yml", ".YAML", ".txt"]),
                      "incl": rng.random() < 0.5, "ops": [rng.choice(alpha3) for _ in range(n)],
                      "contents": {"d": extra}, "chunk": rng.choice([None, None, 1, 7, 64])})
    # 3b. the same kind of history on the other layouts (generated after 3 so that its cases stay as they were)
    for _ in range(300 if quick else 5000):
        n = rng.randint(5, 14)
        extra = rng.choice(DOC_POOL)
        cases.append({"fam": "seq", "name": "p" + rng.choice([".json", ".yaml", ".yml", ".YAML", ".txt"]),
                      "incl": rng.random() < 0.5, "ops": [rng.choice(alpha3) for _ in range(n)],
                      "contents": {"d": extra}, "chunk": rng.choice([None, None, 1, 7, 64]),
                      "layout": rng.choice(LAYOUTS)})
    return cases


_FS_CALLS = {}


def fs_calls_of_etag(chunk=None):
    """dry run on the implementation under test: how many file-system calls one hashing etag() makes on its path
    (so that a change can be scheduled after each of them, whatever they are)."""
    if chunk not in _FS_CALLS:
        from rbacx.store.file_store import FilePolicySource

        d = tempfile.mkdtemp(prefix="c16_")
        try:
            path = os.path.join(d, "p.json")
            with open(path, "wb") as f:
                f.write(A.encode())
            src = FilePolicySource(path, **({"chunk_size": chunk} if chunk else {}))
            _FS_CALLS[chunk] = max(1, len(fs_calls_of(src.etag, path)))
        finally:
            shutil.rmtree(d, ignore_errors=True)
    return _FS_CALLS[chunk]


def gen_incall(chk):
    """the file changes INSIDE one etag() call: after the k-th file-system call that the call makes on its path,
    for every k the dry run shows (and k+1: right after the call), from several cache states, followed by quiet
    etag() calls, also after the file came back to an earlier signature."""
    rng = chk.rng
    thorough = chk.tier != "quick"
    cases = []
    K = fs_calls_of_etag()
    pres = [["Wa"], ["Wa", "E"], ["Wa", "E", "T"], ["Wa", "E", "Ib"], ["Ra"], ["Ra", "E"], ["Wc", "E", "Wa"]]
    changes = ["Wb", "Wc", "Ib", "Ic", "Rb", "T", "D", "Q"]
    posts = [["E", "E"], ["Ra", "E", "E"], ["T", "E"], ["L", "E"]]
    if thorough:
        pres += [["Ra", "E", "T"], ["Wa", "L"], ["Wa", "E", "D", "Wa"]]
        changes += ["Ra", "Wa", "Fc"]
        posts += [["E", "Rb", "E"], ["D", "E", "Ra", "E"], ["E@1:Ra", "E"]]
    configs = [(".json", False), (".json", True)] + ([(".yaml", False), (".yml", True)] if thorough else [])
    rot = _rotation()
    h = 0
    for pre in pres:
        for k in range(1, K + 2):
            for x in changes:
                for post in posts:
                    for ext, incl in configs:
                        cases.append({"fam": "seq", "name": "p" + ext, "incl": incl,
                                      "ops": pre + ["E@%d:%s" % (k, x)] + post})
                    # on another layout of the configured path (thorough: each history, quick: every 5th)
                    h += 1
                    if thorough or h % 5 == 0:
                        lay, (ext, incl) = rot(configs)
                        cases.append({"fam": "seq", "name": "p" + ext, "incl": incl, "layout": lay,
                                      "ops": pre + ["E@%d:%s" % (k, x)] + post})
    # several reads per hash: a change between two chunk reads
    for chunk in (5, 22):
        Kc = fs_calls_of_etag(chunk)
        for k in range(1, Kc + 2):
            for x in ("Ib", "Wb", "Ic", "D"):
                cases.append({"fam": "seq", "name": "p.json", "incl": bool(k % 2), "chunk": chunk,
                              "ops": ["Wa", "E@%d:%s" % (k, x), "E", "E"]})
    # seeded longer histories
    alpha = ["Wa", "Wb", "Wc", "Ia", "Ib", "Ic", "Ra", "Rb", "T", "D", "E", "E", "L", "Q"] + \
            ["E@%d:%s" % (k, x) for k in range(1, K + 2) for x in ("Wb", "Wc", "Ib", "Ra", "T", "D")]
    for _ in range(4000 if thorough else 300):
        n = rng.randint(4, 10)
        cases.append({"fam": "seq", "name": "p" + rng.choice([".json", ".yaml"]), "incl": rng.random() < 0.5,
                      "ops": [rng.choice(alpha) for _ in range(n)] + ["E"], "chunk": rng.choice([None, None, 7])})
    for _ in range(1000 if thorough else 60):
        n = rng.randint(4, 10)
        cases.append({"fam": "seq", "name": "p" + rng.choice([".json", ".yaml"]), "incl": rng.random() < 0.5,
                      "ops": [rng.choice(alpha) for _ in range(n)] + ["E"], "chunk": rng.choice([None, None, 7]),
                      "layout": rng.choice(LAYOUTS)})
    return cases


def gen_doc(chk):
    cases = []
    for ci, content in enumerate(DOC_POOL):
        for name in DOC_NAMES:
            cases.append({"fam": "doc", "name": name, "incl": bool(ci % 2), "validate": False,
                          "ops": ["L", "E", "Id", "E", "L", "T", "E", "L", "D", "L", "E"], "contents": {"d": content}})
    # the other layouts of the configured path: the link / release file carries the same name (same extension);
    # the document also arrives as a new file (Wd), not only by a rewrite in place
    rot = _rotation()
    h = 0
    for ci, content in enumerate(DOC_POOL):
        for name in DOC_NAMES:
            h += 1
            if chk.tier != "quick" or h % 4 == 0:
                lay, (incl,) = rot([(False,), (True,)])
                cases.append({"fam": "doc", "name": name, "incl": incl, "validate": False, "layout": lay,
                              "ops": ["L", "E", "Wd", "E", "L", "T", "E", "L", "D", "L", "E", "Id", "L", "E", "Wa", "L"],
                              "contents": {"d": content}})
    # schema validation on (one jsonschema run costs ~0.2 s inside load(), so few of them in the quick tier)
    vpool = DOC_POOL if chk.tier != "quick" else [A, C, "", "{}", "[]", "null", DOC_POOL[13], DOC_POOL[-1], '{"rules": ']
    for content in vpool:
        for name in ("p.json", "p.yaml"):
            cases.append({"fam": "doc", "name": name, "incl": False, "validate": True, "ops": ["Id", "L", "E"],
                          "contents": {"d": content}})
    return cases


def check_format(chk):
    names = DOC_NAMES + ["", "x.Yaml", "x.yMl", "x.jsOn", "dir.yaml/x", "x.yaml ", "a.b.c.yml"]
    ans = [lib.dec(x) for x in lib.run_model(MODEL, [lib.model_call("fs.format", n) for n in names])]
    from rbacx.store.policy_loader import _detect_format

    for n, m in zip(names, ans):
        got = _detect_format(filename=n)
        chk.mark(("format", n), True)
        chk.count("format:" + got)
        if got != _expected_format(n):
            chk.violation("format is not chosen by the file extension (.yaml/.yml -> YAML, else JSON)",
                          {"fam": "format", "name": n}, impl=got, model=m)
        elif got != m:
            chk.corr_break("_detect_format differs from FileStore.detect_format", {"fam": "format", "name": n},
                           impl=got, model=m, theorems=["c16_format_yaml", "c16_format_json"])


# --------------------------------------------------------------------------
# fam "rw": reader thread against a writer thread
# --------------------------------------------------------------------------
def check_rw(chk, c):
    from rbacx.store.file_store import FilePolicySource, atomic_write

    d = tempfile.mkdtemp(prefix="c16_")
    try:
        path = os.path.join(d, c["name"])
        n_docs = c.get("docs", 3)
        pad = c.get("pad", 30000)
        docs = [{"rules": [{"id": "v%d-%d" % (k, i), "effect": "permit", "actions": ["read"],
                            "resource": {"type": "doc"}} for i in range(pad // 80 + k)], "version": k}
                for k in range(n_docs)]
        texts = [json.dumps(x) for x in docs]
        shas = {hashlib.sha256(t.encode()).hexdigest() for t in texts}
        atomic_write(path, texts[0])
        stop = threading.Event()
        bad, seen = [], {}
        counts = {"loads": 0, "etags": 0, "writes": 0}

        def reader(kind):
            src = FilePolicySource(path, include_mtime_in_etag=bool(c.get("incl")))
            while not stop.is_set():
                try:
                    if kind == "load":
                        doc = src.load()
                        counts["loads"] += 1
                        if doc not in docs:
                            bad.append(["load returned a document that was never written",
                                        repr(doc)[:120]])
                        else:
                            seen[doc["version"]] = seen.get(doc["version"], 0) + 1
                    else:
                        t = src.etag()
                        counts["etags"] += 1
                        sha = None if t is None else t.split(":")[0]
                        if sha not in shas:
                            bad.append(["etag is not the hash of any complete document written", repr(t)])
                except Exception as e:  # noqa: BLE001
                    bad.append([kind + " raised during a concurrent atomic write", type(e).__name__ + ": " + str(e)[:120]])
                if len(bad) > 5:
                    return

        ths = [threading.Thread(target=reader, args=("load",)), threading.Thread(target=reader, args=("load",)),
               threading.Thread(target=reader, args=("etag",))]
        for t in ths:
            t.start()
        try:
            import time as _time

            t_end = _time.time() + c.get("max_s", 8.0)
            i = 0
            while (i < c.get("writes", 300) or counts["loads"] < c.get("min_loads", 200)) and _time.time() < t_end:
                atomic_write(path, texts[(i + 1) % n_docs])
                counts["writes"] += 1
                i += 1
                if bad:
                    break
        finally:
            stop.set()
            for t in ths:
                t.join()
        leftovers = [n for n in os.listdir(d) if n.startswith(PREFIX)]
        if leftovers:
            bad.append(["temporary files left after successful writes", leftovers])
        chk.mark(("rw", json.dumps(c, sort_keys=True)), counts["loads"] > 0)
        chk.count("rw:loads", counts["loads"])
        chk.count("rw:etags", counts["etags"])
        chk.count("rw:writes", counts["writes"])
        chk.count("rw:versions_seen", len(seen))
        chk.traces += 1
        if bad:
            chk.violation("reader concurrent with atomic_write: " + bad[0][0], c, impl=bad[:3],
                          model="every load parses to one of the documents written; every etag is the hash of one")
    finally:
        shutil.rmtree(d, ignore_errors=True)


# --------------------------------------------------------------------------
# fam "big": files larger than the default hashing chunk (512 KiB); judged directly, no model run
# --------------------------------------------------------------------------
def check_big(chk, c):
    from rbacx.store.file_store import FilePolicySource, atomic_write

    d = tempfile.mkdtemp(prefix="c16_")
    try:
        path = os.path.join(d, c["name"])
        size = c.get("size", 1_200_000)
        body = ("x" * 63 + " ") * (size // 64)
        docs = {"a": '{"pad": "' + body + '", "v": "a"}', "b": '{"pad": "' + body + '", "v": "b"}',
                "c": '{"v": "a", "pad": "' + body + '"}'}
        src = FilePolicySource(path, include_mtime_in_etag=bool(c.get("incl")),
                               **({"chunk_size": c["chunk"]} if c.get("chunk") else {}))
        seen = []
        tick = 10_000
        for sym in c["ops"]:
            if sym in docs:
                atomic_write(path, docs[sym])
                tick += 1000
                os.utime(path, ns=(tick, tick))
            elif sym == "E":
                with open(path, "rb") as f:
                    bts = f.read()
                seen.append((bts, os.stat(path).st_mtime_ns, src.etag()))
            elif sym == "L":
                got = src.load()
                if got != json.loads(docs[[k for k in docs if docs[k].encode() == open(path, "rb").read()][0]]):
                    chk.violation("load() of a large file did not return the parse of its content", c, impl="differs")
        bad = None
        for i in range(len(seen)):
            for j in range(i):
                (b1, m1, t1), (b2, m2, t2) = seen[j], seen[i]
                if b1 == b2 and (not c.get("incl") or m1 == m2) and t1 != t2:
                    bad = "two observations of unchanged content have different tags (large file)"
                if b1 != b2 and t1 == t2:
                    bad = "content differs (together with its mtime) but the tags are equal (large file)"
        chk.mark(("big", json.dumps(c, sort_keys=True)), True)
        chk.count("big:files")
        if bad:
            chk.violation(bad, c, impl=[t for _b, _m, t in seen])
    finally:
        shutil.rmtree(d, ignore_errors=True)


# --------------------------------------------------------------------------
def check_cases(chk, cases, replay=False):
    by = {}
    for c in cases:
        by.setdefault(c.get("fam", "aw"), []).append(c)
    check_aw(chk, by.get("aw", []))
    B = 4000
    seqs = by.get("seq", []) + by.get("doc", [])
    for i in range(0, len(seqs), B):
        check_seq(chk, seqs[i:i + B])
    for c in by.get("format", []):
        check_format(chk)
        break
    for c in by.get("rw", []):
        check_rw(chk, c)
    for c in by.get("big", []):
        check_big(chk, c)


def corpus_cases():
    out = []
    cdir = lib.VERIF / "corpus" / "C16"
    if cdir.is_dir():
        for f in sorted(cdir.glob("*.json")):
            data = json.loads(f.read_text())
            if "case" in data:
                out.append(lib.unjson(data["case"]))
            for x in data.get("cases", []):
                out.append(lib.unjson(x["case"] if "case" in x else x))
    return out


def run(chk):
    chk.rule = (
        "aw: every fault script of atomic_write (each of mkstemp/fdopen/write pieces/close/replace/unlink done, "
        "raising or killing the forked writer; every partial byte count for the short documents, cuts at "
        "0,1,n/2,n-1,n for the long and multi-byte ones; old target present/absent; SIGKILL and real-file-object "
        "variants; natural failures: missing directory, unknown codec, unencodable text, target is a directory); "
        "non-trivial = the script has a failure, a kill or a partial write.  seq: every history up to length 4 "
        "(thorough 5) over {atomic write A/B(same size)/C, silent same-size rewrite, touch, delete, etag, load} x "
        "{.json,.yaml,.yml} x include_mtime, every history up to length 3 (thorough 4) over {restore with preserved "
        "mtime A/B, in-place rewrite, failed atomic write, delete, etag, etag with a change between stat and read, "
        "load}, histories {7 cache states} x {etag with one of 8 changes landing after its k-th file-system call, every k "
        "seen on a dry run of the implementation, and right after the call} x {quiet etags, return to the old file, "
        "touch, load} x include_mtime (+ tiny chunk sizes: between two reads), "
        "seeded random histories of length 5-14; the same history families on 8 other LAYOUTS of the configured "
        "path (symbolic link to a file, replaced by atomic_write or switched atomically to new version files / left "
        "dangling; symlinked parent directory, written through or switched to a new release directory; directories "
        "renamed into place; relative path) - quick: one rotating layout for a fraction of the histories, thorough: "
        "every layout for every history up to length 4 of the first alphabet, one rotating layout for every other "
        "history; non-trivial = at least one observation and one "
        "modification; plus tiny hashing chunk sizes and files larger than the default 512 KiB chunk (the latter "
        "judged directly, without the model).  doc: 26 contents x 14 file names x validate on/off.  rw: reader "
        "threads vs a writer.  "
        "distinct = distinct case JSON")
    chk.assumptions = [
        "os.replace is atomic and the completed system calls of a killed process stay visible (the OS's; exercised "
        "on this sandbox's ext4, not proved)",
        "power-loss durability is neither claimed nor modelled (atomic_write does not fsync)",
        "the target path is not itself of the form <dir>/.rbacx.tmp.<random> (hypothesis not_candidate of the theorems)",
        "sha256 is collision-free (hypothesis h injective inside c16_etag_equal_and_different; the model hashes "
        "with the identity and the tags are compared by their equality pattern)",
        "json.loads / yaml.safe_load / jsonschema are oracles (section variables of the model; the harness calls "
        "them directly on the bytes on disk)",
        "etag theorems carry the property's own hypothesis: along the history (size, mtime_ns) determines the "
        "content; and no change of the file between the os.stat and the read inside one etag() call "
        "(c16_midcall_change_refuted shows the cache is poisoned otherwise)",
        "'the path' is the configured path string as the OS resolves it at the moment of each call (symbolic links "
        "followed then, not at construction); the working directory does not change between the construction of a "
        "source with a relative path and its use (the property says nothing about os.chdir; not exercised)",
        "histories with a change inside an etag() call are outside the theorems; they are run against the model "
        "(FileStore.etag_call's mid-call change, or [etag; change] when the call had already read the old bytes; torn "
        "reads have no counterpart) and judged directly on the implementation: etag() on a quiet file = tag of a fresh "
        "source, whenever (size, mtime_ns) determines the content along the history - except in the one situation "
        "the refutation theorem describes (the file changed inside an earlier etag() before that call read it, the "
        "file is back at the signature that call started from, and no etag() has since run at another signature)",
    ]
    cc = corpus_cases()
    chk.extra["corpus_cases"] = len(cc)
    check_cases(chk, cc, replay=True)
    check_cases(chk, gen_aw(chk))
    check_format(chk)
    check_cases(chk, gen_doc(chk))
    check_cases(chk, gen_seq(chk))
    inc = gen_incall(chk)
    chk.extra["etag_fs_calls_seen_on_dry_run"] = {"default_chunk": fs_calls_of_etag(), "chunk_5": fs_calls_of_etag(5)}
    chk.extra["incall_cases"] = len(inc)
    check_cases(chk, inc)
    for chunk in (None, 4096):
        check_cases(chk, [{"fam": "big", "name": "p.json", "incl": False, "chunk": chunk,
                           "ops": ["a", "E", "b", "E", "a", "E", "L", "c", "E", "E"]}])
    n_rw = 2 if chk.tier == "quick" else 8
    for i in range(n_rw):
        check_rw(chk, {"fam": "rw", "name": ["p.json", "p.yaml"][i % 2], "incl": bool(i % 2),
                       "writes": 250 if chk.tier == "quick" else 1500, "pad": [30000, 300000][i % 2] if i < 4 else 3000})
