"""C07 — permits are gated by their obligations; the built-in checker fails closed.

Correspondence: BasicObligationChecker().check(raw, context) against the extracted model
Oblig.check (props/C07.v proves it equal to the documented table `met`, first unmet
challenge, ignoring unknown types and obligations aimed at the other effect), and through
Guard with the built-in checker and with sync/async custom checkers returning a negative
verdict.  The model's verdict is the only one the property allows."""
import asyncio
import copy
import itertools

import gen
import lib
import morph

RUNNER = "engine"

TYPES = ["require_mfa", "require_level", "http_challenge", "require_consent", "require_terms_accept",
         "require_captcha", "require_reauth", "require_age_verified", "require_geo", None, 5]
CTX_VALUES = ["<absent>", None, False, True, 0, 1, 3, 2.9, 3.0, "3", " 3 ", "3_0", "+3", "high", "", [], [1], {},
              {"k": True}, {"k": 0}, gen.NAN, gen.INF, -1, "0", 10**30, -0.0, "-1", "1e3", "3.0",
              10**400, -(10**400), 1e308, -gen.INF]
# numeric text at CPython's int/str conversion limit (4300 digits): a few cases only (slow in the extracted model)
LIMIT_TEXT = ["9" * 4300, "9" * 4301, "-" + "1" * 4301, " 0_0" + "9" * 4298, "9" * 5000]
KEY_OF = {"require_mfa": "mfa", "require_level": "auth_level", "require_consent": "consent",
          "require_terms_accept": "tos_accepted", "require_captcha": "captcha_passed",
          "require_reauth": "reauth_age_seconds", "require_age_verified": "age_verified"}
ATTRS = {"require_level": [None, {"min": 2}, {"min": "2"}, {"min": "x"}, {"min": None}, {}, {"min": 2.9}, "junk", [1], {"min": True}],
         "require_reauth": [None, {"max_age": 2}, {"max_age": "2"}, {"max_age": "oops"}, {}, {"max_age": -1}, {"max_age": None}, 5],
         "require_consent": [None, {}, {"key": "k"}, {"key": "zz"}, {"key": 1}, {"key": None}, {"key": ["k"]}, {"key": ""}],
         "http_challenge": [None, {}, {"scheme": "Basic"}, {"scheme": "BEARER"}, {"scheme": "digest"}, {"scheme": "ntlm"},
                            {"scheme": None}, {"scheme": 5}, "x", {"scheme": ["Basic"]}, {"scheme": "Bası c"}]}


def impl_check(decision, obligations, ctx):
    from rbacx.core.model import Context
    from rbacx.core.obligations import BasicObligationChecker

    raw = {"decision": decision, "obligations": obligations}
    try:
        ok, ch = BasicObligationChecker().check(raw, Context(attrs=ctx))
        return ["Ok", bool(ok), ch]
    except Exception as e:  # noqa: BLE001
        return ["Raise", type(e).__name__]


def gen_direct(chk):
    cases = []
    for typ in TYPES:
        attr_opts = ATTRS.get(typ, [None, {}])
        for attrs in attr_opts:
            for on in ("<absent>", "permit", "deny", "other", None, ""):
                ob = {"type": typ}
                if attrs is not None:
                    ob["attrs"] = attrs
                if on != "<absent>":
                    ob["on"] = on
                key = KEY_OF.get(typ)
                vals = CTX_VALUES if key else ["<absent>", True]
                for v in vals:
                    ctx = {} if v == "<absent>" or key is None else {key: gen.fresh(v)}
                    for decision in ("permit", "deny"):
                        if decision == "deny" and v not in ("<absent>", True, 3):
                            continue
                        cases.append({"fam": "single", "decision": decision, "obligations": [ob], "ctx": ctx})
    for v in LIMIT_TEXT:
        cases.append({"fam": "limit", "decision": "permit", "obligations": [{"type": "require_level", "attrs": {"min": 1}}],
                      "ctx": {"auth_level": v}})
        cases.append({"fam": "limit", "decision": "permit", "obligations": [{"type": "require_level", "attrs": {"min": v}}],
                      "ctx": {"auth_level": 3}})
        cases.append({"fam": "limit", "decision": "permit", "obligations": [{"type": "require_reauth", "attrs": {"max_age": 10}}],
                      "ctx": {"reauth_age_seconds": v}})
    # ordered pairs: first failure decides the challenge
    singles = [({"type": "require_mfa"}, {"mfa": True}), ({"type": "require_mfa"}, {}),
               ({"type": "require_level", "attrs": {"min": 2}}, {"auth_level": 3}),
               ({"type": "require_level", "attrs": {"min": 2}}, {"auth_level": 1}),
               ({"type": "require_consent", "attrs": {"key": "k"}}, {"consent": {"k": True}}),
               ({"type": "require_consent", "attrs": {"key": "k"}}, {"consent": True}),
               ({"type": "require_reauth", "attrs": {"max_age": 10}}, {"reauth_age_seconds": 5}),
               ({"type": "require_reauth", "attrs": {"max_age": 10}}, {}),
               ({"type": "http_challenge", "attrs": {"scheme": "Basic"}}, {}),
               ({"type": "http_challenge", "on": "deny"}, {}),
               ({"type": "unknown_type"}, {}), ({"type": "require_captcha", "on": "deny"}, {}),
               ({"type": "require_terms_accept"}, {"tos_accepted": 1}), ({"type": "require_age_verified"}, {"age_verified": ""})]
    for (o1, c1), (o2, c2) in itertools.product(singles, repeat=2):
        ctx = {**c1, **c2}
        cases.append({"fam": "pair", "decision": "permit", "obligations": [o1, o2], "ctx": ctx})
    # the same parametrised type listed twice (or three times) with different attrs: EVERY obligation is judged
    same_type = [
        ([{"type": "require_level", "attrs": {"min": 1}}, {"type": "require_level", "attrs": {"min": 3}}], {"auth_level": 2}),
        ([{"type": "require_level", "attrs": {"min": 3}}, {"type": "require_level", "attrs": {"min": 1}}], {"auth_level": 2}),
        ([{"type": "require_consent", "attrs": {"key": "tos"}}, {"type": "require_consent", "attrs": {"key": "marketing"}}],
         {"consent": {"tos": True}}),
        ([{"type": "require_consent"}, {"type": "require_consent", "attrs": {"key": "marketing"}}], {"consent": {"tos": True}}),
        ([{"type": "require_reauth", "attrs": {"max_age": 3600}}, {"type": "require_reauth", "attrs": {"max_age": 60}}],
         {"reauth_age_seconds": 900}),
        ([{"type": "require_reauth", "attrs": {"max_age": 60}}, {"type": "require_reauth", "attrs": {"max_age": 3600}}],
         {"reauth_age_seconds": 900}),
        ([{"type": "require_mfa"}, {"type": "require_mfa", "attrs": {"x": 1}}, {"type": "require_mfa"}], {}),
        ([{"type": "require_mfa", "on": "deny"}, {"type": "require_mfa"}], {}),
        ([{"type": "require_mfa"}, {"type": "require_mfa", "on": "deny"}], {"mfa": True}),
        ([{"type": "require_level", "attrs": {"min": 1}}, {"type": "require_mfa"}, {"type": "require_level", "attrs": {"min": 3}}],
         {"auth_level": 2, "mfa": True}),
        ([{"type": "http_challenge", "on": "deny", "attrs": {"scheme": "Basic"}}, {"type": "http_challenge", "attrs": {"scheme": "Bearer"}}], {}),
    ]
    for obs, ctx in same_type:
        cases.append({"fam": "same_type", "decision": "permit", "obligations": obs, "ctx": ctx})
        cases.append({"fam": "same_type", "decision": "permit", "obligations": obs, "ctx": {}})
        cases.append({"fam": "same_type", "decision": "permit", "obligations": obs,
                      "ctx": {"auth_level": 5, "mfa": True, "consent": {"tos": True, "marketing": True}, "reauth_age_seconds": 1}})
    for (o1, c1), (o2, c2), (o3, c3) in itertools.product(singles[:8], singles[4:10], singles[8:]):
        cases.append({"fam": "triple", "decision": "permit", "obligations": [o1, o2, o3], "ctx": {**c1, **c2, **c3}})
    # odd obligation items and contexts
    for obs in ([None], [{}], [0], [""], [[]], ["x"], [5], [[1]], [{"type": "require_mfa"}, "x"], ["x", {"type": "require_mfa"}]):
        for ctx in ({}, {"mfa": True}):
            cases.append({"fam": "odd", "decision": "permit", "obligations": obs, "ctx": ctx})
    # the schema only asks an obligation to be an object: `type`, `on`, `attrs` of every JSON shape (unknown types are
    # ignored), each followed by an obligation that is not met
    for odd in ({"vendor": "x", "name": "y"}, ["require_mfa"], [], {}, 5, 2.5, True, None, "", "REQUIRE_MFA", "require_mfa "):
        for field in ("type", "on", "attrs"):
            ob = {"type": "require_mfa"}
            ob[field] = odd
            for ctx in ({}, {"mfa": True}):
                cases.append({"fam": "oddfield", "decision": "permit", "obligations": [ob, {"type": "require_captcha"}], "ctx": ctx})
                cases.append({"fam": "oddfield", "decision": "permit", "obligations": [{"type": "require_captcha"}, ob], "ctx": dict(ctx, captcha_passed=True)})
    for decision in ("permit", "deny", "Permit", ""):
        cases.append({"fam": "empty", "decision": decision, "obligations": [], "ctx": {}})
    return cases


# ---------------------------------------------------------------------------------------------------------------
# obligation LISTS that mix entries aimed at permit (met and unmet) with entries aimed at deny that would produce a
# challenge (every type that has one), in every order: the verdict is the one of the FIRST UNMET obligation aimed at
# the current effect, entries aimed at the other effect are ignored (c07_verdict / `passes`) — judged on the checker
# called directly (both decisions) and on the whole Decision through Guard.
ALL_MET = {"mfa": True, "auth_level": 9, "consent": {"k": True, "tos": True, "marketing": True}, "tos_accepted": True,
           "captcha_passed": True, "reauth_age_seconds": 1, "age_verified": True}
# (obligation aimed at permit, a context meeting it or None, a context not meeting it or None)
P_ENTRIES = [
    ({"type": "require_mfa"}, {"mfa": True}, {"mfa": False}),
    ({"type": "require_level", "attrs": {"min": 2}}, {"auth_level": 3}, {"auth_level": "1"}),
    ({"type": "require_consent", "attrs": {"key": "k"}}, {"consent": {"k": True}}, {"consent": {"z": True}}),
    ({"type": "require_consent"}, {"consent": True}, {}),
    ({"type": "require_terms_accept"}, {"tos_accepted": True}, {"tos_accepted": None}),
    ({"type": "require_captcha"}, {"captcha_passed": 1}, {}),
    ({"type": "require_reauth", "attrs": {"max_age": 300}}, {"reauth_age_seconds": 100}, {"reauth_age_seconds": 900}),
    ({"type": "require_age_verified"}, {"age_verified": True}, {"age_verified": 0}),
    ({"type": "http_challenge", "attrs": {"scheme": "Bearer"}}, None, {}),
    ({"type": "http_challenge"}, None, {}),
    ({"type": "require_geo"}, {}, None),
]
# entries aimed at deny: every type of core/obligations.py that has a challenge (http_challenge: every scheme branch)
D_ENTRIES = [
    {"on": "deny", "type": "http_challenge", "attrs": {"scheme": "Basic"}},
    {"on": "deny", "type": "http_challenge", "attrs": {"scheme": "BEARER"}},
    {"on": "deny", "type": "http_challenge", "attrs": {"scheme": "digest"}},
    {"on": "deny", "type": "http_challenge", "attrs": {"scheme": "ntlm"}},
    {"on": "deny", "type": "http_challenge"},
    {"on": "deny", "type": "http_challenge", "attrs": "x"},
    {"on": "deny", "type": "require_mfa"},
    {"on": "deny", "type": "require_level", "attrs": {"min": 5}},
    {"on": "deny", "type": "require_consent", "attrs": {"key": "zz"}},
    {"on": "deny", "type": "require_consent"},
    {"on": "deny", "type": "require_terms_accept"},
    {"on": "deny", "type": "require_captcha"},
    {"on": "deny", "type": "require_reauth", "attrs": {"max_age": 0}},
    {"on": "deny", "type": "require_age_verified"},
]
CHECKERS3 = ("builtin", "subclass-sync", "subclass-async")
SHAPES3 = ("single", "set", "nested")
ALGOS3 = ("deny-overrides", "permit-overrides", "first-applicable")


def _p_states():
    out = []
    for i, (ob, met, unmet) in enumerate(P_ENTRIES):
        for j, ctx in enumerate((met, unmet)):
            if ctx is None:
                continue
            o = dict(ob)
            if (i + j) % 2:
                o = {"on": "permit", **o}            # `on` absent and on: permit both aim at permit
            out.append((o, ctx, j == 0))
    return out


def _mixed_lists(chk):
    """[(obligations, ctx)]: pairs in both orders, triples (met, unmet, aimed-at-deny) in every order, longer lists"""
    thorough = chk.tier == "thorough"
    ps = _p_states()
    out = []
    for p, ctx, _met in ps:
        for d in D_ENTRIES:
            out.append(([p, d], ctx))
            out.append(([d, p], ctx))
    n = 0
    for (p1, c1, m1), (p2, c2, m2) in itertools.product(ps, repeat=2):
        if not m1 or m2 or p1["type"] == p2["type"]:
            continue                                  # p1 met, p2 unmet, of different types
        ds = D_ENTRIES if thorough else [D_ENTRIES[(n + k * 5) % len(D_ENTRIES)] for k in range(2)]
        for d in ds:
            perms = list(itertools.permutations([p1, p2, d]))
            if not thorough:
                perms = [perms[n % 6], perms[(n + 3) % 6]]
            for perm in perms:
                out.append((list(perm), {**c1, **c2}))
            n += 1
    # longer lists: two entries aimed at deny around / between the entries aimed at permit; every entry aimed at deny
    for k in range(len(ps) * (4 if thorough else 1)):
        p1, c1, _ = ps[k % len(ps)]
        p2, c2, _ = ps[(k * 7 + 3) % len(ps)]
        d1, d2 = D_ENTRIES[k % len(D_ENTRIES)], D_ENTRIES[(k * 3 + 1) % len(D_ENTRIES)]
        items = [d1, p1, d2, p2]
        chk.rng.shuffle(items)
        out.append((items, {**c1, **c2}))
    out.append((list(D_ENTRIES), {}))
    out.append((list(D_ENTRIES) + [{"type": "require_mfa"}], {}))
    out.append(([{"type": "require_mfa"}] + list(D_ENTRIES), {"mfa": 1}))
    return out


def gen_mixed(chk):
    thorough = chk.tier == "thorough"
    cases = []
    lists = _mixed_lists(chk)
    # quick: every list reaches the checker directly under one of the two decisions; a seed-dependent 1-in-5 sample
    # (the step is coprime to the 14 x 2 entry/order combinations of the pairs) goes through Guard and gets both decisions
    off = chk.rng.randrange(5)
    picked = [thorough or li % 5 == off for li in range(len(lists))]
    for li, (obs, ctx) in enumerate(lists):
        for k, decision in enumerate(("permit", "deny")):
            if thorough or picked[li] or (li % 2 == 0 and (li // 2) % 2 == k):
                cases.append({"fam": "mixed", "decision": decision, "obligations": obs, "ctx": ctx})
    # through Guard: checker flavour x API x policy shape x algorithm rotate (thorough: checker x API x shape for the pairs)
    i = 0
    for li, (obs, ctx) in enumerate(lists):
        if not picked[li]:
            continue
        full = thorough and len(obs) == 2
        combos = ([(ck, api, sh, ALGOS3[(i + k) % 3])
                   for k, (ck, api, sh) in enumerate(itertools.product(CHECKERS3, ("sync", "async"), SHAPES3))] if full else
                  [(CHECKERS3[i % 3], ("async", "sync", "async", "async")[(i // 3) % 4], SHAPES3[(i // 12) % 3], ALGOS3[(i // 36) % 3])])
        for checker, api, shape, algo in combos:
            cases.append({"fam": "engine_mixed", "obligations": obs, "ctx": ctx, "shape": shape, "algo": algo,
                          "effect": "permit", "checker": checker, "api": api, "cached": (i // 2) % 4 == 1})
        i += 1
    # a rule that DENIES carrying such lists: the deny stays (c07_engine_deny_stays); obligations are not consulted
    ps = _p_states()
    for k, d in enumerate(D_ENTRIES):
        for a, algo in enumerate(ALGOS3):
            if not thorough and (k + off) % 3 != a:
                continue
            p, ctx, _ = ps[(k * 2 + 1) % len(ps)]
            cases.append({"fam": "engine_mixed", "obligations": [p, d] if k % 2 else [d, p], "ctx": ctx,
                          "shape": SHAPES3[k % 3], "algo": algo, "effect": "deny", "checker": CHECKERS3[k % 3],
                          "api": ("sync", "async")[k % 2], "cached": False})
    return cases


# ---------------------------------------------------------------------------------------------------------------
# "the library saw the same policy OBJECT in an earlier state": a perturbed copy of the case's obligations (one aspect
# changed in every obligation) is evaluated first (requests that reach the obligation check: the rule matches and
# permits), then the very same dict / list objects are edited in place into the case's policy (morph.morph) and
# re-published — update_policy(same object) / set_policy(same object) / a new Guard(same object) — or handed again
# to the checker object directly.  The answer must be the model's for the case's policy (the document AS IT IS NOW).
PERTURBATIONS = ("unknown_type", "loosen", "tighten", "retype", "flip_on", "scheme", "reverse", "extra_first")
ROUTES = ("update_policy", "set_policy", "new_guard")
_RETYPE = {"require_mfa": "require_terms_accept", "require_terms_accept": "require_captcha",
           "require_captcha": "require_age_verified", "require_age_verified": "require_mfa",
           "require_level": "require_reauth", "require_reauth": "require_level", "require_consent": "require_mfa",
           "http_challenge": "require_mfa"}
_SCHEMES = ["Basic", "Bearer", "Digest", "ntlm"]


def perturb_obs(obs, kind):
    """a deep copy of the obligation list with one aspect changed in every obligation (None: nothing to change)"""
    out = copy.deepcopy(obs)
    if kind == "reverse":
        out.reverse()
    elif kind == "extra_first":
        out.insert(0, {"type": "require_geo"})
    for o in out:
        if not isinstance(o, dict) or kind in ("reverse", "extra_first"):
            continue
        typ = o.get("type")
        attrs = o.get("attrs")
        if kind == "unknown_type":
            o["type"] = "zz_unknown_obligation"
        elif kind == "retype":
            o["type"] = _RETYPE.get(typ, "require_mfa") if isinstance(typ, str) else "require_mfa"
        elif kind == "flip_on":
            o["on"] = "permit" if o.get("on") == "deny" else "deny"
        elif kind in ("loosen", "tighten"):
            loose = kind == "loosen"
            if not isinstance(attrs, dict):
                attrs = o["attrs"] = {}
            if typ == "require_level":
                attrs["min"] = 0 if loose else 10**6
            elif typ == "require_reauth":
                attrs["max_age"] = 10**9 if loose else -1
            elif typ == "require_consent":
                if loose:
                    attrs.pop("key", None)
                else:
                    attrs["key"] = "zz_other_key"
        elif kind == "scheme" and typ == "http_challenge":
            if not isinstance(attrs, dict):
                attrs = o["attrs"] = {}
            cur = str(attrs.get("scheme", "")).capitalize()
            attrs["scheme"] = _SCHEMES[(_SCHEMES.index(cur) + 1) % 4] if cur in _SCHEMES else "Basic"
    return None if out == obs else out


MORPH_OBS = [
    [{"type": "require_level", "attrs": {"min": 2}}],
    [{"type": "require_reauth", "attrs": {"max_age": 300}}],
    [{"type": "require_consent", "attrs": {"key": "k"}}],
    [{"type": "require_consent", "attrs": {}}],
    [{"type": "require_consent"}],
    [{"type": "require_mfa"}],
    [{"type": "require_terms_accept"}, {"type": "require_captcha"}],
    [{"on": "deny", "type": "require_age_verified"}],
    [{"on": "permit", "type": "require_age_verified"}],
    [{"type": "http_challenge", "attrs": {"scheme": "Basic"}}],
    [{"on": "deny", "type": "http_challenge", "attrs": {"scheme": "Digest"}}],
    [{"type": "require_mfa"}, {"on": "deny", "type": "http_challenge", "attrs": {"scheme": "Basic"}}],
    [{"type": "require_level", "attrs": {"min": 1}}, {"type": "require_mfa"}, {"type": "require_level", "attrs": {"min": 3}}],
    [{"type": "require_geo"}, {"type": "require_reauth", "attrs": {"max_age": "60"}}],
]


def _morph_ctxs(obs):
    keys = {KEY_OF[o["type"]] for o in obs if o.get("type") in KEY_OF}
    without = {k: v for k, v in ALL_MET.items() if k not in keys}
    only = {k: v for k, v in ALL_MET.items() if k in keys}
    edge = {}
    for o in obs:                                     # just inside the requirement as the case states it
        a = o.get("attrs") or {}
        if o.get("type") == "require_level" and isinstance(a.get("min"), int):
            edge["auth_level"] = max(a["min"], edge.get("auth_level", 0))
        if o.get("type") == "require_reauth" and isinstance(a.get("max_age"), int):
            edge["reauth_age_seconds"] = a["max_age"]
        if o.get("type") == "require_consent":
            edge["consent"] = {a["key"]: True} if a.get("key") is not None else {"other": True}
    out = []
    for c in ({}, dict(ALL_MET), without, only, {**without, **edge}):
        if c not in out:
            out.append(c)
    return out


def gen_morph(chk):
    thorough = chk.tier == "thorough"
    triples = [(obs, kind, ctx) for obs in MORPH_OBS for kind in PERTURBATIONS if perturb_obs(obs, kind) is not None
               for ctx in _morph_ctxs(obs)]
    # sensitive = the model judges the earlier state of the objects differently from the state they are in now
    lines = []
    for obs, kind, ctx in triples:
        lines.append(lib.model_call("oblig.check", "permit", perturb_obs(obs, kind), ctx))
        lines.append(lib.model_call("oblig.check", "permit", obs, ctx))
    outs = lib.run_model(RUNNER, lines, chunk=max(100, len(lines) // 8 + 1))
    sens = [outs[2 * k] != outs[2 * k + 1] for k in range(len(triples))]
    cases, i, dull, keen = [], 0, chk.rng.randrange(8), chk.rng.randrange(2)
    for (obs, kind, ctx), sensitive in zip(triples, sens):
        dull += 0 if sensitive else 1
        # quick: checker called directly: every sensitive history, 1 in 4 of the others; through Guard (several
        # evaluations each): every second sensitive history, 1 in 8 of the others
        for decision in ("permit", "deny"):
            for k, inst in enumerate(("same-checker", "new-checker")):
                if thorough or (decision == "permit" and (sensitive or dull % 4 == 0)) or (decision == "deny" and i % 6 == k):
                    cases.append({"fam": "morph_direct", "decision": decision, "obligations": obs, "ctx": ctx,
                                  "perturb": kind, "instance": inst, "raw": ("same", "fresh")[(i // 2) % 2],
                                  "sensitive": sensitive and decision == "permit"})
                i += 1
        keen += 1 if sensitive else 0
        if not (thorough or (sensitive and keen % 2 == 0) or (not sensitive and dull % 8 == 0)):
            continue
        combos = ([(ro, sh, ca, api, ("default", "shared")[(i + k) % 2])
                   for k, (ro, sh, ca, api) in enumerate(itertools.product(ROUTES, SHAPES3, (False, True), ("sync", "async")))]
                  if thorough else
                  [(ROUTES[i % 3], SHAPES3[(i // 3) % 3], (i // 9) % 3 == 1, ("async", "sync", "async", "async")[(i // 27) % 4],
                    ("default", "shared")[(i // 2) % 2])])
        for route, shape, cached, api, checker in combos:
            cases.append({"fam": "engine_morph", "obligations": obs, "ctx": ctx, "perturb": kind, "route": route,
                          "shape": shape, "algo": ALGOS3[i % 3], "effect": "permit", "cached": cached, "api": api,
                          "checker": checker, "sensitive": sensitive})
            i += 1
    return cases


REQ = {"subject": {"id": "u", "roles": [], "attrs": {}}, "action": "read", "resource": {"type": "doc", "id": "1", "attrs": {}}}


def policy_of(c, obs):
    rule = {"id": "r", "effect": c.get("effect", "permit"), "actions": ["read"], "resource": {"type": "doc"},
            "obligations": obs}
    pol = {"id": "p", "algorithm": c.get("algo", "deny-overrides"), "rules": [rule]}
    if c["shape"] == "set":
        pol = {"algorithm": "first-applicable", "policies": [pol]}
    elif c["shape"] == "nested":
        pol = {"id": "outer", "algorithm": "deny-overrides",
               "policies": [{"id": "inner", "algorithm": "permit-overrides", "policies": [pol]}]}
    return pol


def _decision_json(d):
    return {"allowed": d.allowed, "effect": d.effect, "obligations": copy.deepcopy(d.obligations), "challenge": d.challenge,
            "rule_id": d.rule_id, "policy_id": d.policy_id, "reason": d.reason}


def run_engine2(cases):
    """engine_mixed / engine_morph: one list of Decisions (as dicts, or ["Raise", name]) per case"""
    from rbacx.core.cache import DefaultInMemoryCache
    from rbacx.core.engine import Guard
    from rbacx.core.model import Action, Context, Resource, Subject
    from rbacx.core.obligations import BasicObligationChecker

    class Sub(BasicObligationChecker):                # as docs/obligations.md: subclass, call super().check
        def check(self, raw, context):
            return super().check(raw, context)

    class SubAsync(BasicObligationChecker):
        async def check(self, raw, context):  # type: ignore[override]
            await asyncio.sleep(0)
            return BasicObligationChecker.check(self, raw, context)

    loop = asyncio.new_event_loop()
    out = []

    def ask(g, c, ctx):
        args = (Subject(id="u"), Action("read"), Resource(type="doc", id="1"), Context(attrs=copy.deepcopy(ctx)))
        try:
            d = g.evaluate_sync(*args) if c["api"] == "sync" else loop.run_until_complete(g.evaluate_async(*args))
            j = _decision_json(d)
            # the caller consumes the Decision it was handed (pops the obligations it fulfils, clears or annotates the
            # list): the gate of the next evaluation (a cache hit in the cached cases) must not notice
            if isinstance(d.obligations, list):
                k = len(d.obligations) % 3
                if k == 0:
                    d.obligations.append({"type": "zz_caller_note"})
                elif k == 1:
                    d.obligations.clear()
                else:
                    d.obligations.pop(0)
            return j
        except Exception as e:  # noqa: BLE001
            return ["Raise", type(e).__name__]

    try:
        for c in cases:
            inst = {"builtin": None, "default": None, "shared": BasicObligationChecker(), "subclass-sync": Sub(),
                    "subclass-async": SubAsync()}[c["checker"]]

            def mk(p):
                return Guard(p, obligation_checker=inst, cache=DefaultInMemoryCache(16) if c["cached"] else None)

            target = policy_of(c, gen.fresh(c["obligations"]))
            if c["fam"] == "engine_morph":
                obj = policy_of(c, perturb_obs(c["obligations"], c["perturb"]))
                g = mk(obj)
                for wctx in (c["ctx"], ALL_MET):      # the library sees every obligation of the earlier state
                    ask(g, c, wctx)
                morph.morph(obj, target)
                assert obj == target
                if c["route"] == "new_guard":
                    g = mk(obj)
                else:
                    getattr(g, c["route"])(obj)
            else:
                g = mk(target)
            out.append([ask(g, c, c["ctx"]) for _ in range(2 if c["cached"] else 1)])
    finally:
        loop.close()
    return out


def run_morph_direct(c):
    from rbacx.core.model import Context
    from rbacx.core.obligations import BasicObligationChecker

    inst = BasicObligationChecker()
    obj = perturb_obs(c["obligations"], c["perturb"])
    raw = {"decision": c["decision"], "obligations": obj}
    try:
        for wctx in (c["ctx"], ALL_MET):
            for d in ("permit", "deny"):
                raw["decision"] = d
                inst.check(raw if c["raw"] == "same" else dict(raw), Context(attrs=copy.deepcopy(wctx)))
    except Exception:  # noqa: BLE001  (the earlier state is judged by its own cases)
        pass
    morph.morph(obj, gen.fresh(c["obligations"]))
    assert obj == c["obligations"]
    raw["decision"] = c["decision"]
    if c["instance"] == "new-checker":
        inst = BasicObligationChecker()
    try:
        ok, ch = inst.check(raw if c["raw"] == "same" else dict(raw), Context(attrs=copy.deepcopy(c["ctx"])))
        return ["Ok", bool(ok), ch]
    except Exception as e:  # noqa: BLE001
        return ["Raise", type(e).__name__]


def engine_cases(chk):
    """through Guard: built-in checker, and custom sync/async checkers with negative verdicts."""
    cases = []
    obs_pool = [[{"type": "require_mfa"}], [{"type": "require_level", "attrs": {"min": 2}}],
                [{"type": "require_reauth", "attrs": {"max_age": 10}}], [{"type": "require_consent", "attrs": {"key": "k"}}],
                [{"type": "http_challenge", "attrs": {"scheme": "Bearer"}}], [{"type": "unknown"}],
                [{"type": "require_mfa", "on": "deny"}], [{"type": "require_mfa"}, {"type": "require_captcha"}], []]
    ctxs = [{}, {"mfa": True}, {"auth_level": "high"}, {"auth_level": 3}, {"reauth_age_seconds": 5}, {"reauth_age_seconds": [1]},
            {"consent": True}, {"consent": {"k": 1}}, {"mfa": True, "captcha_passed": True}, {"mfa": 1, "captcha_passed": 0}]
    for obs in obs_pool:
        for ctx in ctxs:
            for shape in ("single", "set"):
                for cached in (False, True):
                    cases.append({"fam": "engine", "obligations": obs, "ctx": ctx, "shape": shape, "cached": cached,
                                  "checker": "builtin"})
    # custom checkers written as docs/obligations.md says (subclass the built-in one, call super().check first, then an
    # own rule that does not depend on the obligation list), on permits WITH and WITHOUT obligations
    for obs in (None, [], [{"type": "require_mfa"}], [{"type": "unknown"}]):
        for ctx in ({}, {"mfa": True}, {"mfa": True, "region": "embargoed"}, {"region": "embargoed"}):
            for flavour in ("subclass-sync", "subclass-async"):
                for shape in ("single", "set"):
                    cases.append({"fam": "engine_subclass", "obligations": obs, "ctx": ctx, "shape": shape, "cached": False,
                                  "checker": flavour})
    for verdict in ([False, None], [False, "mfa"], [True, None], [0, "x"], [1, None], ["raise"]):
        # a checker "synchronous or asynchronous": every way a check() can hand back its verdict now or later
        for flavour in ("sync", "async", "def-returning-coroutine", "def-returning-future", "decorated-async",
                        "async-callable-object", "partial-async", "custom-awaitable"):
            for cached in (False, True):
                cases.append({"fam": "engine_custom", "obligations": [{"type": "anything"}], "ctx": {}, "shape": "single",
                              "cached": cached, "checker": flavour, "verdict": verdict})
    return cases


def run_engine(cases):
    from rbacx.core.cache import DefaultInMemoryCache
    from rbacx.core.engine import Guard
    from rbacx.core.model import Action, Context, Resource, Subject

    out = []

    async def go():
        for c in cases:
            rule = {"id": "r", "effect": "permit", "actions": ["read"], "resource": {"type": "doc"}}
            if c["obligations"] is not None:
                rule["obligations"] = c["obligations"]
            pol = {"algorithm": "deny-overrides", "rules": [rule]}
            if c["shape"] == "set":
                pol = {"algorithm": "first-applicable", "policies": [{"id": "p", **pol}]}
            kw = {}
            if c["checker"].startswith("subclass"):
                from rbacx.core.obligations import BasicObligationChecker

                class Geo(BasicObligationChecker):
                    def check(self, raw, context):
                        ok, ch = super().check(raw, context)
                        if not ok:
                            return ok, ch
                        attrs = getattr(context, "attrs", None) or {}
                        if attrs.get("region") == "embargoed":
                            return False, "geo"
                        return True, None

                class GeoAsync(BasicObligationChecker):
                    async def check(self, raw, context):  # type: ignore[override]
                        await asyncio.sleep(0)
                        ok, ch = BasicObligationChecker.check(self, raw, context)
                        if not ok:
                            return ok, ch
                        attrs = getattr(context, "attrs", None) or {}
                        if attrs.get("region") == "embargoed":
                            return False, "geo"
                        return True, None

                kw["obligation_checker"] = Geo() if c["checker"] == "subclass-sync" else GeoAsync()
            elif c["checker"] != "builtin":
                v = c["verdict"]

                class Sync:
                    def check(self, raw, context):
                        if v == ["raise"]:
                            raise RuntimeError("checker down")
                        return v[0], v[1]

                class Async:
                    async def check(self, raw, context):
                        await asyncio.sleep(0)
                        if v == ["raise"]:
                            raise RuntimeError("checker down")
                        return v[0], v[1]

                import functools

                async def _averdict(raw, context):
                    await asyncio.sleep(0)
                    if v == ["raise"]:
                        raise RuntimeError("checker down")
                    return v[0], v[1]

                class DefCoroutine:               # plain def delegating to an async implementation
                    def check(self, raw, context):
                        return _averdict(raw, context)

                class DefFuture:                  # plain def returning a Future (e.g. work scheduled elsewhere)
                    def check(self, raw, context):
                        return asyncio.ensure_future(_averdict(raw, context))

                def _logged(fn):                  # a decorator that is not async-aware
                    @functools.wraps(fn)
                    def wrapper(*a, **k):
                        return fn(*a, **k)
                    return wrapper

                class Decorated:
                    @_logged
                    async def check(self, raw, context):
                        return await _averdict(raw, context)

                class _Call:
                    async def __call__(self, raw, context):
                        return await _averdict(raw, context)

                class CallableObject:
                    check = _Call()

                class PartialAsync:
                    def __init__(self):
                        self.check = functools.partial(_averdict)

                class _Later:                     # awaitable only through __await__ (neither coroutine nor Future)
                    def __init__(self, raw, context):
                        self.a = (raw, context)

                    def __await__(self):
                        return _averdict(*self.a).__await__()

                class CustomAwaitable:
                    def check(self, raw, context):
                        return _Later(raw, context)

                kw["obligation_checker"] = {"custom-awaitable": CustomAwaitable, "sync": Sync, "async": Async, "def-returning-coroutine": DefCoroutine,
                                            "def-returning-future": DefFuture, "decorated-async": Decorated,
                                            "async-callable-object": CallableObject, "partial-async": PartialAsync}[c["checker"]]()
            if c["cached"]:
                kw["cache"] = DefaultInMemoryCache(16)
            g = Guard(pol, **kw)
            ds = []
            for _ in range(2 if c["cached"] else 1):
                try:
                    d = await g.evaluate_async(Subject(id="u"), Action("read"), Resource(type="doc", id="1"),
                                               Context(attrs=dict(c["ctx"])))
                    ds.append({"allowed": d.allowed, "effect": d.effect, "reason": d.reason, "challenge": d.challenge,
                               "rule_id": d.rule_id, "obligations": d.obligations})
                except Exception as e:  # noqa: BLE001
                    ds.append(["Raise", type(e).__name__])
            out.append(ds)

    asyncio.run(go())
    return out


def check_cases(chk, cases, replay=False):
    direct = [c for c in cases if not c["fam"].startswith("engine") and c["fam"] != "morph_direct"]
    lines = [lib.model_call("oblig.check", c["decision"], c["obligations"], c["ctx"]) for c in direct]
    outs = [lib.dec(x) for x in lib.run_model(RUNNER, lines, chunk=max(500, len(lines) // 8 + 1))]
    for c, m in zip(direct, outs):
        i = impl_check(c["decision"], c["obligations"], c["ctx"])
        chk.count("fam:" + c["fam"])
        if m == ["Ood"]:
            chk.count("ood")
            chk.mark(("ood", repr(c)), False)
            continue
        mm = ["Raise"] if m[0] == "Raise" else m
        ii = ["Raise"] if i[0] == "Raise" else i
        nontriv = m[0] == "Ok" and len(c["obligations"]) > 0 and c["decision"] == "permit"
        chk.mark(repr(c), nontriv)
        chk.count("verdict:" + ("raise" if mm == ["Raise"] else "%s/%s" % (m[1], m[2])))
        chk.sample({**c, "impl": i, "model": m}, every=1201)
        if ii != mm:
            if ii == ["Raise"]:
                chk.violation("the built-in checker raised (Guard would log it and keep the permit): not fail-closed",
                              c, impl=i, model=m)
            else:
                chk.violation("built-in checker verdict/challenge differs from the documented table "
                              "(model Oblig.check = table `met`, props/C07.v)", c, impl=i, model=m)
    check_morph_direct(chk, [c for c in cases if c["fam"] == "morph_direct"])
    check_engine2(chk, [c for c in cases if c["fam"] in ("engine_mixed", "engine_morph")])
    eng = [c for c in cases if c["fam"] in ("engine", "engine_subclass", "engine_custom")]
    if eng:
        res = run_engine(eng)
        blines = [lib.model_call("oblig.check", "permit", c["obligations"] or [], c["ctx"]) for c in eng]
        bouts = [lib.dec(x) for x in lib.run_model(RUNNER, blines)]
        for c, ds, m in zip(eng, res, bouts):
            chk.count("fam:" + c["fam"])
            chk.mark(repr(c), True)
            if c["checker"] == "builtin" or c["checker"].startswith("subclass"):
                if m == ["Ood"]:
                    continue
                ok, ch = (m[1], m[2]) if m[0] == "Ok" else (True, None)
                if c["checker"].startswith("subclass") and ok and c["ctx"].get("region") == "embargoed":
                    ok, ch = False, "geo"      # the subclass's own rule, after the built-in table
            else:
                v = c["verdict"]
                ok, ch = (True, None) if v == ["raise"] else (bool(v[0]), v[1])
            want = {"allowed": ok, "effect": "permit" if ok else "deny", "reason": "matched" if ok else "obligation_failed",
                    "challenge": ch, "rule_id": "r", "obligations": c["obligations"] or []}
            for k, d in enumerate(ds):
                if d != want:
                    chk.violation("engine does not gate the permit by the checker's verdict (c07_engine_gate)%s"
                                  % (" on a cache hit" if k == 1 else ""), c, impl=d, model=want)
                    break


def _earlier_state(c):
    return ("after the same obligation objects, seen by the library in an earlier state (%s), were edited in place "
            "into this policy" % c["perturb"])


def check_morph_direct(chk, cases):
    if not cases:
        return
    lines = [lib.model_call("oblig.check", c["decision"], c["obligations"], c["ctx"]) for c in cases]
    outs = [lib.dec(x) for x in lib.run_model(RUNNER, lines, chunk=max(100, len(lines) // 8 + 1))]
    for c, m in zip(cases, outs):
        sensitive = bool(c.get("sensitive"))          # (gen_morph) the model judges the earlier state differently
        chk.count("fam:" + c["fam"])
        if m == ["Ood"]:
            chk.count("ood")
            chk.mark(("ood", repr(c)), False)
            continue
        i = run_morph_direct(c)
        # non-trivial: the earlier state of the objects is judged differently from the state they are in now
        chk.mark(repr(c), m[0] == "Ok" and sensitive)
        chk.count("morph:" + ("sensitive" if sensitive else "same-verdict-before"))
        mm = ["Raise"] if m[0] == "Raise" else m
        ii = ["Raise"] if i[0] == "Raise" else i
        if ii != mm:
            chk.violation("built-in checker verdict/challenge differs from the documented table for the obligations AS "
                          "THEY ARE NOW (model Oblig.check = table `met`, props/C07.v), %s and handed to %s"
                          % (_earlier_state(c), "the same checker object" if c["instance"] == "same-checker"
                             else "a new checker object"), c, impl=i, model=m)


def check_engine2(chk, cases):
    if not cases:
        return
    res = run_engine2(cases)
    lines = []
    for c in cases:
        req = {**REQ, "context": c["ctx"]}
        lines.append(lib.model_call("engine.eval", False, policy_of(c, c["obligations"]), req, None, None))
    outs = iter([lib.dec(x) for x in lib.run_model(RUNNER, lines, chunk=max(100, len(lines) // 8 + 1))])
    for c, ds in zip(cases, res):
        m = next(outs)
        sensitive = True
        if c["fam"] == "engine_morph":
            sensitive = bool(c.get("sensitive"))
            chk.count("morph:" + ("sensitive" if sensitive else "same-verdict-before"))
        chk.count("fam:" + c["fam"])
        if not isinstance(m, dict):                   # Ood / Raise: outside the modelled domain of the engine
            chk.count("engine2:model-" + str(m[0]))
            chk.mark(("ood", repr(c)), False)
            continue
        chk.mark(repr(c), sensitive and bool(c["obligations"]))
        chk.count("decision:%s/%s/%s" % (m["effect"], m["reason"], m["challenge"]))
        deny_rule = c.get("effect") == "deny"
        for k, d in enumerate(ds):
            same = d == m
            if deny_rule and isinstance(d, dict):     # c07_engine_deny_stays does not speak about the challenge
                same = {**d, "challenge": None} == {**m, "challenge": None}
            if same:
                continue
            how = " on a cache hit" if k == 1 else ""
            if c["fam"] == "engine_morph":
                how += ", %s and re-published with %s" % (_earlier_state(c), {
                    "update_policy": "update_policy(same object)", "set_policy": "set_policy(same object)",
                    "new_guard": "a new Guard(same object)"}[c["route"]])
            if deny_rule:
                clause = "a deny carrying obligations does not stay the policy's deny (c07_engine_deny_stays)" + how
            else:
                clause = ("engine does not gate the permit by its obligations: the Decision must be the one gated by the "
                          "FIRST UNMET obligation aimed at permit, obligations aimed at the other effect ignored "
                          "(c07_verdict, c07_engine_gate / c07_engine_grants)" + how)
            chk.violation(clause, c, impl=d, model=m)
            break


def corpus_cases():
    import json
    out = []
    for f in sorted((lib.VERIF / "corpus" / "C07").glob("*.json")):
        for c in json.loads(f.read_text())["cases"]:
            out.append(lib.unjson(c))
    return out


def run(chk):
    chk.rule = ("enumerated: each of the 8 built-in types (+ unknown / non-string types) x on in {absent, permit, deny, "
                "other, null, ''} x valid/invalid/non-object attrs x the relevant context key in {absent, null, booleans, "
                "ints, floats, numeric and non-numeric strings, lists, objects, NaN, inf} x decision; all ordered pairs and "
                "a family of triples of obligations (first failure decides the challenge); odd obligation items; through "
                "Guard (single policy and set, cold and cached) with the built-in checker and with sync/async custom "
                "checkers giving negative, positive and raising verdicts; `mixed` / `engine_mixed`: lists mixing entries "
                "aimed at permit (met / unmet, each type) with entries aimed at deny that have a challenge (each type, each "
                "http scheme branch), pairs in both orders, triples in every order, longer shuffles, under both decisions "
                "and through Guard (built-in / subclass sync / subclass async checker x sync / async API x single / set / "
                "nested x algorithm; quick: a seed-dependent 1-in-5 sample through Guard, thorough: everything), whole "
                "Decision against engine.eval; `morph_direct` / `engine_morph`: the same obligation objects seen by the "
                "library in an earlier state (type unknown / swapped, min / max_age / key loosened or tightened, `on` "
                "flipped, scheme changed, list reversed / shifted), edited in place into the case's policy and handed again "
                "to the checker or re-published by update_policy / set_policy / a new Guard. non-trivial = a permit with "
                "obligations judged by the model (morph families: the earlier state is judged differently by the model); "
                "distinct = distinct case")
    chk.assumptions = ["CPython's int/str conversion limit is the default 4300 digits (sys.get_int_max_str_digits()); the model treats longer digit strings as a conversion failure, exercised at 4300 / 4301 digits",
                       "non-ASCII strings passed to int() are outside the model (ood)"]
    cases = corpus_cases() + gen_direct(chk) + engine_cases(chk) + gen_mixed(chk) + gen_morph(chk)
    check_cases(chk, cases)
    chk.exhaustive = True                             # the enumerated pools; the families below are sampled in the quick tier
    if chk.tier != "thorough":
        chk.extra["sampled_in_quick"] = ("mixed: every list under one decision, 1 in 5 under both and through Guard; "
                                         "morph_direct / engine_morph: every / every second history whose earlier state the model "
                                         "judges differently, 1 in 4 / 1 in 8 of the others; thorough: all, with the product of "
                                         "routes x shapes x cache x API")
