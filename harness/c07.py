"""C07 — permits are gated by their obligations; the built-in checker fails closed.

Correspondence: BasicObligationChecker().check(raw, context) against the extracted model
Oblig.check (props/C07.v proves it equal to the documented table `met`, first unmet
challenge, ignoring unknown types and obligations aimed at the other effect), and through
Guard with the built-in checker and with sync/async custom checkers returning a negative
verdict.  The model's verdict is the only one the property allows."""
import asyncio
import itertools

import gen
import lib

RUNNER = "engine"

TYPES = ["require_mfa", "require_level", "http_challenge", "require_consent", "require_terms_accept",
         "require_captcha", "require_reauth", "require_age_verified", "require_geo", None, 5]
CTX_VALUES = ["<absent>", None, False, True, 0, 1, 3, 2.9, 3.0, "3", " 3 ", "3_0", "+3", "high", "", [], [1], {},
              {"k": True}, {"k": 0}, gen.NAN, gen.INF, -1, "0", 10**30, -0.0, "-1", "1e3", "3.0",
              10**400, -(10**400), 1e308, -gen.INF]
# numeric text at CPython's int/str conversion limit (4300 digits): a few cases only (slow in the extracted model)
LIMIT_TEXT = ["9" * 4300, "9" * 4301, "-" + "1" * 4301, " 0_0" + "9" * 4298, "9" * 5000]
KEY_OF = {"require_mfa": "mfa", "require_level": "auth_level", "require_consent": "consent",
          "require_terms_accept": "tos_accepted", "require_captcha": "captcha_passed",
          "require_reauth": "reauth_age_seconds", "require_age_verified": "age_verified"}
ATTRS = {"require_level": [None, {"min": 2}, {"min": "2"}, {"min": "x"}, {"min": None}, {}, {"min": 2.9}, "junk", [1], {"min": True}],
         "require_reauth": [None, {"max_age": 2}, {"max_age": "2"}, {"max_age": "oops"}, {}, {"max_age": -1}, {"max_age": None}, 5],
         "require_consent": [None, {}, {"key": "k"}, {"key": "zz"}, {"key": 1}, {"key": None}, {"key": ["k"]}, {"key": ""}],
         "http_challenge": [None, {}, {"scheme": "Basic"}, {"scheme": "BEARER"}, {"scheme": "digest"}, {"scheme": "ntlm"},
                            {"scheme": None}, {"scheme": 5}, "x", {"scheme": ["Basic"]}, {"scheme": "Bası c"}]}


def impl_check(decision, obligations, ctx):
    from rbacx.core.model import Context
    from rbacx.core.obligations import BasicObligationChecker

    raw = {"decision": decision, "obligations": obligations}
    try:
        ok, ch = BasicObligationChecker().check(raw, Context(attrs=ctx))
        return ["Ok", bool(ok), ch]
    except Exception as e:  # noqa: BLE001
        return ["Raise", type(e).__name__]


def gen_direct(chk):
    cases = []
    for typ in TYPES:
        attr_opts = ATTRS.get(typ, [None, {}])
        for attrs in attr_opts:
            for on in ("<absent>", "permit", "deny", "other", None, ""):
                ob = {"type": typ}
                if attrs is not None:
                    ob["attrs"] = attrs
                if on != "<absent>":
                    ob["on"] = on
                key = KEY_OF.get(typ)
                vals = CTX_VALUES if key else ["<absent>", True]
                for v in vals:
                    ctx = {} if v == "<absent>" or key is None else {key: gen.fresh(v)}
                    for decision in ("permit", "deny"):
                        if decision == "deny" and v not in ("<absent>", True, 3):
                            continue
                        cases.append({"fam": "single", "decision": decision, "obligations": [ob], "ctx": ctx})
    for v in LIMIT_TEXT:
        cases.append({"fam": "limit", "decision": "permit", "obligations": [{"type": "require_level", "attrs": {"min": 1}}],
                      "ctx": {"auth_level": v}})
        cases.append({"fam": "limit", "decision": "permit", "obligations": [{"type": "require_level", "attrs": {"min": v}}],
                      "ctx": {"auth_level": 3}})
        cases.append({"fam": "limit", "decision": "permit", "obligations": [{"type": "require_reauth", "attrs": {"max_age": 10}}],
                      "ctx": {"reauth_age_seconds": v}})
    # ordered pairs: first failure decides the challenge
    singles = [({"type": "require_mfa"}, {"mfa": True}), ({"type": "require_mfa"}, {}),
               ({"type": "require_level", "attrs": {"min": 2}}, {"auth_level": 3}),
               ({"type": "require_level", "attrs": {"min": 2}}, {"auth_level": 1}),
               ({"type": "require_consent", "attrs": {"key": "k"}}, {"consent": {"k": True}}),
               ({"type": "require_consent", "attrs": {"key": "k"}}, {"consent": True}),
               ({"type": "require_reauth", "attrs": {"max_age": 10}}, {"reauth_age_seconds": 5}),
               ({"type": "require_reauth", "attrs": {"max_age": 10}}, {}),
               ({"type": "http_challenge", "attrs": {"scheme": "Basic"}}, {}),
               ({"type": "http_challenge", "on": "deny"}, {}),
               ({"type": "unknown_type"}, {}), ({"type": "require_captcha", "on": "deny"}, {}),
               ({"type": "require_terms_accept"}, {"tos_accepted": 1}), ({"type": "require_age_verified"}, {"age_verified": ""})]
    for (o1, c1), (o2, c2) in itertools.product(singles, repeat=2):
        ctx = {**c1, **c2}
        cases.append({"fam": "pair", "decision": "permit", "obligations": [o1, o2], "ctx": ctx})
    # the same parametrised type listed twice (or three times) with different attrs: EVERY obligation is judged
    same_type = [
        ([{"type": "require_level", "attrs": {"min": 1}}, {"type": "require_level", "attrs": {"min": 3}}], {"auth_level": 2}),
        ([{"type": "require_level", "attrs": {"min": 3}}, {"type": "require_level", "attrs": {"min": 1}}], {"auth_level": 2}),
        ([{"type": "require_consent", "attrs": {"key": "tos"}}, {"type": "require_consent", "attrs": {"key": "marketing"}}],
         {"consent": {"tos": True}}),
        ([{"type": "require_consent"}, {"type": "require_consent", "attrs": {"key": "marketing"}}], {"consent": {"tos": True}}),
        ([{"type": "require_reauth", "attrs": {"max_age": 3600}}, {"type": "require_reauth", "attrs": {"max_age": 60}}],
         {"reauth_age_seconds": 900}),
        ([{"type": "require_reauth", "attrs": {"max_age": 60}}, {"type": "require_reauth", "attrs": {"max_age": 3600}}],
         {"reauth_age_seconds": 900}),
        ([{"type": "require_mfa"}, {"type": "require_mfa", "attrs": {"x": 1}}, {"type": "require_mfa"}], {}),
        ([{"type": "require_mfa", "on": "deny"}, {"type": "require_mfa"}], {}),
        ([{"type": "require_mfa"}, {"type": "require_mfa", "on": "deny"}], {"mfa": True}),
        ([{"type": "require_level", "attrs": {"min": 1}}, {"type": "require_mfa"}, {"type": "require_level", "attrs": {"min": 3}}],
         {"auth_level": 2, "mfa": True}),
        ([{"type": "http_challenge", "on": "deny", "attrs": {"scheme": "Basic"}}, {"type": "http_challenge", "attrs": {"scheme": "Bearer"}}], {}),
    ]
    for obs, ctx in same_type:
        cases.append({"fam": "same_type", "decision": "permit", "obligations": obs, "ctx": ctx})
        cases.append({"fam": "same_type", "decision": "permit", "obligations": obs, "ctx": {}})
        cases.append({"fam": "same_type", "decision": "permit", "obligations": obs,
                      "ctx": {"auth_level": 5, "mfa": True, "consent": {"tos": True, "marketing": True}, "reauth_age_seconds": 1}})
    for (o1, c1), (o2, c2), (o3, c3) in itertools.product(singles[:8], singles[4:10], singles[8:]):
        cases.append({"fam": "triple", "decision": "permit", "obligations": [o1, o2, o3], "ctx": {**c1, **c2, **c3}})
    # odd obligation items and contexts
    for obs in ([None], [{}], [0], [""], [[]], ["x"], [5], [[1]], [{"type": "require_mfa"}, "x"], ["x", {"type": "require_mfa"}]):
        for ctx in ({}, {"mfa": True}):
            cases.append({"fam": "odd", "decision": "permit", "obligations": obs, "ctx": ctx})
    # the schema only asks an obligation to be an object: `type`, `on`, `attrs` of every JSON shape (unknown types are
    # ignored), each followed by an obligation that is not met
    for odd in ({"vendor": "x", "name": "y"}, ["require_mfa"], [], {}, 5, 2.5, True, None, "", "REQUIRE_MFA", "require_mfa "):
        for field in ("type", "on", "attrs"):
            ob = {"type": "require_mfa"}
            ob[field] = odd
            for ctx in ({}, {"mfa": True}):
                cases.append({"fam": "oddfield", "decision": "permit", "obligations": [ob, {"type": "require_captcha"}], "ctx": ctx})
                cases.append({"fam": "oddfield", "decision": "permit", "obligations": [{"type": "require_captcha"}, ob], "ctx": dict(ctx, captcha_passed=True)})
    for decision in ("permit", "deny", "Permit", ""):
        cases.append({"fam": "empty", "decision": decision, "obligations": [], "ctx": {}})
    return cases


def engine_cases(chk):
    """through Guard: built-in checker, and custom sync/async checkers with negative verdicts."""
    cases = []
    obs_pool = [[{"type": "require_mfa"}], [{"type": "require_level", "attrs": {"min": 2}}],
                [{"type": "require_reauth", "attrs": {"max_age": 10}}], [{"type": "require_consent", "attrs": {"key": "k"}}],
                [{"type": "http_challenge", "attrs": {"scheme": "Bearer"}}], [{"type": "unknown"}],
                [{"type": "require_mfa", "on": "deny"}], [{"type": "require_mfa"}, {"type": "require_captcha"}], []]
    ctxs = [{}, {"mfa": True}, {"auth_level": "high"}, {"auth_level": 3}, {"reauth_age_seconds": 5}, {"reauth_age_seconds": [1]},
            {"consent": True}, {"consent": {"k": 1}}, {"mfa": True, "captcha_passed": True}, {"mfa": 1, "captcha_passed": 0}]
    for obs in obs_pool:
        for ctx in ctxs:
            for shape in ("single", "set"):
                for cached in (False, True):
                    cases.append({"fam": "engine", "obligations": obs, "ctx": ctx, "shape": shape, "cached": cached,
                                  "checker": "builtin"})
    # custom checkers written as docs/obligations.md says (subclass the built-in one, call super().check first, then an
    # own rule that does not depend on the obligation list), on permits WITH and WITHOUT obligations
    for obs in (None, [], [{"type": "require_mfa"}], [{"type": "unknown"}]):
        for ctx in ({}, {"mfa": True}, {"mfa": True, "region": "embargoed"}, {"region": "embargoed"}):
            for flavour in ("subclass-sync", "subclass-async"):
                for shape in ("single", "set"):
                    cases.append({"fam": "engine_subclass", "obligations": obs, "ctx": ctx, "shape": shape, "cached": False,
                                  "checker": flavour})
    for verdict in ([False, None], [False, "mfa"], [True, None], [0, "x"], [1, None], ["raise"]):
        # a checker "synchronous or asynchronous": every way a check() can hand back its verdict now or later
        for flavour in ("sync", "async", "def-returning-coroutine", "def-returning-future", "decorated-async",
                        "async-callable-object", "partial-async", "custom-awaitable"):
            for cached in (False, True):
                cases.append({"fam": "engine_custom", "obligations": [{"type": "anything"}], "ctx": {}, "shape": "single",
                              "cached": cached, "checker": flavour, "verdict": verdict})
    return cases


def run_engine(cases):
    from rbacx.core.cache import DefaultInMemoryCache
    from rbacx.core.engine import Guard
    from rbacx.core.model import Action, Context, Resource, Subject

    out = []

    async def go():
        for c in cases:
            rule = {"id": "r", "effect": "permit", "actions": ["read"], "resource": {"type": "doc"}}
            if c["obligations"] is not None:
                rule["obligations"] = c["obligations"]
            pol = {"algorithm": "deny-overrides", "rules": [rule]}
            if c["shape"] == "set":
                pol = {"algorithm": "first-applicable", "policies": [{"id": "p", **pol}]}
            kw = {}
            if c["checker"].startswith("subclass"):
                from rbacx.core.obligations import BasicObligationChecker

                class Geo(BasicObligationChecker):
                    def check(self, raw, context):
                        ok, ch = super().check(raw, context)
                        if not ok:
                            return ok, ch
                        attrs = getattr(context, "attrs", None) or {}
                        if attrs.get("region") == "embargoed":
                            return False, "geo"
                        return True, None

                class GeoAsync(BasicObligationChecker):
                    async def check(self, raw, context):  # type: ignore[override]
                        await asyncio.sleep(0)
                        ok, ch = BasicObligationChecker.check(self, raw, context)
                        if not ok:
                            return ok, ch
                        attrs = getattr(context, "attrs", None) or {}
                        if attrs.get("region") == "embargoed":
                            return False, "geo"
                        return True, None

                kw["obligation_checker"] = Geo() if c["checker"] == "subclass-sync" else GeoAsync()
            elif c["checker"] != "builtin":
                v = c["verdict"]

                class Sync:
                    def check(self, raw, context):
                        if v == ["raise"]:
                            raise RuntimeError("checker down")
                        return v[0], v[1]

                class Async:
                    async def check(self, raw, context):
                        await asyncio.sleep(0)
                        if v == ["raise"]:
                            raise RuntimeError("checker down")
                        return v[0], v[1]

                import functools

                async def _averdict(raw, context):
                    await asyncio.sleep(0)
                    if v == ["raise"]:
                        raise RuntimeError("checker down")
                    return v[0], v[1]

                class DefCoroutine:               # plain def delegating to an async implementation
                    def check(self, raw, context):
                        return _averdict(raw, context)

                class DefFuture:                  # plain def returning a Future (e.g. work scheduled elsewhere)
                    def check(self, raw, context):
                        return asyncio.ensure_future(_averdict(raw, context))

                def _logged(fn):                  # a decorator that is not async-aware
                    @functools.wraps(fn)
                    def wrapper(*a, **k):
                        return fn(*a, **k)
                    return wrapper

                class Decorated:
                    @_logged
                    async def check(self, raw, context):
                        return await _averdict(raw, context)

                class _Call:
                    async def __call__(self, raw, context):
                        return await _averdict(raw, context)

                class CallableObject:
                    check = _Call()

                class PartialAsync:
                    def __init__(self):
                        self.check = functools.partial(_averdict)

                class _Later:                     # awaitable only through __await__ (neither coroutine nor Future)
                    def __init__(self, raw, context):
                        self.a = (raw, context)

                    def __await__(self):
                        return _averdict(*self.a).__await__()

                class CustomAwaitable:
                    def check(self, raw, context):
                        return _Later(raw, context)

                kw["obligation_checker"] = {"custom-awaitable": CustomAwaitable, "sync": Sync, "async": Async, "def-returning-coroutine": DefCoroutine,
                                            "def-returning-future": DefFuture, "decorated-async": Decorated,
                                            "async-callable-object": CallableObject, "partial-async": PartialAsync}[c["checker"]]()
            if c["cached"]:
                kw["cache"] = DefaultInMemoryCache(16)
            g = Guard(pol, **kw)
            ds = []
            for _ in range(2 if c["cached"] else 1):
                try:
                    d = await g.evaluate_async(Subject(id="u"), Action("read"), Resource(type="doc", id="1"),
                                               Context(attrs=dict(c["ctx"])))
                    ds.append({"allowed": d.allowed, "effect": d.effect, "reason": d.reason, "challenge": d.challenge,
                               "rule_id": d.rule_id, "obligations": d.obligations})
                except Exception as e:  # noqa: BLE001
                    ds.append(["Raise", type(e).__name__])
            out.append(ds)

    asyncio.run(go())
    return out


def check_cases(chk, cases, replay=False):
    direct = [c for c in cases if not c["fam"].startswith("engine")]
    lines = [lib.model_call("oblig.check", c["decision"], c["obligations"], c["ctx"]) for c in direct]
    outs = [lib.dec(x) for x in lib.run_model(RUNNER, lines)]
    for c, m in zip(direct, outs):
        i = impl_check(c["decision"], c["obligations"], c["ctx"])
        chk.count("fam:" + c["fam"])
        if m == ["Ood"]:
            chk.count("ood")
            chk.mark(("ood", repr(c)), False)
            continue
        mm = ["Raise"] if m[0] == "Raise" else m
        ii = ["Raise"] if i[0] == "Raise" else i
        nontriv = m[0] == "Ok" and len(c["obligations"]) > 0 and c["decision"] == "permit"
        chk.mark(repr(c), nontriv)
        chk.count("verdict:" + ("raise" if mm == ["Raise"] else "%s/%s" % (m[1], m[2])))
        chk.sample({**c, "impl": i, "model": m}, every=1201)
        if ii != mm:
            if ii == ["Raise"]:
                chk.violation("the built-in checker raised (Guard would log it and keep the permit): not fail-closed",
                              c, impl=i, model=m)
            else:
                chk.violation("built-in checker verdict/challenge differs from the documented table "
                              "(model Oblig.check = table `met`, props/C07.v)", c, impl=i, model=m)
    eng = [c for c in cases if c["fam"].startswith("engine")]
    if eng:
        res = run_engine(eng)
        blines = [lib.model_call("oblig.check", "permit", c["obligations"] or [], c["ctx"]) for c in eng]
        bouts = [lib.dec(x) for x in lib.run_model(RUNNER, blines)]
        for c, ds, m in zip(eng, res, bouts):
            chk.count("fam:" + c["fam"])
            chk.mark(repr(c), True)
            if c["checker"] == "builtin" or c["checker"].startswith("subclass"):
                if m == ["Ood"]:
                    continue
                ok, ch = (m[1], m[2]) if m[0] == "Ok" else (True, None)
                if c["checker"].startswith("subclass") and ok and c["ctx"].get("region") == "embargoed":
                    ok, ch = False, "geo"      # the subclass's own rule, after the built-in table
            else:
                v = c["verdict"]
                ok, ch = (True, None) if v == ["raise"] else (bool(v[0]), v[1])
            want = {"allowed": ok, "effect": "permit" if ok else "deny", "reason": "matched" if ok else "obligation_failed",
                    "challenge": ch, "rule_id": "r", "obligations": c["obligations"] or []}
            for k, d in enumerate(ds):
                if d != want:
                    chk.violation("engine does not gate the permit by the checker's verdict (c07_engine_gate)%s"
                                  % (" on a cache hit" if k == 1 else ""), c, impl=d, model=want)
                    break


def corpus_cases():
    import json
    out = []
    for f in sorted((lib.VERIF / "corpus" / "C07").glob("*.json")):
        for c in json.loads(f.read_text())["cases"]:
            out.append(lib.unjson(c))
    return out


def run(chk):
    chk.rule = ("enumerated: each of the 8 built-in types (+ unknown / non-string types) x on in {absent, permit, deny, "
                "other, null, ''} x valid/invalid/non-object attrs x the relevant context key in {absent, null, booleans, "
                "ints, floats, numeric and non-numeric strings, lists, objects, NaN, inf} x decision; all ordered pairs and "
                "a family of triples of obligations (first failure decides the challenge); odd obligation items; through "
                "Guard (single policy and set, cold and cached) with the built-in checker and with sync/async custom "
                "checkers giving negative, positive and raising verdicts. non-trivial = a permit with obligations judged "
                "by the model; distinct = distinct case")
    chk.assumptions = ["CPython's int/str conversion limit is the default 4300 digits (sys.get_int_max_str_digits()); the model treats longer digit strings as a conversion failure, exercised at 4300 / 4301 digits",
                       "non-ASCII strings passed to int() are outside the model (ood)"]
    cases = corpus_cases() + gen_direct(chk) + engine_cases(chk)
    check_cases(chk, cases)
    chk.exhaustive = True
