"""C11 — decisions explain themselves truthfully and the audit trail agrees with them.

Judged directly on the implementation's output with the model's per-rule facts (engine.facts):
a non-null rule id must name an applicable rule of the policy whose effect matches the decision and
reason (matched / explicit_deny / obligation_failed), obligations returned with a permit must be that
rule's, policy_id must be the top-level child containing it; with no rule reported the reason must be
no_match or a mismatch kind some rule exhibits; exactly one audit payload and one decision metric per
evaluation (cache hits included) agreeing with the Decision; raising sinks change nothing.  The
Decision is also compared with the model (broken correspondence when only that differs)."""
import copy

import enggen
import lib


def gen_cases(chk):
    quick = chk.tier == "quick"
    cases = enggen.pattern_cases(chk, 3 if quick else 4)
    cases += enggen.set_cases(chk)
    cases += enggen.role_order_cases()
    cases += enggen.time_mode_cases()
    cases += enggen.random_cases(chk, 1200 if quick else 15000)
    for i, c in enumerate(cases):
        if i % 2 == 0:
            c["cache"] = True
    return cases


def rule_ids_under(pol):
    if "policies" in pol:
        out = []
        for ch in pol.get("policies") or []:
            out += rule_ids_under(ch)
        return out
    return [r.get("id") for r in (pol.get("rules") or [])]


def judge(chk, c, i, m, facts):
    for tag, d in enggen.warm_decisions(i):
        if isinstance(d, list) or not isinstance(facts, list) or (facts and facts[0] == "Ood"):
            continue
        rid = d["rule_id"]
        if rid is not None and not (rid == "" and "policies" not in c["policy"]):
            cands = [f for f in facts if f[0] == rid and f[2] == "applies"]
            ok = False
            for _rid, eff, _o, verdict, obls in cands:
                if eff == "deny" and d["effect"] == "deny" and d["reason"] == "explicit_deny":
                    ok = True
                if eff == "permit" and obls == d["obligations"] and (
                        (d["effect"] == "permit" and d["reason"] == "matched") or
                        (d["effect"] == "deny" and d["reason"] == "obligation_failed")):
                    ok = True
            if not ok:
                chk.violation("rule_id does not name an applicable rule with the reported effect/reason/obligations "
                              "(c11_rule_id_truthful)" + tag, c, impl=d, model={"facts": facts})
                return False
            if "policies" in c["policy"] and d["policy_id"] is not None:
                tops = [ch for ch in c["policy"]["policies"] if ch.get("id") == d["policy_id"]]
                if not any(rid in rule_ids_under(ch) for ch in tops):
                    chk.violation("policy_id does not name the top-level child containing the reported rule" + tag,
                                  c, impl=d, model=m)
                    return False
        if rid is None:
            exhibited = {"no_match"} | {f[2][1] for f in facts if isinstance(f[2], list) and f[2][0] == "na"}
            if d["reason"] not in exhibited or d["effect"] != "deny":
                chk.violation("no rule reported but the reason is neither no_match nor exhibited by a rule "
                              "(c11_no_rule)" + tag, c, impl=d, model={"exhibited": sorted(exhibited)})
                return False
    # audit trail
    n = len(i["decisions"])
    good = [d for d in i["decisions"] if isinstance(d, dict)]
    if len(good) == n:
        incs = [x for x in i["incs"] if x[0] == "rbacx_decisions_total"]
        if len(i["payloads"]) != n or len(incs) != n:
            chk.violation("not exactly one audit record and one decision metric per evaluation (cache hits included)",
                          c, impl={"payloads": len(i["payloads"]), "incs": len(incs), "evaluations": n})
            return False
        for d, p, inc in zip(good, i["payloads"], incs):
            if (p.get("decision"), p.get("allowed"), p.get("rule_id"), p.get("reason")) != \
                    (d["effect"], d["allowed"], d["rule_id"], d["reason"]) or inc[1] != {"decision": d["effect"]}:
                chk.violation("audit record / metric disagrees with the returned decision", c, impl={"decision": d, "payload": p, "inc": inc})
                return False
    return True


def check_cases(chk, cases, replay=False):
    impls = enggen.run_impl(cases)
    # raising sinks: both, only the metrics sink, only the log sink (the healthy one must still get its record)
    # ... each as plain functions and as `async def`s failing while awaited
    failing = [dict(c, sinks_fail=("both", "metrics", "log")[k % 3], sinks_async=bool((k // 3) % 2), warm=False)
               for k, c in enumerate(cases)]
    impls_fail = enggen.run_impl(failing)
    models = enggen.run_model(cases, impls, "engine.eval")
    facts = enggen.run_model(cases, impls, "engine.facts")
    by_entry = {"engine.eval": models, "engine.facts": facts}
    for k in enggen.retry_unknown_with_sync_table(cases, impls, by_entry):
        chk.count("model_table_from_sync_checker")
    for c, cf, i, ifail, m, f in zip(cases, failing, impls, impls_fail, models, facts):
        chk.count("fam:" + c.get("fam", "?"))
        d0 = i["decisions"][0]
        nontriv = isinstance(d0, dict) and d0["rule_id"] is not None
        chk.mark(repr((c["policy"], c["req"], c.get("strict"), c.get("resolver"), c.get("checker"), c.get("cache"))), nontriv)
        chk.count("impl:" + ("raise" if isinstance(d0, list) else "%s/%s" % (d0["effect"], d0["reason"])))
        chk.sample({"policy": c["policy"], "req": c["req"], "impl": d0, "payload": (i["payloads"] or [None])[0]}, every=997)
        if m == ["Ood"] or f == ["Ood"]:
            chk.count("ood")
            continue
        if m == ["UnknownRelQuery"] or f == ["UnknownRelQuery"]:
            chk.corr_break("the model asks a relationship query the implementation never made", c, impl=i["tables"][0], model=m,
                           theorems=["c11_rule_id_truthful"])
            continue
        if ifail["decisions"] != i["decisions"]:
            chk.violation("a raising log/metrics sink changed the decision (c11_sinks_inert)", cf,
                          impl={"with_failing_sinks": ifail["decisions"], "normal": i["decisions"]})
            continue
        nf = len(ifail["decisions"])
        incs_f = [x for x in ifail["incs"] if x[0] == "rbacx_decisions_total"]
        # every sink is called exactly once per evaluation whether or not it (or the other one) raises
        if len(ifail["payloads"]) != nf or len(incs_f) != nf:
            chk.violation("with a raising %s sink not exactly one audit record and one decision metric were emitted per "
                          "evaluation" % (cf["sinks_fail"] + (" (async)" if cf.get("sinks_async") else "")), cf,
                          impl={"payloads": len(ifail["payloads"]), "incs": len(incs_f), "evaluations": nf})
            continue
        badp = [(d, p) for d, p in zip(ifail["decisions"], ifail["payloads"]) if isinstance(d, dict) and
                (p.get("decision"), p.get("allowed"), p.get("rule_id"), p.get("reason")) != (d["effect"], d["allowed"], d["rule_id"], d["reason"])]
        if badp:
            chk.violation("with a raising %s sink the audit record disagrees with the returned decision" % cf["sinks_fail"], cf,
                          impl={"decision": badp[0][0], "payload": badp[0][1]})
            continue
        if not judge(chk, c, i, m, f):
            continue
        for tag, d in enggen.warm_decisions(i):
            dm = m if isinstance(m, dict) else ["Raise"]
            dd = d if isinstance(d, dict) else ["Raise"]
            if dd != dm:
                chk.corr_break("Decision differs from the model Engine.guard_eval%s" % tag,
                               c, impl=d, model=m, theorems=["c11_rule_id_truthful", "c11_no_rule"])
                break


def corpus_cases():
    import json
    out = []
    for f in sorted((lib.VERIF / "corpus" / "C11").glob("*.json")):
        for c in json.loads(f.read_text())["cases"]:
            out.append(lib.unjson(c))
    return out


def run(chk):
    chk.rule = ("the C01 case families (rule-outcome patterns x algorithms, sets over 12 child policies, seeded random "
                "rich policies x hostile requests x configurations), every second case with a cache (cold + hit), each run "
                "with recording sinks and again with raising sinks. non-trivial = a rule id is reported; distinct = "
                "distinct (policy, request, configuration)")
    chk.assumptions = ["single top-level policies name their algorithm (the compiler's default differs: open finding F12, judged by C17)",
                       "the relationship checker and role resolver answer as functions of their arguments within one case"]
    check_cases(chk, corpus_cases() + gen_cases(chk))
