"""C08 — the decision cache is transparent over every history.

A case is a history of operations {evaluate(w, request) | set_policy(w, policy) | clear_cache(w) |
advance the clock} on one or two Guards that share ONE cache object (DefaultInMemoryCache of some
capacity with a per-guard cache_ttl, a dict-backed custom cache, a pickling custom cache), with
time.monotonic scripted.  Per evaluation three things are obtained:

  cached    what the guard WITH the cache returns (and whether its cache lookup hit),
  uncached  what a fresh Guard WITHOUT a cache holding the same current policy (same type mode)
            returns for the same request   -> cached != uncached in any Decision field is the
            property failing on the implementation, outright: chk.violation with the history
            (shrunk) as replay — except inside the narrow class of open finding F16,
  model     what the extracted Coq model CacheGuard.run_cached / run_ref answers (hit flag and
            Decision; props/C08.v proves run_cached = run_ref on key-safe requests) -> a difference
            only there is a broken correspondence.  Histories whose guards have a ROLE RESOLVER
            (StaticRoleResolver behind a switch, hierarchy edited / backend down and up between
            evaluations) are answered by CacheGuardR.run_cachedR / run_refR (runner entries cg.runR /
            cg.batchR of CacheGuardRRun.v) and judged the same way.

Evaluations run through Guard.evaluate_async inside one event loop per shard process."""
import asyncio
import copy
import itertools
import json
import multiprocessing as mp
import pickle
import threading
import time
import types

import lib
from c15 import patched_clock

RUNNER = "cacheguard"
THEOREMS = ["c08_invariant", "c08_transparent", "c08_transparent_key_safe", "c08_lru_any_capacity_ttl_clock",
            "c08_dict_cache", "c08_hit_rechecks_obligations", "c08_refuted_key_order"]
THEOREMS_R = ["c08_transparent_with_resolver", "c08_with_resolver_lru", "c08_invariant_with_resolver",
              "c08_cached_answer_with_resolver", "c08_key_holds_expanded_roles", "c08_with_resolver_same_oracle"]
BIG = 64          # "large" capacity
TTL = 2           # the positive cache_ttl used (seconds)
PAST, BELOW = 3, 1


# --------------------------------------------------------------------------
# pools: policies
# --------------------------------------------------------------------------
def _rule(rid, effect, actions=("read",), resource=None, condition=None, obligations=None):
    r = {"id": rid, "effect": effect, "actions": list(actions), "resource": {"type": "doc"} if resource is None else resource}
    if condition is not None:
        r["condition"] = condition
    if obligations is not None:
        r["obligations"] = obligations
    return r


N = {"attr": "resource.attrs.n"}
POL = {}
# each of n = "1", 1, 1.0, True is decided by another rule in lax mode ("1"->a0, 1->a1, 1.0->a2, True->a3)
POL["num"] = {"algorithm": "first-applicable", "rules": [
    _rule("a0", "deny", condition={"startsWith": [N, "1"]}),
    _rule("a1", "permit", resource={"type": "doc", "attrs": {"n": 1}}),
    _rule("a2", "deny", condition={">=": [N, 1]}),
    _rule("a3", "permit", condition={"==": [N, True]}),
    _rule("a4", "deny", actions=["*"], resource={}),
]}
POL["num2"] = {"algorithm": "permit-overrides", "rules": [
    _rule("b1", "permit", resource={"type": "doc", "attrs": {"n": [1.0, "x"]}}),
    _rule("b2", "deny", condition={"in": [N, [True, "1"]]}),
    _rule("b3", "permit", actions=["write"], condition={"!=": [N, 1]}),
]}
ROLES = {"attr": "subject.roles"}
POL["roles"] = {"algorithm": "permit-overrides", "policies": [
    {"id": "p1", "algorithm": "first-applicable", "rules": [
        _rule("c1", "permit", condition={"==": [ROLES, ["a", "b"]]}),
        _rule("c2", "deny", condition={"hasAll": [ROLES, ["b", "a"]]})]},
    {"id": "p2", "algorithm": "deny-overrides", "rules": [
        _rule("c3", "permit", actions=["write"], condition={"hasAny": [ROLES, ["a"]]}),
        _rule("c4", "deny", actions=["write"], condition={"==": [{"attr": "subject.attrs.role"}, "b"]})]},
]}
POL["roles2"] = {"algorithm": "deny-overrides", "rules": [
    _rule("d1", "permit", actions=["read", "write"], condition={"contains": [ROLES, "a"]}),
    _rule("d2", "deny", condition={"==": [{"attr": "subject.id"}, "u2"]}),
    _rule("d3", "deny", condition={"==": [{"attr": "subject.attrs.id"}, "u1"]}),
]}
# object-valued resource attributes (F16 lives here in lax mode)
POL["meta"] = {"algorithm": "deny-overrides", "rules": [
    _rule("m1", "permit", resource={"type": "doc", "attrs": {"meta": {"a": 1, "b": 2}}})]}
POL["meta2"] = {"algorithm": "first-applicable", "rules": [
    _rule("m2", "permit", resource={"type": "doc", "attrs": {"meta": [{"b": 2, "a": 1}, "none"]}}),
    _rule("m3", "deny", condition={"==": [{"attr": "resource.attrs.meta"}, {"b": 2, "a": 1}]}),
    _rule("m4", "permit", actions=["*"], resource={})]}
# the same target by condition only: key order cannot matter (== on dicts)
POL["metaeq"] = {"algorithm": "first-applicable", "rules": [
    _rule("e1", "permit", condition={"==": [{"attr": "resource.attrs.meta"}, {"a": 1, "b": 2}]}),
    _rule("e2", "deny", condition={"in": [{"attr": "resource.attrs.meta"}, [{"a": 1}, {"b": 2}]]})]}
# obligations that fail / succeed depending on the context
POL["obl"] = {"algorithm": "deny-overrides", "rules": [
    _rule("o1", "permit", obligations=[{"type": "require_mfa"}]),
    _rule("o2", "permit", actions=["write"], obligations=[{"type": "require_level", "attrs": {"min": 2}},
                                                           {"type": "require_consent", "attrs": {"key": "tos"}}]),
    _rule("o3", "deny", actions=["delete"], obligations=[{"type": "require_mfa", "on": "deny"}])]}
POL["obl2"] = {"algorithm": "permit-overrides", "policies": [
    {"id": "q1", "algorithm": "deny-overrides", "rules": [
        _rule("o4", "permit", obligations=[{"type": "http_challenge", "attrs": {"scheme": "Bearer"}}])]},
    {"id": "q2", "algorithm": "first-applicable", "rules": [
        _rule("o5", "permit", actions=["write"], obligations=[{"type": "require_reauth", "attrs": {"max_age": 10}}]),
        _rule("o6", "permit", actions=["read"], obligations=[])]}]}
POL["ids"] = {"algorithm": "first-applicable", "rules": [
    _rule("i1", "permit", resource={"type": "doc", "id": "7"}, condition={"==": [{"attr": "resource.id"}, 7]}),
    _rule("i2", "deny", resource={"type": "doc", "id": 7}),
    _rule("i3", "permit", resource={"type": ["doc", "img"]}, condition={"==": [{"attr": "resource.attrs.id"}, "7"]}),
    _rule("i4", "deny", actions=["*"], resource={})]}
POL["ids2"] = {"algorithm": "deny-overrides", "rules": [
    _rule("j1", "permit", resource={"type": "*"}, condition={"==": [{"attr": "subject.id"}, {"attr": "resource.attrs.owner"}]}),
    _rule("j2", "deny", resource={"id": 7.0})]}
POL["rel"] = {"algorithm": "deny-overrides", "rules": [
    _rule("l1", "permit", condition={"rel": "owner"}),
    _rule("l2", "permit", actions=["write"], condition={"rel": {"relation": "editor", "ctx": {"k": 1}}}),
    _rule("l3", "deny", condition={"between": [{"attr": "context.t"}, {"attr": "context.rng"}]})]}
FACTS = [["user:u1", "owner", "doc:7"], ["user:u2", "editor", "doc:7"], ["user:u1", "editor", "doc:8"]]
POLICY_NAMES = sorted(POL)


# --------------------------------------------------------------------------
# pools: requests (near-duplicates)
# --------------------------------------------------------------------------
def mkreq(sid="u1", roles=("a", "b"), sattrs=None, action="read", rtype="doc", rid="7", rattrs=None, ctx=None):
    return {"subject": {"id": sid, "roles": list(roles), "attrs": {} if sattrs is None else sattrs},
            "action": action,
            "resource": {"type": rtype, "id": rid, "attrs": {} if rattrs is None else rattrs},
            "context": {} if ctx is None else ctx}


QUADS = {
    # JSON type of a value
    "num": (("num", "num2"), [mkreq(rattrs={"n": 1}), mkreq(rattrs={"n": 1.0}), mkreq(rattrs={"n": True}), mkreq(rattrs={"n": "1"})]),
    # role order, roles vs attributes
    "roles": (("roles", "roles2"), [mkreq(roles=["a", "b"]), mkreq(roles=["b", "a"]), mkreq(roles=["a"], sattrs={"role": "b"}),
                                    mkreq(roles=["a", "b"], action="write")]),
    # key order of an object-valued attribute (F16), and a different object
    "meta": (("meta", "meta2"), [mkreq(rattrs={"meta": {"a": 1, "b": 2}}), mkreq(rattrs={"meta": {"b": 2, "a": 1}}),
                                 mkreq(rattrs={"meta": {"a": 1}}), mkreq(rattrs={"meta": {"a": 1, "b": 2.0}})]),
    "metaeq": (("metaeq", "num"), [mkreq(rattrs={"meta": {"a": 1, "b": 2}}), mkreq(rattrs={"meta": {"b": 2, "a": 1}}),
                                   mkreq(rattrs={"meta": {"a": 1}}), mkreq(rattrs={"meta": {"b": 2}, "n": 1})]),
    # context differences with obligations
    "ctx": (("obl", "obl2"), [mkreq(ctx={"mfa": True}), mkreq(ctx={"mfa": False}), mkreq(ctx={}), mkreq(ctx={"mfa": 1, "x": 0})]),
    "ctxw": (("obl", "obl2"), [mkreq(action="write", ctx={"auth_level": 2, "consent": {"tos": True}}),
                               mkreq(action="write", ctx={"auth_level": "2", "consent": {"tos": True}}),
                               mkreq(action="write", ctx={"consent": {"tos": True}, "auth_level": 2, "reauth_age_seconds": 5}),
                               mkreq(action="write", ctx={"auth_level": 1, "consent": {"tos": 1}})]),
    # ids vs attributes, id types
    "ids": (("ids", "ids2"), [mkreq(rid="7"), mkreq(rid=7), mkreq(rid=7.0, rattrs={"id": "7"}), mkreq(rid=None, rattrs={"id": "7", "owner": "u1"})]),
}
QUAD_NAMES = sorted(QUADS)


def request_pool():
    out = []
    for _, (_, rs) in sorted(QUADS.items()):
        out.extend(rs)
    out += [
        mkreq(rattrs={"n": "1.0"}), mkreq(rattrs={"n": None}), mkreq(rattrs={"n": 0}), mkreq(rattrs={"n": [1]}),
        mkreq(rattrs={"n": {"v": 1}}), mkreq(rattrs={"n": 2 ** 53 + 1}), mkreq(rattrs={"n": -0.0}), mkreq(rattrs={"n": 1e22}),
        mkreq(roles=[]), mkreq(roles=["b"]), mkreq(sid="u2"), mkreq(sid="u2", action="write"), mkreq(sid=None), mkreq(sid=1),
        mkreq(sattrs={"id": "u1"}), mkreq(sattrs={"role": "b"}, action="write"),
        mkreq(rtype="img"), mkreq(rtype="Doc"), mkreq(rtype=None), mkreq(rid="8"), mkreq(rid="07"),
        mkreq(action="write"), mkreq(action="delete"), mkreq(action="delete", ctx={"mfa": True}),
        mkreq(ctx={"mfa": "yes"}), mkreq(ctx={"mfa": 0}), mkreq(ctx={"_rebac": {"k": 1}}), mkreq(ctx={"_rebac": {"k": 1, "j": 2}}),
        mkreq(ctx={"_rebac": {"j": 2, "k": 1}}), mkreq(action="write", sid="u2", ctx={"_rebac": {"k": 2}}),
        mkreq(ctx={"t": 5, "rng": [1, 100]}), mkreq(ctx={"rng": [1, 100], "t": 5}), mkreq(ctx={"t": 5, "rng": [{"attr": "context.t"}, 100]}),
        mkreq(ctx={"t": 5, "rng": [{"attr": {"a": 1, "b": 2}}, 100]}), mkreq(ctx={"t": 5, "rng": [{"attr": {"b": 2, "a": 1}}, 100]}),
        mkreq(rattrs={"meta": [{"a": 1, "b": 2}]}), mkreq(rattrs={"meta": [{"b": 2, "a": 1}]}),
        mkreq(rattrs={"meta": {"a": 1, "b": 2}, "n": 1}), mkreq(rattrs={"n": 1, "meta": {"a": 1, "b": 2}}),
        mkreq(rattrs={"meta": {"a": {"x": 1, "y": 2}, "b": 2}}), mkreq(rattrs={"meta": {"b": 2, "a": {"y": 2, "x": 1}}}),
        mkreq(rattrs={"owner": "u1"}), mkreq(rattrs={"owner": "u2"}, sid="u2"),
        mkreq(action="write", ctx={"auth_level": 3, "consent": {"tos": True}, "reauth_age_seconds": 50}),
        mkreq(action="write", ctx={"auth_level": 3, "consent": {"tos": True}, "reauth_age_seconds": 5}),
        mkreq(action="write", ctx={"auth_level": 2.9, "consent": {"tos": False}}),
    ]
    return out


REQS = request_pool()


# --------------------------------------------------------------------------
# configurations and expansion of compact descriptors into self-contained cases
# --------------------------------------------------------------------------
def cfg(cache=("lru", 2), ttl=TTL, strict1=False, two=None, strict2=False, ttl2=None):
    """two: None = one guard; "other" = second guard with the other policy; "same" = second guard with the
    same policy (then it differs in type mode unless strict2 == strict1)"""
    return {"cache": list(cache), "ttl": ttl, "strict1": strict1, "two": two, "strict2": strict2,
            "ttl2": ttl if ttl2 is None else ttl2}


def letters(c):
    """alphabet of the enumerated histories for a configuration"""
    if not c["two"]:
        return [("e", 0, 0), ("e", 0, 1), ("e", 0, 2), ("e", 0, 3), ("p", 0, 0), ("p", 0, 1), ("c", 0), ("t", PAST), ("t", BELOW)]
    return [("e", 0, 0), ("e", 0, 1), ("e", 0, 2), ("e", 1, 0), ("e", 1, 1), ("e", 1, 2),
            ("p", 0, 0), ("p", 0, 1), ("p", 1, 0), ("c", 1), ("t", PAST), ("t", BELOW)]


def expand(d):
    """compact descriptor {"cfg", "quad", "word"} -> self-contained case (policies and requests inline)."""
    if "h" in d:
        return d
    c = d["cfg"]
    pa, pb = QUADS[d["quad"]][0]
    reqs = QUADS[d["quad"]][1]
    pols = [POL[pa], POL[pb]]
    al = letters(c)
    h = []
    for i in d["word"]:
        x = al[i]
        if x[0] == "e":
            h.append(["e", x[1], reqs[x[2]]])
        elif x[0] == "p":
            h.append(["p", x[1], pols[x[2]]])
        elif x[0] == "c":
            h.append(["c", x[1]])
        else:
            h.append(["t", x[1]])
    g2pol = pols[1] if c["two"] == "other" else pols[0]
    return {"fam": d.get("fam", "?"), "cache": c["cache"],
            "g1": {"strict": c["strict1"], "policy": pols[0], "ttl": c["ttl"]},
            "g2": {"strict": c["strict2"], "policy": g2pol, "ttl": c["ttl2"]},
            "facts": FACTS, "h": h, "_key": (d.get("fam"), json.dumps(c, sort_keys=True), d["quad"], tuple(d["word"]))}


def strip(case):
    return {k: v for k, v in case.items() if not k.startswith("_")}


# --------------------------------------------------------------------------
# implementation side
# --------------------------------------------------------------------------
class Clock:
    def __init__(self):
        self.now = 0.0

    def __call__(self):
        return self.now


def make_cache(spec):
    from rbacx.core.cache import DefaultInMemoryCache

    class SpyLRU(DefaultInMemoryCache):
        """DefaultInMemoryCache that remembers whether its lookups hit"""

        def __init__(self, n):
            super().__init__(n)
            self.gets = []

        def get(self, key):
            v = super().get(key)
            self.gets.append(v is not None)
            return v

    class DictCache:
        """custom cache backed by a plain dict: stores references, ignores ttl"""

        def __init__(self):
            self.d, self.gets = {}, []

        def get(self, key):
            v = self.d.get(key)
            self.gets.append(v is not None)
            return v

        def set(self, key, value, ttl=None):
            self.d[key] = value

        def delete(self, key):
            self.d.pop(key, None)

        def clear(self):
            self.d.clear()

    class PickleCache(DictCache):
        """custom cache that stores and returns copies (what an out-of-process cache does)"""

        def get(self, key):
            b = self.d.get(key)
            self.gets.append(b is not None)
            return None if b is None else pickle.loads(b)

        def set(self, key, value, ttl=None):
            self.d[key] = pickle.dumps(value)

    # ---- caches that protect their entries: what get() hands out cannot be written to / is not the stored object
    class ReadOnlyViewCache(DictCache):
        """stores the mapping it is given, get() returns a READ-ONLY VIEW of it (types.MappingProxyType)"""

        def get(self, key):
            v = self.d.get(key)
            self.gets.append(v is not None)
            return None if v is None else types.MappingProxyType(v)

    class ReadOnlyViewLRU(SpyLRU):
        """DefaultInMemoryCache (capacity, TTL) whose get() returns a read-only view of the entry"""

        def get(self, key):
            v = super().get(key)
            return None if v is None else types.MappingProxyType(v)

    class FrozenSnapshotCache(DictCache):
        """stores the mapping it is given, get() returns an IMMUTABLE snapshot taken at that moment (a frozen copy: a
        read-only view of a private copy; nested lists are copied too)"""

        def get(self, key):
            v = self.d.get(key)
            self.gets.append(v is not None)
            return None if v is None else types.MappingProxyType(copy.deepcopy(v))

    class DeepCopyCache(DictCache):
        """stores a deep copy and returns a deep copy (mutable, private to the reader)"""

        def get(self, key):
            v = self.d.get(key)
            self.gets.append(v is not None)
            return None if v is None else copy.deepcopy(v)

        def set(self, key, value, ttl=None):
            self.d[key] = copy.deepcopy(value)

    class FrozenAtSetCache(DictCache):
        """set() stores a FROZEN deep copy (read-only view of a private copy, taken when the entry is written, i.e. before
        the engine goes on with the obligation step); get() returns that frozen entry, the same object to every reader"""

        def set(self, key, value, ttl=None):
            self.d[key] = types.MappingProxyType(copy.deepcopy(value))

    class CopyThenViewCache(DeepCopyCache):
        """deep copy at set(); get() returns a read-only view of the stored copy"""

        def get(self, key):
            v = self.d.get(key)
            self.gets.append(v is not None)
            return None if v is None else types.MappingProxyType(v)

    # ---- cache OBJECTS that are falsy as Python objects: a cache is a cache whatever bool() says about it
    class FalsyDictCache(dict):
        """a dict subclass implementing the cache interface: bool() is False while it is empty (at construction)"""

        def __init__(self):
            super().__init__()
            self.gets = []

        def get(self, key, default=None):
            v = dict.get(self, key)
            self.gets.append(v is not None)
            return v

        def set(self, key, value, ttl=None):
            self[key] = value

        def delete(self, key):
            self.pop(key, None)

    class FalsyLenCache(DictCache):
        """__len__ = number of entries: 0, hence falsy, at first and after every clear()"""

        def __len__(self):
            return len(self.d)

    class FalsyBoolLRU(SpyLRU):
        """DefaultInMemoryCache (capacity, TTL) whose bool() is always False"""

        def __bool__(self):
            return False

    if spec[0] == "lru":
        return SpyLRU(spec[1])
    if spec[0] == "dict":
        return DictCache()
    if spec[0] == "pickle":
        return PickleCache()
    if spec[0] == "roview":
        return ReadOnlyViewCache()
    if spec[0] == "roview-lru":
        return ReadOnlyViewLRU(spec[1])
    if spec[0] == "frozen-get":
        return FrozenSnapshotCache()
    if spec[0] == "deepcopy":
        return DeepCopyCache()
    if spec[0] == "frozen-set":
        return FrozenAtSetCache()
    if spec[0] == "copy-roview":
        return CopyThenViewCache()
    if spec[0] == "falsy-dict":
        return FalsyDictCache()
    if spec[0] == "falsy-len":
        return FalsyLenCache()
    if spec[0] == "falsy-bool-lru":
        return FalsyBoolLRU(spec[1])
    raise ValueError(spec)


# what each cache kind is in the model: (the model's cache, copying?).  A read-only view / a snapshot taken at get() shows
# the stored mapping as it is at the time of the lookup, i.e. a reference-storing cache to every reader that does not
# write; a falsy cache object is the cache it implements (the contract-meeting cache M knows nothing about bool()).
def model_cache(spec):
    k = spec[0]
    if k in ("lru", "roview-lru", "falsy-bool-lru"):
        return ["lru", spec[1]], False
    # an entry copied at set() never sees what the storing evaluation does afterwards: the model's copying cache,
    # whether the reader then gets a private copy, a read-only view of the stored copy or the frozen copy itself
    return ["dict"], k in ("pickle", "deepcopy", "frozen-set", "copy-roview")


NEW_CACHE_KINDS = [["roview"], ["roview-lru", 2], ["frozen-get"], ["deepcopy"], ["frozen-set"], ["copy-roview"],
                   ["falsy-dict"], ["falsy-len"], ["falsy-bool-lru", 2]]


def consume_decision(d, n):
    """what a caller may do with the Decision it got: edit its obligations list in place (rotating: clear / pop /
    reverse / append a note)"""
    obs = getattr(d, "obligations", None)
    if not isinstance(obs, list):
        return
    try:
        m = n % 4          # list-level edits only: the obligation mappings themselves are the policy's own objects
        if m == 0:
            obs.clear()
        elif m == 1 and obs:
            obs.pop(0)
        elif m == 2:
            obs.reverse()
        elif m == 3:
            obs.append({"type": "zz_caller_note"})
    except Exception:  # noqa: BLE001
        pass



def dec_dict(d):
    return {"allowed": d.allowed, "effect": d.effect, "obligations": d.obligations, "challenge": d.challenge,
            "rule_id": d.rule_id, "policy_id": d.policy_id, "reason": d.reason}


class Opaque:
    """an application object in a request (lit("object", name)): equal by name, str() = repr() = a stable text"""

    def __init__(self, name):
        self.name = name

    def __repr__(self):
        return "Opaque(%r)" % (self.name,)

    def __eq__(self, other):
        return isinstance(other, Opaque) and other.name == self.name

    def __hash__(self):
        return hash(("Opaque", self.name))


def lit(kind, v):
    """marker for a value JSON cannot carry (cases stay JSON): materialised just before the implementation sees it"""
    return {"$lit": [kind, v]}


def materialise(x):
    import datetime as dt
    from decimal import Decimal

    if isinstance(x, dict):
        if set(x) == {"$lit"}:
            kind, v = x["$lit"]
            if kind == "datetime":
                return dt.datetime.fromisoformat(v)
            if kind == "date":
                return dt.date.fromisoformat(v)
            if kind == "time":
                return dt.time.fromisoformat(v)
            if kind == "decimal":
                return Decimal(v)
            if kind == "tuple":
                return tuple(materialise(y) for y in v)
            if kind == "set":
                return set(materialise(y) for y in v)
            if kind == "bytes":
                return bytes.fromhex(v)
            if kind == "frozenset":
                return frozenset(materialise(y) for y in v)
            if kind == "object":
                return Opaque(v)
            raise ValueError("unknown literal kind " + repr(kind))
        return {k: materialise(v) for k, v in x.items()}
    if isinstance(x, list):
        return [materialise(v) for v in x]
    return x


def call_args(req, lits=False):
    from rbacx.core.model import Action, Context, Resource, Subject

    req = materialise(req) if lits else copy.deepcopy(req)
    s, r = req["subject"], req["resource"]
    return (Subject(id=s.get("id"), roles=list(s.get("roles") or []), attrs=dict(s.get("attrs") or {})),
            Action(req.get("action")),
            Resource(type=r.get("type"), id=r.get("id"), attrs=dict(r.get("attrs") or {})),
            Context(attrs=dict(req.get("context") or {})))


class FactsChecker:
    def __init__(self, facts):
        self.facts = {tuple(f) for f in facts}

    def check(self, subject, relation, resource, *, context=None):
        return (subject, relation, resource) in self.facts

    def batch_check(self, triples, *, context=None):
        return [self.check(*t) for t in triples]


def make_resolver(rc):
    """rc = {"graph": {...}, "async": bool, "down": bool} -> a StaticRoleResolver whose backend can be switched off
    (expand raises while down: Guard logs it and keeps the subject's own roles), sync or async flavour."""
    from rbacx.core.roles import StaticRoleResolver

    class Flaky(StaticRoleResolver):
        def __init__(self, graph, down):
            super().__init__(copy.deepcopy(graph))
            self.down = bool(down)

        def expand(self, roles):
            if self.down:
                raise ConnectionError("directory unavailable")
            return super().expand(roles)

    class FlakyAsync(Flaky):
        async def expand(self, roles):  # type: ignore[override]
            await asyncio.sleep(0)
            return Flaky.expand(self, roles)

    return (FlakyAsync if rc.get("async") else Flaky)(rc.get("graph") or {}, rc.get("down"))


async def run_history(case, clock):
    """-> per evaluation {"hit", "cached", "uncached"}"""
    from rbacx.core.engine import Guard

    cache = make_cache(case["cache"])
    clock.now = 0.0
    facts = case.get("facts") or []
    cfgs = [case["g1"], case["g2"]]
    lits = bool(case.get("lits"))
    fresh_copy = materialise if lits else copy.deepcopy
    pols = [fresh_copy(cfgs[0]["policy"]), fresh_copy(cfgs[1]["policy"])]
    # collaborators: one relationship checker; one role resolver per guard when the configuration names one.
    # The uncached twin of an evaluation gets the SAME collaborator objects as the guard it mirrors.
    resolvers = [make_resolver(c["resolver"]) if c.get("resolver") is not None else None for c in cfgs]

    def collab(w):
        kw = {"relationship_checker": FactsChecker(facts)}
        if resolvers[w] is not None:
            kw["role_resolver"] = resolvers[w]
        return kw

    guards = [Guard(pols[w], cache=cache, cache_ttl=cfgs[w]["ttl"], strict_types=bool(cfgs[w]["strict"]), **collab(w))
              for w in (0, 1)]
    out = []
    for op in case["h"]:
        k = op[0]
        if k == "e":
            w = op[1]
            n0 = len(cache.gets)
            try:
                dobj = await guards[w].evaluate_async(*call_args(op[2], lits))
                cd = copy.deepcopy(dec_dict(dobj))
                # the caller CONSUMES what it was handed (a PEP that pops obligations while fulfilling them, sorts or
                # annotates the list): the Decision is the caller's; nothing it does to it may reach later answers
                consume_decision(dobj, len(out))
            except Exception as e:  # noqa: BLE001
                cd = ["Raise", type(e).__name__]
            hit = bool(cache.gets[n0:] and cache.gets[-1])
            # the judge: a fresh engine without a cache, same current policy, same type mode, same collaborators
            fresh = Guard(copy.deepcopy(pols[w]), strict_types=bool(cfgs[w]["strict"]), **collab(w))  # deepcopy keeps literals
            try:
                ud = dec_dict(await fresh.evaluate_async(*call_args(op[2], lits)))
            except Exception as e:  # noqa: BLE001
                ud = ["Raise", type(e).__name__]
            out.append({"hit": hit, "cached": cd, "uncached": ud})
        elif k == "p":
            pols[op[1]] = fresh_copy(op[2])
            if op[1] == 0 or len(op) < 4:
                guards[op[1]].set_policy(pols[op[1]])
            else:  # ["p", w, policy, "update"]
                guards[op[1]].update_policy(pols[op[1]])
        elif k == "c":
            guards[op[1]].clear_cache()
        elif k == "t":
            clock.now += float(op[1])
        elif k in ("grant", "revoke", "down", "up"):
            r = resolvers[op[1]]
            if r is None:
                continue
            if k == "grant":      # the role hierarchy is edited in place: op[2] now inherits op[3]
                ps = r.graph.setdefault(op[2], [])
                if op[3] not in ps:
                    ps.append(op[3])
            elif k == "revoke":
                if op[3] in r.graph.get(op[2], []):
                    r.graph[op[2]].remove(op[3])
            else:
                r.down = k == "down"
        else:
            raise ValueError("bad op " + repr(op))
    return out


def _shard(cases):
    clock = Clock()

    async def go():
        return [await run_history(expand(c), clock) for c in cases]

    with patched_clock(clock):
        return asyncio.run(go())


def run_impl(cases, after_fork=None):
    """after_fork: called once the shard processes exist (threads are started only then: no fork with threads)"""
    n = min(12, max(1, len(cases) // 150))
    if n <= 1:
        if after_fork:
            after_fork()
        return _shard(cases)
    shards = [cases[i::n] for i in range(n)]
    with mp.get_context("fork").Pool(n) as pool:
        if after_fork:
            after_fork()
        parts = pool.map(_shard, shards)
    out = [None] * len(cases)
    for i, part in enumerate(parts):
        out[i::n] = part
    return out


# --------------------------------------------------------------------------
# model side
# --------------------------------------------------------------------------
RESOLVER_OPS = ("grant", "revoke", "down", "up")
XS_SINGLE = 12    # resolver histories per run that are ALSO sent as single cg.runR lines (first model_run call with any)
_XS_LEFT = [XS_SINGLE]


def has_resolver(case):
    return case["g1"].get("resolver") is not None or case["g2"].get("resolver") is not None


def enc_resolver(rc):
    """a guard's resolver configuration for the model: None | [down, graph]"""
    return None if rc is None else [bool(rc.get("down")), rc.get("graph") or {}]


def resolver_unmodelled(case):
    """None when cg.runR can express the history's resolvers: per guard no resolver or make_resolver's
    StaticRoleResolver behind a switch ({"graph": {role: [parent, ...]}, "down", "async"}), edited by grant / revoke /
    down / up; subjects' roles lists of str.  Otherwise the reason (such a history stays judged on the implementation only)."""
    strs = lambda l: isinstance(l, list) and all(isinstance(x, str) for x in l)  # noqa: E731
    for g in (case["g1"], case["g2"]):
        rc = g.get("resolver")
        if rc is None:
            continue
        if not isinstance(rc, dict) or set(rc) - {"graph", "async", "down"}:
            return "resolver-kind-not-in-model"
        gr = rc.get("graph") or {}
        if not (isinstance(gr, dict) and all(isinstance(k, str) and strs(v) for k, v in gr.items())):
            return "resolver-graph-not-str"
    for op in case["h"]:
        if op[0] == "e":
            roles = ((op[2].get("subject") or {}) if isinstance(op[2], dict) else {}).get("roles")
            if not (roles is None or strs(roles)):
                return "resolver-roles-not-str"
        elif op[0] in ("grant", "revoke"):
            if not (len(op) == 4 and isinstance(op[2], str) and isinstance(op[3], str)):
                return "resolver-edit-not-str"
        elif op[0] not in ("p", "c", "t", "down", "up"):
            return "resolver-op-not-in-model"
    return None


def model_run(cases, sort, batch=250):
    """one cg.batch line per `batch` cases with the same fact table: policies and requests are sent once per line
    (pool indices in the histories) because parsing dominates the model's cost.  Histories with a role resolver go
    through cg.batchR (CacheGuardR: resolver configuration per guard, edit operations in the history), same answer
    format; XS_SINGLE evenly spaced short ones (per run) are sent as single cg.runR lines too — they must give the batch's
    answer, and single lines are what lib.extraction_crosscheck re-evaluates inside Coq.  -> decoded answer per case"""
    groups = {}
    for ix, case in enumerate(cases):
        groups.setdefault((canon(case.get("facts") or []), has_resolver(case)), []).append(ix)
    lines, owners = [], []
    singles = []
    for (_, withres), ixs in sorted(groups.items()):
        for i in range(0, len(ixs), batch):
            part = ixs[i:i + batch]
            pols, reqs, pix, rix = [], [], {}, {}

            def intern(x, pool, ix):
                k = ordered(x)
                if k not in ix:
                    ix[k] = len(pool)
                    pool.append(x)
                return ix[k]

            enc_cases = []
            for j in part:
                case = cases[j]
                spec = case["cache"]
                mspec, mcopy = model_cache(spec)
                g = lambda x: [bool(x["strict"]), intern(x["policy"], pols, pix), x["ttl"]]  # noqa: E731
                h, hfull = [], []
                for op in case["h"]:
                    if op[0] == "e":
                        h.append(["e", bool(op[1]), intern(op[2], reqs, rix)])
                    elif op[0] == "p":
                        h.append(["p", bool(op[1]), intern(op[2], pols, pix)])
                    elif op[0] == "c":
                        h.append(["c", bool(op[1])])
                    elif op[0] in RESOLVER_OPS:
                        h.append([op[0], bool(op[1])] + list(op[2:]))
                    else:
                        h.append(["t", op[1]])
                    hfull.append([op[0], bool(op[1]), op[2]] if op[0] in ("e", "p") else h[-1])
                if withres:
                    r1, r2 = enc_resolver(case["g1"].get("resolver")), enc_resolver(case["g2"].get("resolver"))
                    enc_cases.append([mspec, mcopy, g(case["g1"]), g(case["g2"]), r1, r2, h])
                    if len(case["h"]) <= 3:
                        singles.append((j, (mspec, mcopy, r1, r2, hfull)))
                else:
                    enc_cases.append([mspec, mcopy, g(case["g1"]), g(case["g2"]), h])
            lines.append(lib.model_call("cg.batchR" if withres else "cg.batch", bool(sort), cases[part[0]].get("facts") or [],
                                        pols, reqs, enc_cases))
            owners.append(part)
    # evenly spaced short resolver histories as single lines, BEFORE the batch lines (lib keeps the first lines of a runner
    # for the vm_compute cross-check and thins out later ones)
    picked = []
    gf = lambda x: [bool(x["strict"]), x["policy"], x["ttl"]]  # noqa: E731
    for j, (mspec, mcopy, r1, r2, hfull) in (singles[::max(1, len(singles) // XS_SINGLE)] if _XS_LEFT[0] > 0 else []):
        one = lib.model_call("cg.runR", bool(sort), mspec, mcopy, gf(cases[j]["g1"]), gf(cases[j]["g2"]), r1, r2,
                             cases[j].get("facts") or [], hfull)
        if len(one) < 3000 and _XS_LEFT[0] > 0:
            picked.append((j, one))
            _XS_LEFT[0] -= 1
    single_outs = lib.run_model(RUNNER, [l for _, l in picked]) if picked else []
    out = [None] * len(cases)
    for part, o in zip(owners, lib.run_model(RUNNER, lines, chunk=1, procs=12)):
        for j, m in zip(part, lib.dec(o)):
            out[j] = m
    for (j, _), o in zip(picked, single_outs):
        if lib.dec(o) != out[j]:
            out[j] = {"runner_inconsistent": "cg.runR and cg.batchR answer differently", "single": lib.dec(o), "batch": out[j]}
    return out


_SORT = None


def detect_sort():
    """behavioural switch of the model for finding F16: does the implementation give two requests that differ
    only in the key order of a nested object ONE cache key?  (True on the current tree.)"""
    global _SORT
    if _SORT is None:
        probe = {"cache": ["lru", BIG], "g1": {"strict": False, "policy": POL["num"], "ttl": None},
                 "g2": {"strict": False, "policy": POL["num"], "ttl": None}, "facts": [],
                 "h": [["e", 0, mkreq(ctx={"o": {"a": 1, "b": 2}})], ["e", 0, mkreq(ctx={"o": {"b": 2, "a": 1}})]]}
        r = _shard([probe])[0]
        _SORT = bool(r[1]["hit"])
    return _SORT


# --------------------------------------------------------------------------
# judging
# --------------------------------------------------------------------------
def canon(x):
    """type-exact, key-order-insensitive text of a JSON value (1, 1.0, True and "1" differ)"""
    return json.dumps(x, sort_keys=True, default=repr)


def ordered(x):
    return json.dumps(x, default=repr)


def order_free(v):
    if isinstance(v, dict):
        return len(v) <= 1 and all(order_free(x) for x in v.values())
    if isinstance(v, (list, tuple)):
        return all(order_free(x) for x in v)
    return True


def rules_of(policy):
    if isinstance(policy, dict) and "policies" in policy:
        for p in policy.get("policies") or []:
            yield from rules_of(p)
    elif isinstance(policy, dict):
        for r in policy.get("rules") or []:
            if isinstance(r, dict):
                yield r


def f16_class(case, idx, evals, res):
    """the narrow class of open finding F16, for the evaluation number idx (position in evals):
    lax guard; a cache hit; the request has a resource attribute k whose value holds an object with >= 2 keys; some
    rule of the guard's current policy constrains resource attribute k by an object (or a list containing one) with
    >= 2 keys; an EARLIER evaluation under the same policy text and type mode had a request equal to this one up
    to the key order inside resource.attrs values only, and the cached answer is that twin's uncached answer."""
    w, req, pol, strict = evals[idx]
    if strict or not res[idx]["hit"]:
        return False
    attrs = (req.get("resource") or {}).get("attrs") or {}
    hot = [k for k, v in attrs.items() if not order_free(v)]
    if not hot:
        return False
    constrained = set()
    for r in rules_of(pol):
        ra = (r.get("resource") or {}).get("attrs") or (r.get("resource") or {}).get("attributes") or {}
        if isinstance(ra, dict):
            for k, v in ra.items():
                if not order_free(v):
                    constrained.add(k)
    if not (constrained & set(hot)):
        return False

    def skeleton(rq):
        rq = copy.deepcopy(rq)
        at = rq["resource"].get("attrs") or {}
        rq["resource"]["attrs"] = {k: (canon(v) if k in constrained else v) for k, v in at.items()}
        return ordered(rq)

    for j in range(idx):
        w2, req2, pol2, strict2 = evals[j]
        if strict2 or canon(pol2) != canon(pol):
            continue
        if ordered(req2) != ordered(req) and skeleton(req2) == skeleton(req) and canon(res[j]["uncached"]) == canon(res[idx]["cached"]):
            return True
    return False


def evals_of(case):
    """(w, request, current policy of that guard, strict) per evaluation"""
    pols = [case["g1"]["policy"], case["g2"]["policy"]]
    stricts = [bool(case["g1"]["strict"]), bool(case["g2"]["strict"])]
    out = []
    for op in case["h"]:
        if op[0] == "e":
            out.append((op[1], op[2], pols[op[1]], stricts[op[1]]))
        elif op[0] == "p":
            pols[op[1]] = op[2]
    return out


def impl_verdict(case, res):
    """-> (index of the first evaluation on which cached != uncached outside F16's class or None, F16 hits)"""
    evals = evals_of(case)
    known = 0
    for i, r in enumerate(res):
        if canon(r["cached"]) != canon(r["uncached"]):
            if f16_class(case, i, evals, res):
                known += 1
            else:
                return i, known
    return None, known


def shrink(case, budget=60):
    """drop operations while the implementation still fails the property on the history"""
    cur = strip(case)
    t0 = time.time()
    changed = True
    while changed and time.time() - t0 < budget:
        changed = False
        for i in range(len(cur["h"]) - 1, -1, -1):
            cand = dict(cur)
            cand["h"] = cur["h"][:i] + cur["h"][i + 1:]
            if not any(o[0] == "e" for o in cand["h"]):
                continue
            bad, _ = impl_verdict(cand, _shard([cand])[0])
            if bad is not None:
                cur, changed = cand, True
    return cur


def describe(op):
    if op[0] == "e":
        return "evaluate(guard %d, %s)" % (op[1] + 1, json.dumps(op[2], default=repr))
    if op[0] == "p":
        return "set_policy(guard %d, ...)" % (op[1] + 1)
    if op[0] == "c":
        return "clear_cache(guard %d)" % (op[1] + 1)
    if op[0] in ("grant", "revoke"):
        return "%s: role %r %s %r in the resolver of guard %d" % (op[0], op[2], "inherits" if op[0] == "grant" else "no longer inherits", op[3], op[1] + 1)
    if op[0] in ("down", "up"):
        return "role resolver of guard %d goes %s" % (op[1] + 1, op[0])
    return "clock += %s s" % op[1]


def has_nonjson(x):
    if isinstance(x, dict):
        return any(not isinstance(k, str) or has_nonjson(v) for k, v in x.items())
    if isinstance(x, list):
        return any(has_nonjson(v) for v in x)
    return not (x is None or isinstance(x, (bool, int, float, str)))


def impl_only(case):
    """histories the Coq model does not speak about (JSON values only; resolvers: what cg.runR decodes, see
    resolver_unmodelled): judged on the implementation alone — engine with the cache vs its uncached twin — which is
    the direct reading of the property"""
    if case.get("lits"):
        return "nonjson"
    if case.get("judge") == "impl":
        return case.get("why", "impl-only")
    if has_nonjson([op[2] for op in case["h"] if op[0] == "e"]):
        return "nonjson"
    if has_resolver(case):
        return resolver_unmodelled(case)
    if any(op[0] in RESOLVER_OPS for op in case["h"]):
        return "resolver-op-without-resolver"
    return None


def check_cases(chk, cases, replay=False):
    sort = detect_sort()
    chk.extra["model_switch_sort_keys"] = sort
    tps = [c for c in cases if c.get("kind") == "tagpair"]
    if tps:
        check_tagpairs(chk, tps, replay)
    cases = [expand(c) for c in cases if c.get("kind") != "tagpair"]
    if not cases:
        return
    modelled = [i for i, c in enumerate(cases) if impl_only(c) is None]
    box = {}

    def _model():
        try:
            box["outs"] = model_run([cases[i] for i in modelled], sort)
        except BaseException as e:  # noqa: BLE001
            box["err"] = e

    th = threading.Thread(target=_model)   # the model runs in subprocesses while the shards run the implementation
    impls = run_impl([strip(c) for c in cases], after_fork=th.start)
    th.join()
    if "err" in box:
        raise box["err"]
    outs = [None] * len(cases)
    for i, m in zip(modelled, box["outs"]):
        outs[i] = m
    for c, res, m in zip(cases, impls, outs):
        nev = len(res)
        hits = sum(1 for r in res if r["hit"])
        chk.mark(c.get("_key") or canon(strip(c)), hits > 0)
        chk.count("fam:" + str(c.get("fam", "?")))
        chk.count("cache:%s" % (c["cache"][0] if c["cache"][0] != "lru" else "lru%s" % (c["cache"][1] if c["cache"][1] < BIG else "big")))
        chk.count("len:%s" % (len(c["h"]) if len(c["h"]) <= 5 else ("6-20" if len(c["h"]) <= 20 else ">20")))
        chk.count("guards_used:%d" % len({op[1] for op in c["h"] if op[0] == "e"}))
        chk.count("evaluations", nev)
        chk.count("hits", hits)
        for op in c["h"]:
            chk.count("op:" + {"e": "evaluate", "p": "set_policy", "c": "clear_cache", "t": "tick", "grant": "resolver_grant",
                               "revoke": "resolver_revoke", "down": "resolver_down", "up": "resolver_up"}[op[0]])
        for r in res:
            d = r["cached"]
            chk.count("decision:" + ("raise" if isinstance(d, list) else "%s/%s" % (d["effect"], d["reason"])))
        chk.sample({"case": strip(c), "impl": res, "model": m}, every=4999)
        if c.get("lits") and str(c.get("fam", "")).startswith(("nonjson", "random-nonjson")):
            chk.count("nonjson:histories")
            if modes_differ(c, res):
                chk.count("nonjson:histories_in_which_lax_and_strict_decide_one_request_differently_(uncached)")
        # 1. the property itself, on the implementation alone
        bad, known = impl_verdict(c, res)
        if known:
            chk.known("F16")
            chk.count("F16_evaluations", known)
        if bad is not None:
            small = c
            if not replay and len(chk.violations) < 3:
                small = shrink(c)
                sres = _shard([small])[0]
                sbad, _ = impl_verdict(small, sres)
                if sbad is None:  # shrinking lost it (should not happen): report the original
                    small, sres, sbad = c, res, bad
            else:
                sres, sbad = res, bad
            ev_pos = [i for i, op in enumerate(small["h"]) if op[0] == "e"][sbad]
            chk.violation("transparent: the engine with the cache answers differently from an engine without a cache "
                          "holding the same current policy, at operation #%d of the history (%s; cache hit: %s); "
                          "fields differing: %s" % (
                              ev_pos, describe(small["h"][ev_pos]), sres[sbad]["hit"],
                              sorted(k for k in (sres[sbad]["cached"] if isinstance(sres[sbad]["cached"], dict) else {})
                                     if not isinstance(sres[sbad]["uncached"], dict)
                                     or canon(sres[sbad]["cached"].get(k)) != canon(sres[sbad]["uncached"].get(k)))),
                          strip(small), impl=sres, model=m if small is c else None,
                          note="cached vs uncached compared on the implementation alone (theorem c08_transparent is "
                               "what the model proves); outside the class of F16"
                               + ("; the history carries a value that is not JSON: in a REQUEST the cache key is then built on the "
                                  "slow path of Guard._normalize_env_for_cache, which must keep apart whatever the plain-JSON key "
                                  "keeps apart (type mode marker, every section of the env, a value vs the string it prints as = "
                                  "fixed finding F26); in a POLICY literal it means the policy tag (etag) no longer separates two "
                                  "policies (hypothesis tag_inj)" if impl_only(c) == "nonjson" else "")
                               + ("; the engines have a role resolver: the uncached twin uses the same resolver object"
                                  if has_resolver(c) else ""))
            continue
        # 2. correspondence with the model
        if m is None:
            why = impl_only(c)
            chk.count("judged_on_implementation_only:" + why)
            if has_resolver(c):
                chk.count("resolver_histories:implementation_only")
                rh = chk.extra.setdefault("resolver_histories", {"model_judged": 0, "model_judged_with_resolver_edits": 0,
                                                                 "implementation_only": {}})
                rh["implementation_only"][why] = rh["implementation_only"].get(why, 0) + 1
            chk.extra.setdefault("families_without_model_comparison", {})
            chk.extra["families_without_model_comparison"][why] = chk.extra["families_without_model_comparison"].get(why, 0) + 1
            continue
        withres = has_resolver(c)
        thms = THEOREMS_R if withres else THEOREMS
        if withres:
            rh = chk.extra.setdefault("resolver_histories", {"model_judged": 0, "model_judged_with_resolver_edits": 0,
                                                             "implementation_only": {}})
            rh["model_judged"] += 1
            chk.count("resolver_histories:model_judged")
            chk.count("resolver_histories:model_judged:" + str(c.get("fam", "?")))
            if any(op[0] in RESOLVER_OPS for op in c["h"]):
                rh["model_judged_with_resolver_edits"] += 1
        if not (isinstance(m, list) and len(m) == 2 and len(m[0]) == nev and len(m[1]) == nev):
            chk.corr_break("model runner: unexpected answer shape", strip(c), impl=res, model=m, theorems=thms)
            continue
        if any(x[1] == ["Ood"] for x in m[0]) or any(x == ["Ood"] for x in m[1]):
            chk.count("ood")
            continue
        diff = None
        for i, (r, mc, mu) in enumerate(zip(res, m[0], m[1])):
            ic = r["cached"] if isinstance(r["cached"], dict) else ["Raise"]
            iu = r["uncached"] if isinstance(r["uncached"], dict) else ["Raise"]
            mcd = mc[1] if isinstance(mc[1], dict) else ["Raise"]
            mud = mu if isinstance(mu, dict) else ["Raise"]
            if canon(iu) != canon(mud):
                diff = (i, "the UNCACHED engine's Decision differs from Engine.guard_eval"
                        + (" on the resolver's answer (CacheGuardR.run_refR)" if withres else ""))
            elif bool(r["hit"]) != bool(mc[0]):
                diff = (i, "cache hit/miss differs (implementation: %s, model: %s)" % ("hit" if r["hit"] else "miss", "hit" if mc[0] else "miss"))
            elif canon(ic) != canon(mcd):
                diff = (i, "the cached engine's Decision differs from "
                        + ("CacheGuardR.run_cachedR" if withres else "CacheGuard.run_cached"))
            if diff:
                break
        if diff:
            chk.count("differs:" + diff[1].split(" ")[0] + " " + diff[1].split(" ")[1])
            if len(chk.corr_breaks) < 12:
                ev_pos = [i for i, op in enumerate(c["h"]) if op[0] == "e"][diff[0]]
                cut = dict(strip(c))
                cut["h"] = c["h"][:ev_pos + 1]
                chk.corr_break("Guard with cache vs %s model: %s at evaluation #%d (operation #%d: %s); "
                               "cached and uncached answers of the implementation agree on the whole history"
                               % ("CacheGuardR (role resolver per guard)" if withres else "CacheGuard",
                                  diff[1], diff[0], ev_pos, describe(c["h"][ev_pos])),
                               cut, impl=res[:diff[0] + 1], model=[m[0][:diff[0] + 1], m[1][:diff[0] + 1]], theorems=thms)


# --------------------------------------------------------------------------
# generators
# --------------------------------------------------------------------------
def enum_words(nletters, maxlen, minlen=1):
    for n in range(minlen, maxlen + 1):
        yield from itertools.product(range(nletters), repeat=n)


def enum_family(c, quads, maxlen, fam, top_stride=1, offset=0):
    """all words of length <= maxlen; with top_stride > 1 only every top_stride-th word of length maxlen (a seeded
    residue class), all shorter ones"""
    nl = len(letters(c))
    n = 0
    for q in quads:
        for wd in enum_words(nl, maxlen):
            if len(wd) == maxlen and top_stride > 1:
                n += 1
                if (n + offset) % top_stride:
                    continue
            yield {"fam": fam if len(wd) < maxlen or top_stride == 1 else fam + "-top-sampled", "cfg": c, "quad": q, "word": list(wd)}


def sample_family(rng, configs, n, lo, hi, fam):
    for _ in range(n):
        c = rng.choice(configs)
        nl = len(letters(c))
        yield {"fam": fam, "cfg": c, "quad": rng.choice(QUAD_NAMES), "word": [rng.randrange(nl) for _ in range(rng.randint(lo, hi))]}


def all_configs(caches=(("lru", 1), ("lru", 2), ("lru", BIG), ("lru", 0), ("dict",), ("pickle",))):
    out = []
    for cache in caches:
        for ttl in (None, 0, TTL):
            for s1 in (False, True):
                out.append(cfg(cache, ttl, s1))
                out.append(cfg(cache, ttl, s1, two="other", strict2=s1))
                out.append(cfg(cache, ttl, s1, two="same", strict2=not s1))
                out.append(cfg(cache, ttl, s1, two="other", strict2=not s1, ttl2=None if ttl else TTL))
    return out


def protective_and_falsy_configs():
    """the configurations of all_configs() on the cache kinds that protect their entries (read-only views, frozen
    snapshots, deep copies) and on cache objects that are falsy"""
    return all_configs([tuple(k) for k in NEW_CACHE_KINDS] + [("roview-lru", 1), ("roview-lru", BIG), ("falsy-bool-lru", BIG)])


def cache_kind_families(rng, quick):
    """the enumerated one- and two-guard histories on every new cache kind, over the quadruples whose permits carry
    obligations that the context meets / does not meet (ctx, ctxw) and, thorough, num and ids (sampled: all)"""
    for kind in NEW_CACHE_KINDS:
        one, one_s = cfg(kind, TTL, False), cfg(kind, None, True)
        two, two_same = cfg(kind, TTL, False, two="other"), cfg(kind, TTL, False, two="same", strict2=True)
        if quick:
            yield from enum_family(one, ["ctx", "ctxw"], 2, "enum-cache-kinds")
            yield from enum_family(two, ["ctx"], 2, "enum-cache-kinds")
            yield from sample_family(rng, [one, one_s, two, two_same], 60, 3, 5, "enum-cache-kinds-longer-sampled")
        else:
            yield from enum_family(one, ["ctx", "ctxw", "num", "ids"], 3, "enum-cache-kinds")
            yield from enum_family(one_s, ["ctx", "ctxw"], 3, "enum-cache-kinds")
            yield from enum_family(two, ["ctx", "ctxw"], 3, "enum-cache-kinds")
            yield from enum_family(two_same, ["ctx"], 3, "enum-cache-kinds")
            yield from sample_family(rng, [one, one_s, two, two_same], 800, 4, 7, "enum-cache-kinds-longer-sampled")


def random_history(rng, lo, hi, configs=None):
    """long histories over the whole pools, one or two guards, any configuration"""
    c = rng.choice(configs or all_configs())
    names = rng.sample(POLICY_NAMES, rng.choice([2, 3, 3, 4]))
    reqs = rng.sample(REQS, rng.choice([2, 3, 4, 6, 8]))
    # near-duplicates on purpose: add the quad of the first policy when there is one
    for q, (ps, rs) in QUADS.items():
        if ps[0] == names[0] or ps[1] == names[0]:
            reqs = reqs + rs
            break
    two = bool(c["two"])
    h = []
    for _ in range(rng.randint(lo, hi)):
        x = rng.random()
        w = rng.randrange(2) if two else 0
        if x < 0.62:
            h.append(["e", w, rng.choice(reqs)])
        elif x < 0.74:
            op = ["p", w, POL[rng.choice(names)]]
            if w == 1 and rng.random() < 0.5:
                op.append("update")
            h.append(op)
        elif x < 0.80:
            h.append(["c", w])
        else:
            h.append(["t", rng.choice([BELOW, BELOW, PAST, 0, 2, 100])])
    p2 = names[1] if c["two"] == "other" else names[0]
    return {"fam": "random", "cache": c["cache"] if configs or rng.random() < 0.85 else ["lru", rng.choice([3, 5, -1])],
            "g1": {"strict": c["strict1"], "policy": POL[names[0]], "ttl": c["ttl"]},
            "g2": {"strict": c["strict2"], "policy": POL[p2], "ttl": c["ttl2"]},
            "facts": FACTS, "h": h}


def pair_cases(quick=True):
    """every pair of pool requests, evaluated one after the other under one policy with a large cache:
    the second lookup hits iff the two requests have one cache key (the near-duplicate sweep); plus the same pair
    on two guards of different type mode sharing the cache."""
    for pn in ("num", "meta2", "obl", "rel"):
        for strict in (False, True):
            for a in range(len(REQS)):
                for b in range(a, len(REQS)):
                    if pn != "num" and (a * 31 + b * 17 + len(pn)) % (8 if quick else 4):   # all pairs for "num", an eighth (thorough: a quarter) for the others
                        continue
                    yield {"fam": "pairs", "cache": ["lru", BIG], "g1": {"strict": strict, "policy": POL[pn], "ttl": None},
                           "g2": {"strict": not strict, "policy": POL[pn], "ttl": None}, "facts": FACTS,
                           "h": [["e", 0, REQS[a]], ["e", 0, REQS[b]], ["e", 1, REQS[a]], ["e", 0, REQS[b]]],
                           "_key": ("pairs", pn, strict, a, b)}


def replacement_cases():
    """A -> B -> A (and back again) with evaluations in between, every quad, several caches"""
    for q in QUAD_NAMES:
        pa, pb = (POL[x] for x in QUADS[q][0])
        rs = QUADS[q][1]
        for cache in (["lru", BIG], ["lru", 2], ["dict"], ["pickle"]):
            for strict in (False, True):
                h = []
                for pol in (None, pb, pa, pb, pa):
                    if pol is not None:
                        h.append(["p", 0, pol])
                    for r in rs:
                        h.append(["e", 0, r])
                    h.append(["e", 0, rs[0]])
                yield {"fam": "A-B-A", "cache": cache, "g1": {"strict": strict, "policy": pa, "ttl": None},
                       "g2": {"strict": strict, "policy": pb, "ttl": None}, "facts": FACTS, "h": h}


# --------------------------------------------------------------------------
# engines with a role resolver (cached vs uncached on the implementation = the violation; hit pattern and Decisions
# against CacheGuardR.run_cachedR / run_refR through cg.batchR = the correspondence)
# --------------------------------------------------------------------------
RPOL = {
    "ra": {"algorithm": "deny-overrides", "rules": [
        _rule("ra1", "permit", condition={"hasAny": [ROLES, ["employee"]]}),
        _rule("ra2", "permit", actions=["write"], condition={"hasAll": [ROLES, ["manager", "employee"]]}),
        _rule("ra3", "deny", actions=["read", "write"], condition={"in": ["intern", ROLES]})]},
    "rb": {"algorithm": "first-applicable", "rules": [
        _rule("rb1", "permit", condition={"==": [ROLES, ["employee", "manager", "user"]]}),
        _rule("rb2", "deny", condition={"==": [ROLES, ["manager"]]}),
        _rule("rb3", "permit", actions=["read", "write"], condition={"hasAny": [ROLES, ["user", "employee"]]}),
        _rule("rb4", "deny", actions=["*"], resource={})]},
    "rc": {"algorithm": "permit-overrides", "policies": [
        {"id": "s1", "algorithm": "deny-overrides", "rules": [
            _rule("rc1", "permit", condition={"contains": [ROLES, "user"]}, obligations=[{"type": "require_mfa"}])]},
        {"id": "s2", "algorithm": "first-applicable", "rules": [
            _rule("rc2", "permit", actions=["write"], condition={"in": [ROLES, ["manager", "admin"]]})]}]},
}
GRAPH_FULL = {"manager": ["employee"], "employee": ["user"]}
GRAPH_FLAT = {"employee": ["user"]}
RREQS = [mkreq(roles=["manager"]), mkreq(roles=["employee"]), mkreq(roles=["manager"], action="write"),
         mkreq(roles=["manager", "employee"]), mkreq(roles=["employee", "manager"]), mkreq(roles=["intern", "manager"]),
         mkreq(roles=[]), mkreq(roles=["user"], ctx={"mfa": True}), mkreq(roles=["manager"], ctx={"mfa": True}),
         mkreq(roles=["employee", "user"]), mkreq(roles=["user", "employee"], action="write")]


def rcfg(cache=("lru", 2), ttl=TTL, two=None, graph1=None, graph2=None, down1=False, asyn=False, strict=False):
    """two: None = one engine; "graph" = second engine, same policy text, another role hierarchy;
    "policy" = second engine with another policy (and its own resolver)"""
    return {"cache": list(cache), "ttl": ttl, "two": two, "graph1": GRAPH_FULL if graph1 is None else graph1,
            "graph2": GRAPH_FLAT if graph2 is None else graph2, "down1": down1, "async": asyn, "strict": strict}


def rletters(c):
    if not c["two"]:
        return [("e", 0, 0), ("e", 0, 1), ("e", 0, 2), ("grant", 0, "manager", "employee"), ("revoke", 0, "manager", "employee"),
                ("down", 0), ("up", 0), ("p", 0, 0), ("p", 0, 1), ("c", 0), ("t", PAST)]
    return [("e", 0, 0), ("e", 0, 2), ("e", 1, 0), ("e", 1, 2), ("revoke", 0, "manager", "employee"),
            ("grant", 1, "manager", "employee"), ("down", 0), ("up", 0), ("p", 1, 1), ("c", 1), ("t", PAST)]


def rexpand(c, word, fam):
    pols = [RPOL["ra"], RPOL["rb"]]
    h = []
    for i in word:
        x = rletters(c)[i]
        if x[0] == "e":
            h.append(["e", x[1], RREQS[x[2]]])
        elif x[0] == "p":
            h.append(["p", x[1], pols[x[2]]])
        else:
            h.append(list(x))
    res = lambda g, down: {"graph": g, "async": c["async"], "down": down}  # noqa: E731
    return {"fam": fam, "cache": c["cache"],
            "g1": {"strict": c["strict"], "policy": pols[0], "ttl": c["ttl"], "resolver": res(c["graph1"], c["down1"])},
            "g2": {"strict": c["strict"], "policy": pols[1] if c["two"] == "policy" else pols[0], "ttl": c["ttl"],
                   "resolver": res(c["graph2"] if c["two"] else c["graph1"], False)},
            "facts": [], "h": h, "_key": (fam, json.dumps(c, sort_keys=True), tuple(word))}


def resolver_enum(configs, maxlen, fam="resolver-enum"):
    for c in configs:
        for wd in enum_words(len(rletters(c)), maxlen):
            yield rexpand(c, wd, fam)


def resolver_random(rng, lo, hi):
    two = rng.choice([None, None, "graph", "policy"])
    names = rng.sample(sorted(RPOL), 2)
    graphs = [GRAPH_FULL, GRAPH_FLAT, {}, {"manager": ["employee", "admin"], "intern": ["user"], "employee": ["user"]}]
    edges = [("manager", "employee"), ("employee", "user"), ("intern", "employee"), ("user", "manager"), ("manager", "admin")]
    reqs = rng.sample(RREQS, rng.choice([2, 3, 5]))
    h = []
    for _ in range(rng.randint(lo, hi)):
        x = rng.random()
        w = rng.randrange(2) if two else 0
        if x < 0.50:
            h.append(["e", w, rng.choice(reqs)])
        elif x < 0.70:
            h.append([rng.choice(["grant", "revoke"]), w] + list(rng.choice(edges)))
        elif x < 0.80:
            h.append([rng.choice(["down", "up", "up"]), w])
        elif x < 0.88:
            h.append(["p", w, RPOL[rng.choice(sorted(RPOL))]])
        elif x < 0.93:
            h.append(["c", w])
        else:
            h.append(["t", rng.choice([BELOW, PAST, 100])])
    asyn = rng.random() < 0.4
    cache = rng.choice([["lru", 1], ["lru", 2], ["lru", BIG], ["dict"], ["pickle"]] + (NEW_CACHE_KINDS if rng.random() < 0.3 else []))
    ttl = rng.choice([None, 0, TTL, 300])
    strict = rng.random() < 0.3
    g = lambda pn, gr, down: {"strict": strict, "policy": RPOL[pn], "ttl": ttl,  # noqa: E731
                              "resolver": {"graph": gr, "async": asyn, "down": down}}
    g1graph = rng.choice(graphs)
    return {"fam": "resolver-random", "cache": cache, "g1": g(names[0], g1graph, rng.random() < 0.2),
            "g2": g(names[1] if two == "policy" else names[0], rng.choice(graphs) if two else g1graph, False),
            "facts": [], "h": h}


# --------------------------------------------------------------------------
# near-duplicate TEXT: different strings that some normalisation a key function might apply makes equal
# --------------------------------------------------------------------------
def surrogate_escaped(t):
    """the str that bytes.decode('utf-8', 'surrogateescape') yields for t's UTF-8 bytes taken apart: every
    non-ASCII byte b becomes the lone surrogate U+DC00+b"""
    return "".join(chr(0xDC00 + b) if b >= 0x80 else chr(b) for b in t.encode("utf-8"))


TEXT_PAIRS = [
    ("surrogateescape", "résumé.txt", surrogate_escaped("résumé.txt")),
    ("surrogateescape2", "andré", surrogate_escaped("andré")),
    ("surrogatepass", "\U0001F600", "😀"),                  # astral char vs its two lone surrogates
    ("lone-surrogate", "a\udc80", "a�"),
    ("nfc/nfd", "café", "café"),
    ("nfkc", "ﬁle", "file"),                                      # ligature fi
    ("case", "Admin", "admin"), ("case2", "STRASSE", "straße"),
    ("lead-space", " a", "a"), ("trail-space", "a ", "a"), ("inner-space", "a b", "a  b"), ("tab", "a\tb", "a b"),
    ("nbsp", "a b", "a b"), ("newline", "a\n", "a"), ("nul", "a\x00", "a"),
    ("fullwidth", "1", "１"), ("zero-width", "a", "a​"), ("bom", "﻿a", "a"),
    ("escaped-text", "é", "\\u00e9"), ("escaped-quote", 'a"b', 'a\\"b'),
    ("prefix", "doc", "doc1"), ("prefix2", "ab", "abc"), ("empty", "", " "),
    ("bytes-repr", "x", "b'x'"), ("quoted", "a", '"a"'), ("json-structure", 'a","b', "a"),
    ("long-tail", "x" * 300 + "1", "x" * 300 + "2"),                   # a truncating key function
    ("homoglyph", "a", "а"),
    ("str/none", "None", None), ("str/true", "True", True), ("str/float", "1.0", 1.0), ("str/int", "1", 1),
    ("str/list", "a", ["a"]),
]
TEXT_SITES = ["rid", "rattr", "sid", "sattr", "role", "ctx", "action", "rtype"]


def text_policy(site, literal):
    """permit exactly when the value at `site` == literal (one literal, compared by == / exact match)"""
    path = {"rid": "resource.id", "rattr": "resource.attrs.v", "sid": "subject.id", "sattr": "subject.attrs.v",
            "ctx": "context.v"}.get(site)
    if path:
        rule = _rule("t1", "permit", condition={"==": [{"attr": path}, literal]}, obligations=[{"type": "require_mfa"}])
    elif site == "role":
        rule = _rule("t1", "permit", condition={"in": [literal, ROLES]})
    elif site == "action":
        rule = _rule("t1", "permit", actions=[literal])
    else:
        rule = _rule("t1", "permit", resource={"type": literal})
    return {"algorithm": "first-applicable", "rules": [rule, _rule("t2", "deny", actions=["*"], resource={})]}


def text_request(site, v):
    kw = {"ctx": {"mfa": True}}
    if site == "rid":
        kw["rid"] = v
    elif site == "rattr":
        kw["rattrs"] = {"v": v}
    elif site == "sid":
        kw["sid"] = v
    elif site == "sattr":
        kw["sattrs"] = {"v": v}
    elif site == "role":
        kw["roles"] = [v, "b"]
    elif site == "ctx":
        kw["ctx"] = {"mfa": True, "v": v}
    elif site == "action":
        kw["action"] = v
    else:
        kw["rtype"] = v
    return mkreq(**kw)


def is_plain_text(x):
    """only printable ASCII in every string of x (what the model's str()/repr() of containers covers)"""
    if isinstance(x, str):
        return all(32 <= ord(ch) < 127 for ch in x)
    if isinstance(x, (list, tuple)):
        return all(is_plain_text(y) for y in x)
    if isinstance(x, dict):
        return all(is_plain_text(k) and is_plain_text(v) for k, v in x.items())
    return True


def text_cases():
    n = 0
    for name, a, b in TEXT_PAIRS:
        for site in TEXT_SITES:
            if site in ("role", "action", "rtype") and not (isinstance(a, str) and isinstance(b, str)):
                continue
            n += 1
            pol = text_policy(site, a)
            ra, rb = text_request(site, a), text_request(site, b)
            base = {"fam": "text-near-duplicates", "facts": [], "_key": ("text", name, site)}
            if not (is_plain_text(a) and is_plain_text(b)):
                # the model's strings are printable text inside containers; judged cached-vs-uncached only
                base.update({"judge": "impl", "why": "text-not-representable-in-model"})
            cache = [["lru", BIG], ["dict"], ["pickle"], ["lru", 2]][n % 4]
            g = {"strict": bool(n % 2), "policy": pol, "ttl": [None, TTL, 300][n % 3]}
            yield dict(base, cache=cache, g1=g, g2=g, h=[["e", 0, ra], ["e", 0, rb], ["e", 0, ra], ["e", 1, rb]])
            yield dict(base, cache=cache, g1=g, g2=dict(g, strict=not g["strict"]), _key=("text-rev", name, site),
                       h=[["e", 0, rb], ["e", 0, ra], ["e", 1, ra], ["e", 1, rb], ["e", 0, rb]])


# --------------------------------------------------------------------------
# the hypothesis tag_inj on the implementation: do two different policies ever get one etag?
# --------------------------------------------------------------------------
DT_ISO = "2030-01-01T00:00:00+00:00"


def tag_literal_pairs():
    import datetime as dt
    from decimal import Decimal

    d_aware = dt.datetime.fromisoformat(DT_ISO)
    d_naive = dt.datetime(2030, 1, 1, 12, 30)
    day, tm = dt.date(2026, 3, 1), dt.time(12, 30)
    return [
        ("int/float", 1, 1.0), ("int/bool", 1, True), ("int/str", 1, "1"), ("float/str", 1.0, "1.0"),
        ("bool/str", True, "True"), ("bool/json", True, "true"), ("none/str", None, "None"), ("none/json", None, "null"),
        ("str/list", "a", ["a"]), ("nfc/nfd", "café", "café"), ("case", "Admin", "admin"),
        ("escaped-text", "é", "\\u00e9"), ("surrogateescape", "é", surrogate_escaped("é")),
        ("datetime/str", lit("datetime", DT_ISO), str(d_aware)), ("datetime/iso", lit("datetime", DT_ISO), d_aware.isoformat()),
        ("datetime/repr", lit("datetime", DT_ISO), repr(d_aware)),
        ("naive-datetime/str", lit("datetime", d_naive.isoformat()), str(d_naive)),
        ("naive-datetime/iso", lit("datetime", d_naive.isoformat()), d_naive.isoformat()),
        ("date/str", lit("date", day.isoformat()), str(day)), ("date/repr", lit("date", day.isoformat()), repr(day)),
        ("time/str", lit("time", tm.isoformat()), str(tm)), ("time/repr", lit("time", tm.isoformat()), repr(tm)),
        ("decimal/str", lit("decimal", "1.5"), "1.5"), ("decimal/float", lit("decimal", "1.5"), 1.5),
        ("decimal/repr", lit("decimal", "1.5"), repr(Decimal("1.5"))),
        ("tuple/str", lit("tuple", [1, 2]), "(1, 2)"), ("tuple/text", lit("tuple", ["a"]), "('a',)"),
        ("set/str", lit("set", [1]), "{1}"), ("bytes/repr", lit("bytes", "78"), "b'x'"), ("bytes/text", lit("bytes", "78"), "x"),
        ("object-key-order", {"a": 1, "b": 2}, {"b": 2, "a": 1}),
        # NOT in the pool, because the unchanged engine gives them one etag although they are decided differently
        # (reported to the maintainers of this check's findings list; json.dumps prints a tuple as a list and an int key
        # as a str key): ("tuple/list", (1, 2), [1, 2]), ({1: "x"}, {"1": "x"}); and an object-valued resource
        # constraint in another key order (class of F23/F16).
    ]


def tag_policy(site, literal):
    if site == "cond":
        rule = _rule("g1", "permit", condition={"==": [{"attr": "resource.attrs.v"}, literal]})
    elif site == "in":
        rule = _rule("g1", "permit", condition={"in": [{"attr": "resource.attrs.v"}, [literal, "zzz"]]})
    elif site == "rid":
        rule = _rule("g1", "permit", resource={"type": "doc", "id": literal})
    elif site == "rattr":
        rule = _rule("g1", "permit", resource={"type": "doc", "attrs": {"v": literal}})
    elif site == "before":
        rule = _rule("g1", "permit", condition={"before": [{"attr": "context.now"}, literal]})
    else:  # obligation attrs
        rule = _rule("g1", "permit", obligations=[{"type": "require_level", "attrs": {"min": literal}}])
    return {"algorithm": "deny-overrides", "rules": [rule]}


def tag_pairs():
    for name, a, b in tag_literal_pairs():
        for site in ("cond", "in", "rid", "rattr", "before", "obl"):
            if name == "object-key-order" and site in ("rid", "rattr"):
                continue  # that is the class of F23 (C17) / F16: lax str() of an object-valued constraint
            yield {"kind": "tagpair", "fam": "tag_inj", "name": name, "site": site, "lits": True,
                   "P": tag_policy(site, a), "Q": tag_policy(site, b), "values": [a, b]}
    # the same rule with its keys in another order: one etag by design, one decision
    r = _rule("g1", "permit", condition={"==": [{"attr": "resource.attrs.v"}, 1]})
    yield {"kind": "tagpair", "fam": "tag_inj", "name": "rule-key-order", "site": "rule", "lits": True,
           "P": {"algorithm": "deny-overrides", "rules": [r]},
           "Q": {"rules": [dict(reversed(list(r.items())))], "algorithm": "deny-overrides"}, "values": [1, 1.0]}


def same_json_value(p, q):
    """equal as JSON values up to the key order of objects, types exact (1, 1.0, True differ; a literal that is not
    JSON is itself and nothing else)"""
    return canon(p) == canon(q)


def separating_histories(pair):
    """two engines holding P and Q share one cache; one evaluates a request, then the other: candidates"""
    vals = list(pair.get("values") or [])
    extra = [1, "1", 1.0, True, "a", ["a"], None, lit("datetime", "2026-06-01T12:00:00+00:00"), "2026-06-01T12:00:00+00:00", 2, 3]
    out = []
    for v in vals + [x for x in extra if all(ordered(x) != ordered(y) for y in vals)]:
        reqs = [mkreq(rattrs={"v": v}), mkreq(ctx={"now": v, "auth_level": v})]
        if not isinstance(v, (dict, list)):
            reqs.append(mkreq(rid=v, ctx={"auth_level": 2}))
        for r in reqs:
            for strict in (False, True):
                for first in (0, 1):
                    out.append({"fam": "tag_inj-search", "lits": True, "cache": ["lru", BIG], "facts": [],
                                "g1": {"strict": strict, "policy": pair["P"], "ttl": None},
                                "g2": {"strict": strict, "policy": pair["Q"], "ttl": None},
                                "h": [["e", first, r], ["e", 1 - first, r], ["e", first, r]]})
    return out


def check_tagpairs(chk, pairs, replay=False):
    from rbacx.core.engine import Guard

    for pr in pairs:
        P, Q = materialise(pr["P"]), materialise(pr["Q"])
        e1, e2 = Guard(P).policy_etag, Guard(Q).policy_etag
        chk.mark(("tagpair", pr.get("name"), pr.get("site")), bool(e1) and bool(e2))
        chk.count("fam:tag_inj")
        if not e1 or not e2:
            chk.count("tag_inj:no_etag_(caching_off)")
            continue
        if e1 != e2:
            chk.count("tag_inj:distinct_etags")
            continue
        if same_json_value(pr["P"], pr["Q"]):
            chk.count("tag_inj:one_etag_for_one_JSON_value_(key_order)")
            continue
        # two policies that are not the same JSON value have ONE etag: the hypothesis tag_inj of c08_transparent fails on
        # the implementation.  Look for the failing input.
        chk.count("tag_inj:REFUTED")
        before = len(chk.violations)
        check_cases(chk, separating_histories(pr), replay=replay)
        if len(chk.violations) == before:
            chk.corr_break("hypothesis tag_inj of c08_transparent / c08_invariant fails on the implementation: two policies that "
                           "are not the same JSON value get one policy_etag (%s literal %s at %s); no request of the search "
                           "separated them" % (pr.get("name"), json.dumps(pr.get("values"), default=repr)[:120], pr.get("site")),
                           {k: v for k, v in pr.items() if not k.startswith("_")}, impl={"etag": e1}, theorems=THEOREMS)


# --------------------------------------------------------------------------
# requests carrying values that are NOT JSON (the slow path of the cache key) x type modes x shared cache
# --------------------------------------------------------------------------
# Any request of the pools can carry ("ride") a value json.dumps cannot print — a datetime, date, time, Decimal,
# tuple, set, frozenset, bytes, an application object — somewhere in subject / resource / context: as an attribute
# nobody reads, nested in a list / object, or as the id itself.  The engine then builds the key on another code
# path; everything the key must keep apart for plain-JSON requests (type mode, policy, roles, context, JSON type of
# the other values) it must keep apart there too.  Judged like every history: engine with the cache vs a fresh
# uncached engine with the same current policy in the same type mode (the Coq model has JSON values only).
DT0, DT1, DTM = "2026-10-02T12:00:00+00:00", "2026-10-03T12:00:00+00:00", "2026-10-01T12:00:00+00:00"
NJ_VALUES = [
    ("dt-aware", lit("datetime", DT0)), ("dt-naive", lit("datetime", "2026-10-02T12:00:00")),
    ("date", lit("date", "2026-10-02")), ("time", lit("time", "12:30:00")), ("decimal", lit("decimal", "1.50")),
    ("tuple", lit("tuple", [1, "a"])), ("set", lit("set", ["a"])), ("frozenset", lit("frozenset", [1])),
    ("bytes", lit("bytes", "78")), ("object", lit("object", "tok")), ("tuple-of-dt", lit("tuple", [lit("datetime", DT0), 1])),
]
NJ_SITES = ["rattr", "sattr", "ctx", "rattr-list", "sattr-obj", "ctx-deep", "rid", "sid", "rattr+ctx"]
CARRIED = "carried"     # an attribute name no policy of the pools reads


def ride(req, site, v):
    """the request `req` carrying the value v at `site`"""
    r = copy.deepcopy(req)
    if site in ("rattr", "rattr+ctx"):
        r["resource"]["attrs"][CARRIED] = v
    if site == "sattr":
        r["subject"]["attrs"][CARRIED] = v
    if site in ("ctx", "rattr+ctx"):
        r["context"][CARRIED] = v
    if site == "rattr-list":
        r["resource"]["attrs"][CARRIED] = [0, v]
    if site == "sattr-obj":
        r["subject"]["attrs"][CARRIED] = {"k": v}
    if site == "ctx-deep":
        r["context"][CARRIED] = {"k": [v, 1]}
    if site == "rid":
        r["resource"]["id"] = v
    if site == "sid":
        r["subject"]["id"] = v
    return r


def all_riders():
    return [(s, n, v) for s in NJ_SITES for n, v in NJ_VALUES]


NOW, EXPIRES = {"attr": "context.now"}, {"attr": "resource.attrs.expires"}
NJPOL = {
    # lax and strict decide these differently: level "1" / 1 / 1.0 / True against 1, id "7" against 7
    "modes": {"algorithm": "deny-overrides", "rules": [
        _rule("z1", "permit", resource={"type": "doc", "attrs": {"level": 1}}),
        _rule("z2", "deny", actions=["write"], resource={"type": "doc", "id": 7})]},
    "modes2": {"algorithm": "first-applicable", "rules": [
        _rule("y1", "permit", resource={"type": "doc", "id": 7}),
        _rule("y2", "deny", condition={"==": [{"attr": "resource.attrs.level"}, "1"]}),
        _rule("y3", "permit", actions=["*"], resource={})]},
    # the values that are not JSON are what the policy reads (strict mode wants aware datetimes, lax parses strings)
    "time": {"algorithm": "first-applicable", "rules": [
        _rule("t1", "permit", resource={"type": "doc", "attrs": {"n": 1}}, condition={"before": [NOW, EXPIRES]}),
        _rule("t2", "deny", condition={"after": [NOW, EXPIRES]}),
        _rule("t3", "permit", resource={"type": "doc", "id": 7}, condition={"between": [NOW, {"attr": "context.window"}]},
              obligations=[{"type": "require_mfa"}]),
        _rule("t4", "deny", actions=["*"], resource={})]},
    "time2": {"algorithm": "deny-overrides", "rules": [
        _rule("u1", "permit", condition={"==": [EXPIRES, {"attr": "context.deadline"}]}),
        _rule("u2", "deny", resource={"type": "doc", "attrs": {"n": "1"}}, condition={"before": [EXPIRES, NOW]}),
        _rule("u3", "permit", actions=["read", "write"], condition={"in": [{"attr": "context.day"}, {"attr": "resource.attrs.days"}]})]},
    "dec": {"algorithm": "first-applicable", "rules": [
        _rule("q1", "permit", resource={"type": "doc", "attrs": {"amount": 1}}),
        _rule("q2", "deny", condition={"==": [{"attr": "resource.attrs.amount"}, 1.5]}),
        _rule("q3", "permit", condition={"in": [{"attr": "subject.attrs.dept"}, {"attr": "context.depts"}]}),
        _rule("q4", "deny", condition={"hasAny": [{"attr": "context.depts"}, ["ops", "hr"]]}),
        _rule("q5", "permit", actions=["*"], resource={})]},
    "dec2": {"algorithm": "permit-overrides", "rules": [
        _rule("w1", "permit", resource={"id": "7"}, condition={">": [{"attr": "resource.attrs.amount"}, 1]}),
        _rule("w2", "deny", condition={"contains": [{"attr": "context.depts"}, {"attr": "subject.attrs.dept"}]})]},
}
NJQUADS = {
    "modes": (("modes", "modes2"), [mkreq(rattrs={"level": "1"}), mkreq(rattrs={"level": 1}), mkreq(rid=7, rattrs={"level": 1.0}),
                                    mkreq(rid="7", action="write", rattrs={"level": True})]),
    "time": (("time", "time2"), [
        mkreq(rattrs={"n": "1", "expires": lit("datetime", DT1)}, ctx={"now": lit("datetime", DT0)}),
        mkreq(rattrs={"n": 1, "expires": lit("datetime", DT1)}, ctx={"now": lit("datetime", DT0)}),
        mkreq(rattrs={"n": "1", "expires": lit("datetime", DT1)}, ctx={"now": DT0}),          # the string that spells it
        mkreq(rid=7, rattrs={"n": 2, "expires": DTM, "days": lit("tuple", [lit("date", "2026-10-02")])},
              ctx={"now": lit("datetime", DT0), "window": [lit("datetime", DTM), lit("datetime", DT1)], "mfa": True,
                   "deadline": DTM, "day": lit("date", "2026-10-02")})]),
    "dec": (("dec", "dec2"), [
        mkreq(rattrs={"amount": lit("decimal", "1")}, sattrs={"dept": "ops"}, ctx={"depts": lit("tuple", ["ops", "hr"])}),
        mkreq(rattrs={"amount": "1"}, sattrs={"dept": "ops"}, ctx={"depts": lit("tuple", ["ops", "hr"])}),
        mkreq(rattrs={"amount": lit("decimal", "1.5")}, sattrs={"dept": "ops"}, ctx={"depts": lit("set", ["ops"])}),
        mkreq(rid=7, rattrs={"amount": lit("decimal", "2")}, sattrs={"dept": lit("bytes", "6f7073")}, ctx={"depts": ["ops", "hr"]})]),
}
# quadruples of the plain-JSON pools that get a rider (not the object-valued attribute quadruples: finding F16 is
# about those and is looked for where its class predicate was written, on plain-JSON requests)
NJ_BASE_QUADS = ["num", "ids", "roles", "ctx", "ctxw"]
NJ_QUAD_NAMES = sorted(NJQUADS) + NJ_BASE_QUADS


def nj_quad(q):
    if q in NJQUADS:
        (pa, pb), rs = NJQUADS[q]
        return [NJPOL[pa], NJPOL[pb]], rs
    (pa, pb), rs = QUADS[q]
    return [POL[pa], POL[pb]], rs


def nj_configs():
    """engines sharing the cache: same policy in the OTHER type mode (both orders, reference-storing and pickling
    caches), another policy in the other / the same mode; and one engine alone in either mode"""
    return [cfg(("lru", BIG), None, False, two="same", strict2=True), cfg(("lru", 2), TTL, True, two="same", strict2=False),
            cfg(("pickle",), None, False, two="same", strict2=True), cfg(("dict",), None, False, two="other", strict2=True),
            cfg(("pickle",), TTL, True, two="other", strict2=True), cfg(("lru", 1), TTL, False, two="other", strict2=False),
            cfg(("lru", 2), TTL, False), cfg(("dict",), None, True)]


def nj_case(c, q, word, rider, mask, rot, fam):
    """like expand(): the word over letters(c), requests of quadruple q rotated by `rot`, request i carrying `rider`
    (site, name, value) when mask[i]"""
    pols, rs = nj_quad(q)
    rs = rs[rot % len(rs):] + rs[:rot % len(rs)]
    if rider is not None:
        rs = [ride(r, rider[0], rider[2]) if mask[i % len(mask)] else r for i, r in enumerate(rs)]
    al = letters(c)
    h = []
    for i in word:
        x = al[i]
        if x[0] == "e":
            h.append(["e", x[1], rs[x[2]]])
        elif x[0] == "p":
            h.append(["p", x[1], pols[x[2]]])
        else:
            h.append(list(x))
    g2pol = pols[1] if c["two"] == "other" else pols[0]
    return {"fam": fam, "lits": True, "cache": c["cache"],
            "g1": {"strict": c["strict1"], "policy": pols[0], "ttl": c["ttl"]},
            "g2": {"strict": c["strict2"], "policy": g2pol, "ttl": c["ttl2"]}, "facts": FACTS, "h": h,
            "_key": (fam, json.dumps(c, sort_keys=True), q, tuple(word), None if rider is None else rider[:2], tuple(mask), rot)}


NJ_MASKS = [(1, 1, 1, 1), (1, 0, 1, 1), (0, 1, 1, 0)]


def nonjson_enum(rng, riders_per_combo, maxlen, n_longer, fam="nonjson-enum"):
    """for every (configuration, quadruple): `riders_per_combo` riders (a seeded choice; the quadruples whose own
    values are not JSON also run without a rider), ALL words of length <= maxlen and n_longer seeded words of length
    maxlen+1 .. maxlen+2"""
    riders = all_riders()
    for c in nj_configs():
        nl = len(letters(c))
        for q in NJ_QUAD_NAMES:
            chosen = rng.sample(riders, riders_per_combo)
            if q in ("time", "dec"):
                chosen[0] = None
            for rider in chosen:
                mask, rot = rng.choice(NJ_MASKS), rng.randrange(4)
                for wd in enum_words(nl, maxlen):
                    yield nj_case(c, q, wd, rider, mask, rot, fam)
                for _ in range(n_longer):
                    wd = [rng.randrange(nl) for _ in range(rng.randint(maxlen + 1, maxlen + 2))]
                    yield nj_case(c, q, wd, rider, mask, rot, fam + "-longer-sampled")


def nonjson_sweep():
    """EVERY (site, value) rider on the requests of the quadruples the two type modes decide differently: the two
    engines (same policy, other mode, one cache) evaluate the same requests one after the other, both orders"""
    n = 0
    for rider in all_riders():
        for q in ("modes", "ids"):
            pols, rs = nj_quad(q)
            for first in (0, 1):
                n += 1
                a, b = first, 1 - first
                rr = [ride(r, rider[0], rider[2]) for r in rs]
                cache = [["lru", BIG], ["pickle"], ["dict"], ["lru", 2]][n % 4]
                pol = pols[(n // 4) % 2]
                yield {"fam": "nonjson-sweep", "lits": True, "cache": cache, "facts": FACTS,
                       "g1": {"strict": False, "policy": pol, "ttl": [None, TTL][n % 2]},
                       "g2": {"strict": True, "policy": pol, "ttl": [None, TTL][n % 2]},
                       "h": [["e", a, rr[0]], ["e", b, rr[0]], ["e", a, rr[1]], ["e", b, rr[1]], ["e", b, rr[2]], ["e", a, rr[2]],
                             ["e", a, rr[3]], ["e", b, rr[3]], ["e", a, rr[0]], ["e", b, rs[0]], ["e", a, rs[0]]],
                       "_key": ("nonjson-sweep", rider[:2], q, first)}


def nonjson_random(rng, lo, hi):
    """a random history over the whole pools (random_history) in which every distinct request carries, with
    probability 0.6, a rider of its own"""
    case = random_history(rng, lo, hi)
    riders = all_riders()
    chosen = {}
    h = []
    for op in case["h"]:
        if op[0] == "e":
            k = ordered(op[2])
            if k not in chosen:
                chosen[k] = rng.choice(riders) if rng.random() < 0.6 else None
            rd = chosen[k]
            op = [op[0], op[1], op[2] if rd is None else ride(op[2], rd[0], rd[2])]
        h.append(op)
    case.update({"fam": "random-nonjson", "lits": True, "h": h})
    return case


def modes_differ(case, res):
    """does the history show one request that the two engines (one policy text, different type modes) decide
    differently when asked WITHOUT a cache?  (evidence that the family reaches the interaction; never a verdict)"""
    seen = {}
    for (w, req, pol, strict), r in zip(evals_of(case), res):
        k = (ordered(req), canon(pol))
        for strict2, u in seen.get(k, []):
            if strict2 != strict and u != canon(r["uncached"]):
                return True
        seen.setdefault(k, []).append((strict, canon(r["uncached"])))
    return False


def corpus_cases():
    d = lib.VERIF / "corpus" / "C08"
    out = []
    if d.is_dir():
        for f in sorted(d.glob("*.json")):
            data = json.loads(f.read_text())
            for c in data.get("cases", []):
                what = c.get("what")
                c = lib.unjson(c["case"] if "case" in c else c)
                c["fam"] = "corpus:" + f.stem
                out.append(c)
    return out


def chunks(it, n):
    buf = []
    for x in it:
        buf.append(x)
        if len(buf) >= n:
            yield buf
            buf = []
    if buf:
        yield buf


def stop_early(chk):
    return len(chk.violations) >= 8 or len(chk.corr_breaks) >= 12


def run(chk):
    quick = chk.tier == "quick"
    rng = chk.rng
    chk.rule = ("histories of {evaluate(guard, request), set_policy/update_policy(guard, policy), clear_cache(guard), "
                "clock += 3 s (past the 2 s TTL), clock += 1 s} on one or two Guards sharing one cache. Enumerated completely: "
                "all histories of length <= 3 plus a seeded third of those of length 4 (thorough: ALL of length <= 5) over the 9-letter one-guard alphabet {eval r1..r4, set A, set B, "
                "clear, tick past, tick below} for each of 7 quadruples of near-duplicate requests (1 / 1.0 / True / '1'; role "
                "order and roles-vs-attribute; key order of an object-valued attribute; contexts deciding obligations; id types "
                "and id-vs-attribute) with DefaultInMemoryCache(2), cache_ttl=2; all histories of length <= 2 plus a seeded half of "
                "those of length 3 (thorough: ALL of length <= 4 for three of the quadruples, <= 3 for the others) over the 12-letter two-guard alphabet for second guard = other policy / same "
                "policy in the other type mode, caches LRU(1), LRU(2), dict, pickling; thorough also length <= 4 one-guard "
                "histories on LRU(1) strict, LRU(64) no TTL, dict, pickling; all unordered pairs of the %d-request pool; A->B->A replacement scripts; a "
                "seeded sample of words across capacities {0,1,2,64}, TTL {None,0,2}, both type modes, one/two guards; seeded "
                "random histories of length <= 60 over 14 policies (first-applicable / deny- / permit-overrides, policy sets, "
                "obligations that fail and succeed, rel, between). Engines WITH A ROLE RESOLVER (cached vs uncached on the implementation, "
                "and hit flag + Decisions against the model with a resolver per guard, CacheGuardR.run_cachedR / run_refR through the "
                "runner entry cg.batchR, resolver edits included): StaticRoleResolver over a small hierarchy, sync and async, that can be switched off (expand raises; "
                "Guard falls back to the subject's own roles); policies testing subject.roles by hasAny/hasAll/in/==/contains; "
                "alphabet {eval r1..r3, grant / revoke the edge manager->employee in place, resolver down, resolver up, set A, "
                "set B, clear, tick}: all histories of length <= 3 (thorough <= 4) for 4 one-engine configurations (LRU(2), "
                "LRU(64) async initially down, dict, pickling strict) and 3 two-engine configurations sharing the cache (same "
                "policy text with another hierarchy; another policy), plus seeded random histories of length 6-40. "
                "NEAR-DUPLICATE TEXT: %d pairs of different values that a normalising key function might identify (surrogate-escaped "
                "and lone-surrogate spellings, NFC/NFD/NFKC, case, leading/trailing/inner/no-break whitespace, NUL, full-width "
                "digits, zero-width characters, BOM, escaped text, prefixes, bytes-repr look-alikes, quoted / JSON-structure "
                "look-alikes, 300-character strings differing in the last character, homoglyphs, str vs None/True/1/1.0/[..]) x 8 "
                "positions (resource id / attribute / type, subject id / attribute, role name, context value, action) with a policy "
                "that permits exactly the first value by == / exact match, both orders, one and two guards, four caches (pairs "
                "with text outside printable ASCII are judged on the implementation alone). THE HYPOTHESIS tag_inj ON THE "
                "IMPLEMENTATION: %d policy pairs differing in one near-duplicate literal (1/1.0/True/'1', None/'None', 'a'/['a'], "
                "NFC/NFD, datetime/date/time/Decimal/tuple/set/bytes literal vs the strings str(), repr(), isoformat() spell them, "
                "object key order) at 6 sites (== operand, in-list member, resource id, resource attribute constraint, before "
                "operand, obligation attrs): Guard(p).policy_etag of both; one etag (not None) for two policies that are not the "
                "same JSON value refutes tag_inj, and then histories 'one engine evaluates, the other sharing the cache evaluates "
                "the same request' are searched for the failing input. "
                "CACHE COLLABORATORS THAT PROTECT THEIR ENTRIES OR ARE FALSY (compared with the model like LRU / dict / pickling: a "
                "read-only view or a snapshot taken at get() is a reference-storing cache to a reader that cannot write, a falsy "
                "cache object is the cache it implements): get() returning types.MappingProxyType views of the stored mapping (dict- "
                "and DefaultInMemoryCache-backed), get() returning an immutable snapshot (read-only view of a private deep copy), "
                "deep copies at set() and get(), a FROZEN deep copy stored at set() and handed to every reader, deep copy at set() "
                "with a read-only view at get(); a dict SUBCLASS implementing get/set/delete/clear (empty = falsy at construction), "
                "a cache with __len__ = number of entries, a DefaultInMemoryCache with __bool__ False: per kind ALL histories of "
                "length <= 2 (thorough <= 3) over the one-guard alphabet for the quadruples whose permits carry obligations the "
                "context meets / does not meet (ctx, ctxw; thorough also num, ids, and a strict engine) and over the two-guard "
                "alphabet (other policy; thorough also same policy in the other mode), seeded longer words, seeded samples across "
                "TTL {None,0,2} x modes x one/two guards and seeded random histories over the whole pools on these kinds; the "
                "resolver histories draw them too. "
                "REQUESTS CARRYING VALUES THAT ARE NOT JSON (the slow path of the cache key; judged on the implementation alone): "
                "%d values (aware / naive datetime, date, time, Decimal, tuple, set, frozenset, bytes, an application object, a tuple "
                "holding a datetime) x %d sites (an unread attribute of resource / subject / context, nested in a list / object, both "
                "resource and context, the resource id, the subject id) ride on the requests of 5 plain-JSON quadruples and of three "
                "more (level '1'/1/1.0/True and id '7'/7 that lax and strict decide differently; before/after/between/==/in on "
                "datetimes incl. the string that spells one; Decimal/tuple/set/bytes operands), on 8 configurations: two engines "
                "sharing the cache with the SAME policy in the OTHER type mode (both orders; LRU(64), LRU(2), pickling), another "
                "policy in the other / the same mode (dict, pickling, LRU(1)), one engine alone lax / strict: per (configuration, "
                "quadruple) a seeded rider (thorough: 6), ALL words of length <= 2 over the two-guard / one-guard alphabets plus seeded "
                "longer ones; EVERY (site, value) rider in an 11-evaluation script 'lax engine, strict engine, same request' (both "
                "orders, both mode-sensitive quadruples, four caches); seeded random histories over the whole pools whose requests "
                "carry riders. "
                "Every evaluation is compared with a fresh uncached Guard holding the same current policy and the same collaborator "
                "objects (all Decision fields, type-exact) and, where the model speaks, with the model (hit flag + Decision). non-trivial = at least one "
                "evaluation of the history was served from the cache; distinct = distinct (configuration, history)"
                % (len(REQS), len(TEXT_PAIRS), sum(1 for _ in tag_pairs()), len(NJ_VALUES), len(NJ_SITES)))
    chk.assumptions = [
        "requests and policies are JSON values (None, bool, int, float, str, list, dict with str keys) in the families compared "
        "with the model; the families 'nonjson-*' / 'random-nonjson' put datetime / date / time / Decimal / tuple / set / frozenset / "
        "bytes / application-object values (stable repr, str = repr) into requests and the corpus replays a history with a "
        "datetime-valued context entry (fixed finding F26): cached and uncached answers must agree there too, judged on the "
        "implementation alone (the statement itself: engine with the cache vs engine without, same policy, same type mode). "
        "The quadruples with object-valued resource attributes of >= 2 keys (finding F16) get no rider in the enumerated non-JSON "
        "families; in random-nonjson histories F16's class predicate applies unchanged (a rider is another attribute). Dicts with "
        "non-str keys are not generated",
        "both guards use the built-in obligation checker (a second guard with ANOTHER checker sharing a reference-storing cache "
        "is outside the statement's quantifier; the model exhibits the leak of raw['reason'] there: c08_other_checker_leaks)",
        "custom caches keep the contract `get returns what set stored`: the read-only kinds hand out VIEWS / snapshots taken "
        "at get() of the stored mapping, or freeze a deep COPY at set() (fixed finding F27: the engine used to write the "
        "reason 'obligation_failed' into the entry; on a frozen copy the write raised, was swallowed, and a refused permit served "
        "from the cache was reported with reason 'matched'; witness corpus/C08/F27_frozen_entry_reason.json)",
        "the relationship checker is a fixed set of facts (no state)",
        "role resolver: read as part of 'the same engine configuration' — the uncached engine the statement compares with holds "
        "the same current policy AND the same collaborator objects at the same point of the history, so a resolver whose answers "
        "change (hierarchy edited in place, backend down and up again) is inside the quantifier: the cached engine must follow it, "
        "which the code does by putting the EXPANDED roles into the key. MODEL-JUDGED since CacheGuardRRun.v (entries cg.runR / "
        "cg.batchR of the cacheguard runner, decoding into CacheGuardR.run_cachedR / run_refR of theorem "
        "c08_transparent_with_resolver): every history of the families resolver-enum and resolver-random, and any corpus / replay "
        "history, whose guards have no resolver or a StaticRoleResolver over a str -> [str] hierarchy behind an on/off switch "
        "(sync or async flavour: same answers), with the operations grant / revoke (hierarchy edited in place), down / up "
        "(expand raises: own roles kept) between evaluations and subjects' roles lists of str — hit flag, cached Decision and "
        "uncached Decision are compared with the model like the resolver-free histories (a difference only there is a broken "
        "correspondence; cached != uncached on the implementation stays the violation). The model reads an edited resolver as an "
        "oracle whose state is the list of resolver configurations in force at the evaluations still to come (Guard calls "
        "expand exactly once per evaluation, before the cache lookup); static expansion is C18's Roles.expand. Resolver shapes "
        "the entry cannot decode (any other resolver class or configuration key, non-str role names or hierarchy) stay judged "
        "on the implementation alone and are counted under coverage.resolver_histories.implementation_only (none are generated "
        "at present). A dozen short resolver histories per run are also sent as single cg.runR lines: they must give the "
        "batch's answer and are what the vm_compute cross-check of the extracted runner re-evaluates inside Coq",
        "time.monotonic is scripted (constant during an operation); clock readings and TTLs are small integers, exact in floats",
        "sequential histories: no set_policy runs during an evaluation (C09 covers the races)",
        "policy tags: hypothesis tag_inj of the theorems (distinct policies of a history have distinct etags) is TESTED on the "
        "implementation over the literal-pair pool above; sha3_256 itself is assumed collision-free. Policies equal up to the key "
        "order of objects are one JSON value and share an etag by design. Left out of the pool because the UNCHANGED engine already "
        "gives them one etag although they are decided differently (Python-built policies only; reported, not listed): a tuple "
        "literal vs the list with the same items, an int dict key vs the str key, and an object-valued resource constraint in "
        "another key order (the class of F23/F16 seen from the policy side)",
    ]
    chk.extra["F16_switch"] = "model run with sort_keys normalisation = what the implementation shows on the probe"
    # 0. corpus first
    cc = corpus_cases()
    if cc:
        check_cases(chk, cc)
    one = cfg(("lru", 2), TTL, False)
    # the largest family: complete to length 3 and one (seeded) third of length 4 in quick; complete to length 5 in thorough
    fams = [enum_family(one, QUAD_NAMES, 4, "enum1", top_stride=3, offset=rng.randrange(3))] if quick \
        else [enum_family(one, QUAD_NAMES, 5, "enum1")]
    two_cfgs = [cfg(("lru", 2), TTL, False, two="other"), cfg(("lru", 1), TTL, False, two="same", strict2=True),
                cfg(("dict",), None, False, two="other", strict2=True), cfg(("pickle",), TTL, True, two="same", strict2=False)]
    qsel = ["num", "meta", "ctx"]
    for c2 in two_cfgs:
        if quick:   # complete to length 2, a seeded half of length 3
            fams.append(enum_family(c2, qsel, 3, "enum2", top_stride=2, offset=rng.randrange(2)))
        else:
            fams.append(enum_family(c2, qsel, 4, "enum2"))
        if not quick:
            fams.append(enum_family(c2, [q for q in QUAD_NAMES if q not in qsel], 3, "enum2"))
    if not quick:
        for c1 in (cfg(("lru", 1), TTL, True), cfg(("lru", BIG), None, False), cfg(("dict",), TTL, False), cfg(("pickle",), 0, True)):
            fams.append(enum_family(c1, qsel, 4, "enum1b"))
    # engines with a role resolver (implementation vs implementation, and both against the CacheGuardR model)
    r_one = [rcfg(("lru", 2), TTL), rcfg(("lru", BIG), None, down1=True, asyn=True), rcfg(("dict",), TTL, graph1=GRAPH_FLAT),
             rcfg(("pickle",), TTL, down1=True, strict=True)]
    r_two = [rcfg(("lru", BIG), TTL, two="graph"), rcfg(("lru", 2), None, two="policy", asyn=True),
             rcfg(("dict",), TTL, two="graph", graph1=GRAPH_FLAT, graph2=GRAPH_FULL, down1=True)]
    # first in line: its single cg.runR lines are then among the runner's first lines, which lib.extraction_crosscheck keeps
    fams.insert(0, resolver_enum(r_one + r_two, 3 if quick else 4))
    for fam in fams:
        for ch in chunks(fam, 6000):
            if stop_early(chk):
                break
            check_cases(chk, ch)
    # exhaustive = the enumerated families named "complete" in chk.rule were run completely (quick: one-guard length <= 3,
    # two-guard length <= 2, resolver length <= 3; the next length is a seeded residue class; thorough: everything named)
    chk.exhaustive = not stop_early(chk)
    chk.extra["enumerated_complete_to_length"] = ({"one_guard": 3, "two_guards": 2, "resolver": 3} if quick
                                                  else {"one_guard": 5, "two_guards": 4, "resolver": 4})
    if not stop_early(chk):
        check_cases(chk, list(tag_pairs()))
    for gen in (text_cases(), pair_cases(quick), replacement_cases()):
        for ch in chunks(gen, 6000):
            if not stop_early(chk):
                check_cases(chk, ch)
    # requests carrying values that are not JSON (slow path of the key) x type modes x shared cache
    nj = nonjson_enum(rng, 1, 2, 30) if quick else nonjson_enum(rng, 6, 2, 150)
    for gen in (nonjson_sweep(), nj, (nonjson_random(rng, 8, 40) for _ in range(120 if quick else 2500))):
        for ch in chunks(gen, 6000):
            if not stop_early(chk):
                check_cases(chk, ch)
    # cache kinds that protect their entries (read-only views, frozen snapshots, deep copies) and falsy cache objects
    pf = protective_and_falsy_configs()
    for gen in (cache_kind_families(rng, quick), sample_family(rng, pf, 500 if quick else 15000, 3, 6, "sample-cache-kinds"),
                (dict(random_history(rng, 8, 60, pf), fam="random-cache-kinds") for _ in range(60 if quick else 1500))):
        for ch in chunks(gen, 6000):
            if not stop_early(chk):
                check_cases(chk, ch)
    n_s, n_r = (5000, 700) if quick else (60000, 6000)
    for ch in chunks(sample_family(rng, all_configs(), n_s, 3, 6, "sample"), 6000):
        if not stop_early(chk):
            check_cases(chk, ch)
    for ch in chunks((random_history(rng, 8, 60) for _ in range(n_r)), 1500):
        if not stop_early(chk):
            check_cases(chk, ch)
    for ch in chunks((resolver_random(rng, 6, 40) for _ in range(400 if quick else 6000)), 1500):
        if not stop_early(chk):
            check_cases(chk, ch)
