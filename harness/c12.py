"""C12 — local ReBAC checker = bounded least fixpoint; limits only fail closed.

Correspondence: rbacx.rebac.local.LocalRelationshipChecker.check / batch_check (and
the in-memory store lookups, _split_ref) against the extracted Coq model Rebac
(runner "rebac").  time.perf_counter_ns is scripted test-side, so the deadline is
an input of the case exactly as the oracle `hit` is a parameter of the model.

Verdicts (theorems of coq/props/C12.v in brackets):
* implementation True while the model-computed `within` (= derivable within
  max_depth, c12_within_b_spec) is False        -> violation [c12_sound]
* the model's run ends without any limit firing (outcome true/end): that answer is
  the only one the property allows [c12_exact/c12_complete]; a different
  implementation answer                          -> violation
* the model's run ends by a limit (nodes/deadline, answer False) and the
  implementation says True although `within`     -> correspondence break
* check raising                                   -> violation (it must answer)
* batch_check in a deadline-free run != the individual checks -> violation [c12_batch]

A case is a *group*: one store/rules/registry/context with several queries and
several limit settings, each (query, limits) pair being one evaluation; replay
files hold a group with exactly the failing pair(s).

  case = {"store": [[subject, relation, resource, caveat|None], ...],
          "rules": {type: {relation: EXPR} | None} | None,
          "reg":   {caveat name: predicate kind} | None,  "ctx": dict | None,
          "queries": [[s, r, o], ...],
          "limits":  [[max_depth|None, max_nodes|None, deadline_ms|None, start, [reads...], rest], ...],
          "batches": [{"triples": [...], "limit": [md, mn, dms], "scripts": [[start, reads, rest], ...]}],
          "expect":  optional [[bool per limits] per query]  (corpus witnesses)}
  EXPR = "this" | ["cu", r] | ["ttu", tupleset, computed] | ["union", [EXPR...]] | ["unknown", kind]
  None for a limit means "constructor default" (8 / 10000 / 50 per docs/rebac/local.md).

A *history* case (key "ops") is a sequence of calls on checker instances that live as long as the
history, over one store that grows meanwhile:

  hist = {"store": [tuples added before anything else], "rules": ..., "reg": {name: kind},
          "checkers": [[max_depth|None, max_nodes|None, deadline_ms|None], ...]   (all over the one store),
          "shared_ctx": bool   (one dict object, rewritten in place, carries every non-None context),
          "ops": [["add", s, r, o, caveat|None]
                  | ["check", checker index, [s, r, o], ctx, [start, [reads...], rest] | None]
                  | ["batch", checker index, [[s, r, o], ...], ctx]   (clock constantly 0), ...],
          "expect": optional [answer per op, None for add]  (corpus witnesses)}

* an answer of a history differs from the answer of a FRESH checker over a FRESH store holding the
  same tuples, for the same single query, context, limits and clock script -> violation: the answer
  of a check is a function of store, rules, registry, limits and the supplied context, not of
  earlier calls (judged on the implementation alone; c12_exact/c12_batch state it for the model,
  which is a pure function of exactly those).  A batch is compared per triple with single fresh checks.
* then every answer is judged against the model as above.
A *concurrent* case (key "threads") is a set of real threads calling one shared checker:

  conc = {"store": ..., "rules": ..., "reg": ..., "checker": [max_depth, max_nodes, deadline_ms],
          "threads": [[["check", [s, r, o], ctx] | ["batch", [[s, r, o], ...], ctx], ...] per thread],
          "level": "hook" | "line" | "free",
          "sched": [[thread, grants | None = to completion], ...] (then the rest to completion, in index order)
                   | {"kind": "single" | "rr" | "random", ...}   (expanded when the case is run)}

  level "hook": cooperative scheduler whose stop points are the test-side code the checker calls (every clock read
  = once per call + once per visited node, every caveat predicate call); exactly one thread runs at a time, so a
  run is a function of `sched`.  level "line": harness/sched.py (sys.settrace) with a stop point before every
  source line of rbacx/rebac/local.py, two threads.  level "free": free-running threads released by a barrier,
  predicates and the clock yield (time.sleep) - the schedule is sampled, not controlled.
* every answer must equal the answer of a fresh checker asked alone (sequentially) -> else violation: the answer
  of a check does not depend on other checks in flight (no limit was reached by that check itself).  The clock is
  constant, so no deadline interferes.  Then every answer is judged against the model.

A *helper-history* case (key "hops") is a history of calls of rbacx.rebac.helpers.standard_userset in one process
(the helper module is freshly loaded at its start), the rule maps of several object types being results of
different calls.  It is judged against the DOCUMENTED meaning of the helper written down here
(spec_standard_userset), never against what the helper returns:

  hcase = {"hops": [["call", {"parent_rel": str|None, "with_group_grants": bool}  (an omitted key = the default), "kw"|"pos"]
                    | ["edit", result index, "append"|"add", relation, EXPR]   (the caller extends ITS copy), ...],
           "rules": {type: ["helper", result index] | {relation: EXPR} | None},
           "store", "reg", "ctx", "queries", "limits": as in a group}

* after every op, every result returned so far must be the documented rule map of its own call (plus the caller's
  edits of that very result), up to order / repetition / nesting of union members -> else violation (a result that
  is wrong when returned, or an earlier result changed by a later call: aliasing, shared module state)
* the answers of a LocalRelationshipChecker over the returned maps (put together after the whole history) are judged
  as above by the model run on the SPECIFIED maps (limits that depend on the order of union members are not used)

Predicate kinds "once:<kind>" keep state (first call ever raises, then pure): the call in which that
first call can happen is judged by the lower/upper model (predicate raising / pure): never True
outside the upper `within`, and equal to both when they agree with no limit fired.
"""
import copy
import itertools
import json
import threading
import time as _time

import lib

DEFAULTS = (8, 10000, 50)
START = 1000
ABSENT = object()

# --------------------------------------------------------------------------
# caveat predicates (test-side); the model is told their value on the context
# --------------------------------------------------------------------------


class _BadBool:
    def __bool__(self):
        raise RuntimeError("no truth value")


def _raise(ctx):
    raise ValueError("predicate failed")


PREDS = {
    "T": lambda ctx: True,
    "F": lambda ctx: False,
    "R": _raise,
    "truthy": lambda ctx: "yes",
    "one": lambda ctx: 1,
    "zero": lambda ctx: 0,
    "nil": lambda ctx: None,
    "empty": lambda ctx: [],
    "badbool": lambda ctx: _BadBool(),
    "ctx": lambda ctx: ctx["ok"],
    "none": None,  # registered as None: `pred is None`
}
# context-reading kinds used by the history families only (the older families keep drawing from PREDS)
HPREDS = dict(PREDS)
HPREDS.update({
    "nok": lambda ctx: not ctx["ok"],                 # raises on None / missing key, true where "ctx" is false
    "hour": lambda ctx: 9 <= ctx["hour"] < 18,        # raises on None / missing key / non-number
    "isnone": lambda ctx: ctx is None,                # tells None from {}
    "get": lambda ctx: (ctx or {}).get("ok"),         # never raises
})
_PRED_VALUE = {"T": True, "F": False, "R": "raise", "truthy": True, "one": True, "zero": False,
               "nil": False, "empty": False, "badbool": "raise", "none": ABSENT}


class Once:
    """stateful predicate 'once:<kind>': its first call ever raises, afterwards it is the pure <kind>.
    (The state is the call count only; `spent` builds it as if the first call had already happened.)"""

    def __init__(self, inner, spent=False):
        self.inner = inner
        self.calls = 1 if spent else 0

    def __call__(self, ctx):
        self.calls += 1
        if self.calls == 1:
            raise LookupError("first call fails")
        return self.inner(ctx)


def pred_value(kind, ctx):
    """what bool(pred(ctx)) is, by the table above (not by calling it).  'once:<kind>' is the value of
    its pure phase."""
    if kind.startswith("once:"):
        kind = kind[5:]
    if kind in ("ctx", "nok"):
        if not isinstance(ctx, dict) or "ok" not in ctx:
            return "raise"
        return bool(ctx["ok"]) == (kind == "ctx")
    if kind == "hour":
        if not isinstance(ctx, dict) or "hour" not in ctx:
            return "raise"
        v = ctx["hour"]
        if not isinstance(v, (int, float)):
            return "raise"
        return 9 <= v < 18
    if kind == "isnone":
        return ctx is None
    if kind == "get":
        return bool(ctx.get("ok")) if isinstance(ctx, dict) else False
    return _PRED_VALUE[kind]


def make_reg(reg, spent):
    """registry of fresh predicate objects for one checker life; returns (registry, {name: Once})."""
    if reg is None:
        return None, {}
    out, onces = {}, {}
    for name, kind in reg.items():
        if kind.startswith("once:"):
            out[name] = onces[name] = Once(HPREDS[kind[5:]], name in spent)
        else:
            out[name] = HPREDS[kind]
    return out, onces


def hist_mreg(reg, ctx, spent, low):
    """model registry for one call of a history: a Once that has not made its first call yet is 'raise' in
    the lower model and its pure value in the upper one."""
    out = {}
    for name, kind in (reg or {}).items():
        v = pred_value(kind, ctx)
        if v is ABSENT:
            continue
        if low and kind.startswith("once:") and name not in spent:
            v = "raise"
        out[name] = v
    return out


def model_reg(reg, ctx):
    out = {}
    for name, kind in (reg or {}).items():
        v = pred_value(kind, ctx)
        if v is not ABSENT:
            out[name] = v
    return out


def conv_expr(L, e):
    if e == "this":
        return L.This()
    if e[0] == "cu":
        return L.ComputedUserset(e[1])
    if e[0] == "ttu":
        return L.TupleToUserset(e[1], e[2])
    if e[0] == "union":
        return [conv_expr(L, x) for x in e[1]]
    if e[0] == "unknown":
        return {"tuple": (L.This(), L.ComputedUserset("editor")), "str": "editor", "int": 7,
                "dict": {"relation": "editor"}, "obj": object()}[e[1]]
    raise ValueError(e)


def conv_rules(L, rules):
    if rules is None:
        return None
    return {ty: (None if m is None else {rel: conv_expr(L, e) for rel, e in m.items()}) for ty, m in rules.items()}


def mlimit(lm):
    md, mn, dms, start, reads, rest = lm
    return [DEFAULTS[0] if md is None else md, DEFAULTS[1] if mn is None else mn,
            DEFAULTS[2] if dms is None else dms, start, list(reads), rest]


def lim(md, mn, dms=50, hit_at=None, boundary=False):
    d = DEFAULTS[2] if dms is None else dms
    deadline = START + d * 1_000_000
    if hit_at is None:
        return [md, mn, dms, START, [], deadline if boundary else START]
    return [md, mn, dms, START, [deadline if boundary else START] * hit_at, deadline + 1]


NOLIMIT = lim(8, 10000)
GRID = [lim(md, mn, 50, h) for md in (-1, 0, 1, 2, 8) for mn in (0, 1, 2, 3, 10000) for h in (None, 0, 1, 2)]
EXTRA = [lim(None, None, None), lim(8, 10000, 0), lim(8, 10000, -1), lim(8, 10000, 50, None, True),
         lim(8, 10000, 1, 1, True), lim(3, 4, None, 3), lim(None, 5, None), lim(2, None, 0, None, True),
         lim(None, None, None, 1), lim(None, None, None, None, True), lim(None, None, None, 2, True)]
FULLGRID = GRID + EXTRA
SMALLGRID = [NOLIMIT, lim(None, None, None), lim(0, 10000), lim(1, 10000), lim(8, 1), lim(8, 2),
             lim(8, 10000, 50, 1), lim(1, 2, 50, 2)]

# --------------------------------------------------------------------------
# implementation side
# --------------------------------------------------------------------------


class Impl:
    def __init__(self):
        from rbacx.rebac import local as L

        self.L = L
        self.real = _time.perf_counter_ns

    def restore(self):
        _time.perf_counter_ns = self.real

    def build(self, case):
        L = self.L
        st = L.InMemoryRelationshipStore()
        for s, r, o, c in case["store"]:
            if c is None:
                st.add(s, r, o)
            else:
                st.add(s, r, o, caveat=c)
        rules = conv_rules(L, case.get("rules"))
        reg = None if case.get("reg") is None else {n: PREDS[k] for n, k in case["reg"].items()}
        return st, rules, reg

    def checker(self, st, rules, reg, md, mn, dms, cls=None):
        kw = {}
        if md is not None:
            kw["max_depth"] = md
        if mn is not None:
            kw["max_nodes"] = mn
        if dms is not None:
            kw["deadline_ms"] = dms
        return (cls or self.L.LocalRelationshipChecker)(st, rules=rules, caveat_registry=reg, **kw)

    def check(self, st, rules, reg, ctx, q, lm, ck=None):
        md, mn, dms, start, reads, rest = lm
        if ck is None:
            ck = self.checker(st, rules, reg, md, mn, dms)
        _time.perf_counter_ns = itertools.chain((start,), reads, itertools.repeat(rest)).__next__
        try:
            return ck.check(q[0], q[1], q[2], context=ctx)
        except Exception as e:  # noqa: BLE001
            return ["!raise", type(e).__name__, str(e)[:80]]
        finally:
            _time.perf_counter_ns = self.real

    def batch(self, case, rules, reg, ctx, b):
        """batch_check on a checker that has already served another batch (other context, store still
        incomplete): nothing of that earlier call may survive in the answers."""
        md, mn, dms = b["limit"]
        scripts = list(b.get("scripts") or [])
        state = {"j": 0, "on": False}
        real = self.real
        L = self.L

        def install():
            if not state["on"]:
                _time.perf_counter_ns = itertools.repeat(0).__next__
                return
            j = state["j"]
            state["j"] = j + 1
            start, reads, rest = scripts[j] if j < len(scripts) else (0, [], 0)
            _time.perf_counter_ns = itertools.chain((start,), reads, itertools.repeat(rest)).__next__

        class Probe(L.LocalRelationshipChecker):
            def check(self, subject, relation, resource, *, context=None):
                install()
                return super().check(subject, relation, resource, context=context)

        st = L.InMemoryRelationshipStore()
        tuples = case["store"]
        k = b.get("prime")
        k = len(tuples) if k is None else min(k, len(tuples))

        def add(ts):
            for s, r, o, c in ts:
                if c is None:
                    st.add(s, r, o)
                else:
                    st.add(s, r, o, caveat=c)

        add(tuples[:k])
        ck = self.checker(st, rules, reg, md, mn, dms, cls=Probe)
        triples = [tuple(t) for t in b["triples"]]
        _time.perf_counter_ns = itertools.repeat(0).__next__
        try:
            if b.get("prime") is not None:
                try:
                    ck.batch_check(triples, context=b.get("prime_ctx"))
                except Exception:  # noqa: BLE001 - judged on the real call below
                    pass
            add(tuples[k:])
            state["on"] = True
            out = ck.batch_check(triples, context=ctx)
            return list(out)
        except Exception as e:  # noqa: BLE001
            return ["!raise", type(e).__name__, str(e)[:80]]
        finally:
            _time.perf_counter_ns = real

    def lookups(self, st, qs):
        out = []
        for kind, a, b in qs:
            ts = st.direct_for_resource(a, b) if kind == "res" else st.by_subject(a, b)
            out.append([[t.subject, t.relation, t.resource, t.caveat] for t in ts])
        return out

    # ---- histories -------------------------------------------------------
    def _store(self, tuples):
        st = self.L.InMemoryRelationshipStore()
        for s, r, o, c in tuples:
            if c is None:
                st.add(s, r, o)
            else:
                st.add(s, r, o, caveat=c)
        return st

    def _run_op(self, ck, op, ctx):
        """one check / batch_check call under its clock script."""
        try:
            if op[0] == "check":
                start, reads, rest = (op[4] if len(op) > 4 and op[4] else (START, [], START))
                _time.perf_counter_ns = itertools.chain((start,), reads, itertools.repeat(rest)).__next__
                q = op[2]
                return ck.check(q[0], q[1], q[2], context=ctx)
            _time.perf_counter_ns = itertools.repeat(0).__next__
            return list(ck.batch_check([tuple(t) for t in op[2]], context=ctx))
        except Exception as e:  # noqa: BLE001
            return ["!raise", type(e).__name__, str(e)[:80]]
        finally:
            _time.perf_counter_ns = self.real

    def history(self, h, ops=None):
        """run the calls of a history on its long-lived checkers; returns ([record | None per op], tuples).
        record = {"a": answer, "n": number of tuples in the store at the call, "spent": names of Once
        predicates that had made their first call before it}."""
        L = self.L
        ops = h["ops"] if ops is None else ops
        st = L.InMemoryRelationshipStore()
        tuples = []

        def add(t):
            s, r, o, c = t
            if c is None:
                st.add(s, r, o)
            else:
                st.add(s, r, o, caveat=c)
            tuples.append([s, r, o, c])

        for t in h.get("store") or []:
            add(t)
        rules = conv_rules(L, h.get("rules"))
        reg, onces = make_reg(h.get("reg"), ())
        cks = [self.checker(st, rules, reg, l[0], l[1], l[2]) for l in h["checkers"]]
        shared = {} if h.get("shared_ctx") else None
        recs = []
        for op in ops:
            if op[0] == "add":
                add(op[1:5])
                recs.append(None)
                continue
            spent = tuple(sorted(n for n, p in onces.items() if p.calls > 0))
            ctx = copy.deepcopy(op[3])
            if shared is not None and ctx is not None:
                shared.clear()
                shared.update(ctx)
                ctx = shared
            recs.append({"a": self._run_op(cks[op[1]], op, ctx), "n": len(tuples), "spent": spent,
                         "unspent": len(spent) < len(onces)})
        return recs, tuples

    def fresh_ref(self, h, tuples, op, spent):
        """the same single call on a fresh checker over a fresh store holding `tuples` (Once predicates in
        the state they had when the history made the call)."""
        st = self._store(tuples)
        reg, _ = make_reg(h.get("reg"), spent)
        l = h["checkers"][op[1]]
        ck = self.checker(st, conv_rules(self.L, h.get("rules")), reg, l[0], l[1], l[2])
        return self._run_op(ck, op, copy.deepcopy(op[3]))


# --------------------------------------------------------------------------
# model side
# --------------------------------------------------------------------------
def model_lines(case):
    """wire lines for one group: multi (queries x limits), then per batch a multi + a batch line, then store."""
    mreg = model_reg(case.get("reg"), case.get("ctx"))
    store = [list(t) for t in case["store"]]
    rules = case.get("rules")
    lines = []
    if case.get("impl_only"):
        return lines
    if case.get("queries") and case.get("limits"):
        lines.append(lib.model_call("rebac.multi", store, rules, mreg, [list(q) for q in case["queries"]],
                                    [mlimit(l) for l in case["limits"]]))
    for b in case.get("batches") or []:
        md, mn, dms = b["limit"]
        ml = mlimit([md, mn, dms, 0, [], 0])
        lines.append(lib.model_call("rebac.multi", store, rules, mreg, [list(t) for t in b["triples"]], [ml]))
        lines.append(lib.model_call("rebac.batch", store, rules, mreg, ml[0], ml[1], ml[2],
                                    [[s[0], list(s[1]), s[2]] for s in (b.get("scripts") or [])],
                                    [list(t) for t in b["triples"]]))
    if case.get("lookups"):
        lines.append(lib.model_call("rebac.store", store, [list(x) for x in case["lookups"]]))
    return lines


def run_models(cases):
    lines, spans = [], []
    for c in cases:
        ls = model_lines(c)
        spans.append((len(lines), len(ls)))
        lines.extend(ls)
    outs = lib.run_model("rebac", lines, chunk=400)
    res = []
    for a, n in spans:
        res.append([lib.dec(x) for x in outs[a:a + n]])
    return res


def _bad_model(x):
    return isinstance(x, list) and x and x[0] in ("fuel", "ood", "badargs")


# --------------------------------------------------------------------------
# verdicts
# --------------------------------------------------------------------------
THMS = ["c12_sound", "c12_complete", "c12_exact", "c12_limits_fail_closed", "c12_batch", "c12_caveats",
        "c12_same_tuples_same_answer", "c12_more_tuples_only_grant"]


def single(case, q, lm, **extra):
    d = {k: case.get(k) for k in ("store", "rules", "reg", "ctx")}
    d.update({"queries": [q], "limits": [lm], "fam": case.get("fam", "?")})
    d.update(extra)
    return d


def judge(a, m):
    """a = implementation answer, m = [outcome, visits, within] -> (kind, clause) or None."""
    outcome, _v, within = m
    if isinstance(a, list):
        return ("violation", "check raised %s instead of answering" % a[1])
    if not isinstance(a, bool):
        return ("corr", "check returned a non-bool %r" % (a,))
    if a and not within:
        return ("violation", "answered True for a relation that is not derivable within max_depth "
                             "(c12_sound: never true for a non-derivable relation, whatever the limits)")
    if outcome in ("true", "end"):
        if a != (outcome == "true"):
            return ("violation", "no depth-independent limit fired (model run ended '%s'), so the answer must equal "
                                 "derivability within max_depth = %s (c12_exact/c12_complete); implementation said %s"
                    % (outcome, within, a))
        return None
    if a:  # model: a limit fired -> False; the relation is derivable, implementation found it
        return ("corr", "model run ends by the %s limit (False) but the implementation answered True" % outcome)
    return None


def check_cases(chk, cases, replay=False):
    impl = Impl()
    try:
        _check_cases(chk, impl, cases, replay)
    finally:
        impl.restore()


def _check_cases(chk, impl, cases, replay):
    dist = {}

    def cnt(k, n=1):
        dist[k] = dist.get(k, 0) + n

    hist = [c for c in cases if "ops" in c]
    if hist:
        _check_histories(chk, impl, hist, replay)
    conc = [c for c in cases if "threads" in c]
    if conc:
        _check_concurrent(chk, impl, conc, replay)
    helper = [c for c in cases if "hops" in c]
    if helper:
        _check_helper(chk, impl, helper, replay)
    if hist or conc or helper:
        cases = [c for c in cases if "ops" not in c and "threads" not in c and "hops" not in c]
        if not cases:
            return
    models = run_models(cases)
    shrink_budget = [6]
    for c, mres in zip(cases, models):
        fam = c.get("fam", "?")
        st, rules, reg = impl.build(c)
        ctx = c.get("ctx")
        gkey = json.dumps([c["store"], c.get("rules"), c.get("reg"), ctx], sort_keys=True, default=str)
        mi = 0
        cnt("fam:" + fam)
        cnt("store_size:%s" % (len(c["store"]) if len(c["store"]) < 5 else "5-9" if len(c["store"]) < 10 else "10+"))
        if c.get("impl_only"):
            for qi, q in enumerate(c["queries"]):
                for li, lm in enumerate(c["limits"]):
                    a = impl.check(st, rules, reg, ctx, q, lm)
                    chk.mark((gkey, q, lm), True)
                    cnt("impl_only")
                    if a != c["expect"][qi][li]:
                        chk.corr_break("omitted limits do not behave as the documented defaults 8/10000/50 (or the "
                                       "node budget is not 'visits > max_nodes'): expected %s" % c["expect"][qi][li],
                                       single(c, q, lm, impl_only=True, expect=[[c["expect"][qi][li]]]),
                                       impl=a, model=None, theorems=THMS)
            continue
        if c.get("queries") and c.get("limits"):
            mm = mres[mi]
            mi += 1
            if _bad_model(mm):
                raise RuntimeError("model rejected case: %r %r" % (mm, c))
            for li, lm in enumerate(c["limits"]):
                ck = impl.checker(st, rules, reg, lm[0], lm[1], lm[2])   # one checker serves all queries
                for qi, q in enumerate(c["queries"]):
                    m = mm[qi][li]
                    if _bad_model(m):
                        raise RuntimeError("model rejected case: %r %r" % (m, single(c, q, lm)))
                    a = impl.check(st, rules, reg, ctx, q, lm, ck)
                    chk.mark((gkey, q, lm), m[1] >= 2 or m[0] == "true")
                    cnt("outcome:" + m[0])
                    cnt("visits:%s" % (m[1] if m[1] < 4 else "4-9" if m[1] < 10 else "10+"))
                    cnt("impl:%s" % (a if isinstance(a, bool) else "raise"))
                    if chk.evaluations % 50021 == 1:
                        chk.sample({"case": single(c, q, lm), "impl": a, "model": m}, every=1)
                    v = judge(a, m)
                    exp = c.get("expect")
                    if v is None and exp is not None and a != exp[qi][li]:
                        v = ("violation", "corpus witness %s: expected %s" % (c.get("id", "?"), exp[qi][li]))
                    if v:
                        one = single(c, q, lm)
                        if v[0] == "violation":
                            # the checker had already answered the earlier queries of the group: keep them in the
                            # replay unless the failing query fails on a fresh checker too
                            prefix = dict(one, queries=c["queries"][:qi + 1])
                            if exp is not None:
                                prefix["expect"] = [[e[li]] for e in exp[:qi + 1]]
                            if replay or qi == 0:
                                one = prefix
                            elif len(chk.violations) >= 25:
                                one = prefix
                            else:
                                _a, _m, v1 = _verdict_of(impl, one)
                                if not (v1 and v1[0] == "violation"):
                                    one = prefix
                            if not replay and len(one["queries"]) == 1 and shrink_budget[0] > 0:
                                shrink_budget[0] -= 1
                                one = shrink(impl, one)
                            chk.violation(v[1], one, impl=a, model=m)
                        else:
                            found = None if replay else search_around(impl, one)
                            if found:
                                chk.violation(found[1], found[0], impl=found[2], model=found[3],
                                              note="found while searching around a correspondence break")
                            chk.corr_break(v[1], one, impl=a, model=m, theorems=THMS)
        for b in c.get("batches") or []:
            mw, mb = mres[mi], mres[mi + 1]
            mi += 2
            if _bad_model(mw) or _bad_model(mb):
                raise RuntimeError("model rejected batch: %r %r" % (mb, c))
            out = impl.batch(c, rules, reg, ctx, b)
            md, mn, dms = b["limit"]
            free = not b.get("scripts") and (dms is None or dms >= 0)
            chk.mark((gkey, "batch", b), len(set(map(tuple, b["triples"]))) < len(b["triples"]))
            cnt("batch:" + ("deadline-free" if free else "scripted"))
            bcase = {k: c.get(k) for k in ("store", "rules", "reg", "ctx")}
            bcase.update({"queries": [], "limits": [], "batches": [b], "fam": fam})
            if out and out[0] == "!raise":
                chk.violation("batch_check raised %s" % out[1], bcase, impl=out, model=mb)
                continue
            within = [mw[i][0][2] for i in range(len(b["triples"]))]
            bad = [i for i, x in enumerate(out) if x and not within[i]]
            if len(out) != len(b["triples"]):
                chk.violation("batch_check returned %d answers for %d triples" % (len(out), len(b["triples"])),
                              bcase, impl=out, model=mb)
            elif bad:
                chk.violation("batch_check answered True for a non-derivable relation (position %d)" % bad[0],
                              bcase, impl=out, model=mb)
            elif free:
                indiv = [impl.check(st, rules, reg, ctx, t, [md, mn, dms, 0, [], 0]) for t in b["triples"]]
                if out != indiv:
                    chk.violation("deadline-free batch_check differs from the individual checks (c12_batch)",
                                  bcase, impl=out, model={"individual_impl": indiv, "model_batch": mb})
                elif out != mb:
                    # individual checks differ from the model too; find which and judge it as a single check
                    hit = False
                    for i, t in enumerate(b["triples"]):
                        v = judge(indiv[i], mw[i][0])
                        if v and v[0] == "violation":
                            chk.violation(v[1], single(c, t, [md, mn, dms, 0, [], 0]), impl=indiv[i], model=mw[i][0])
                            hit = True
                            break
                    if not hit:
                        chk.corr_break("batch_check differs from the model's batch", bcase, impl=out, model=mb,
                                       theorems=THMS)
            elif out != mb:
                chk.corr_break("scripted-deadline batch_check differs from the model's batch", bcase, impl=out,
                               model=mb, theorems=THMS)
        if c.get("lookups"):
            ml = mres[mi]
            mi += 1
            got = impl.lookups(st, c["lookups"])
            chk.mark((gkey, "lookups"), True)
            cnt("store_lookups", len(c["lookups"]))
            if got != ml:
                k = next(i for i in range(len(got)) if got[i] != ml[i])
                chk.corr_break("store lookup differs: %r" % (c["lookups"][k],),
                               {"store": c["store"], "lookups": [c["lookups"][k]], "queries": [], "limits": [],
                                "fam": fam}, impl=got[k], model=ml[k], theorems=THMS)
    for k, n in dist.items():
        chk.count(k, n)


# --------------------------------------------------------------------------
# histories: answers are functions of (store, rules, registry, limits, query, context), not of earlier calls
# --------------------------------------------------------------------------
HIST_CLAUSE = ("the answer of a %s depends on earlier calls on the same checker: it differs from the answer a fresh "
               "checker over the same store gives for the same query, limits and supplied context (a caveated tuple "
               "counts exactly when its registered predicate returns true on the context supplied with THAT call)")


def judge_hist(a, ms):
    """ms = [m] when every predicate is a function of the context in this call, else [lower, upper]."""
    if len(ms) == 1:
        return judge(a, ms[0])
    lo, up = ms
    if isinstance(a, list):
        return ("violation", "check raised %s instead of answering" % a[1])
    if not isinstance(a, bool):
        return ("corr", "check returned a non-bool %r" % (a,))
    if a and not up[2]:
        return ("violation", "answered True for a relation that is not derivable within max_depth even with the "
                             "first-call-raises predicate counted as its pure value (c12_sound)")
    if lo[0] in ("true", "end") and up[0] == lo[0] and a != (lo[0] == "true"):
        return ("violation", "no limit fired and the answer is '%s' whether or not the first call of the stateful "
                             "predicate raises; implementation said %s" % (lo[0], a))
    return None


def _single_ops(op):
    """a deadline-free batch as the single checks it must equal."""
    return [["check", op[1], list(t), op[3], [0, [], 0]] for t in op[2]]


def _hist_ref(impl, h, hstat, skey, tuples, rec, op, cache):
    """answer of fresh checker(s) for the call `op` (cached: it is a function of the key by construction)."""
    def one(o):
        key = (hstat, skey, rec["spent"], json.dumps([o[0], h["checkers"][o[1]]] + list(o[2:]), sort_keys=True))
        if key not in cache:
            if len(cache) > 400000:
                cache.clear()
            cache[key] = impl.fresh_ref(h, tuples[:rec["n"]], o, rec["spent"])
        return cache[key]

    top = (hstat, skey, rec["spent"], _opkey(h["checkers"][op[1]]), _opkey(op))
    if top not in cache:
        cache[top] = one(op) if op[0] == "check" or rec["unspent"] else [one(o) for o in _single_ops(op)]
    return cache[top]


_OPKEYS = {}


def _opkey(op):
    """json text of an op (or any other part of a case), memoised per object (the enumerated histories share
    their parts; nothing in a case is mutated after generation)."""
    ent = _OPKEYS.get(id(op))
    if ent is None or ent[0] is not op:
        if len(_OPKEYS) > 200000:
            _OPKEYS.clear()
        ent = _OPKEYS[id(op)] = (op, json.dumps(op, sort_keys=True))
    return ent[1]


def _hist_fails(impl, h, ops):
    """does the last call of `ops` still differ from its fresh reference?"""
    recs, tuples = impl.history(h, ops)
    rec, op = recs[-1], ops[-1]
    if op[0] == "check" or rec["unspent"]:
        f = impl.fresh_ref(h, tuples[:rec["n"]], op, rec["spent"])
    else:
        f = [impl.fresh_ref(h, tuples[:rec["n"]], o, rec["spent"]) for o in _single_ops(op)]
    return rec["a"] != f


def shrink_history(impl, h, ops):
    """greedy: drop earlier ops, then initial tuples, while the last call still differs from a fresh checker."""
    try:
        cur_h, cur = h, list(ops)
        changed = True
        while changed:
            changed = False
            j = len(cur) - 2
            while j >= 0:
                cand = cur[:j] + cur[j + 1:]
                if _hist_fails(impl, cur_h, cand):
                    cur, changed = cand, True
                j -= 1
            i = 0
            while i < len(cur_h.get("store") or []):
                cand_h = dict(cur_h, store=cur_h["store"][:i] + cur_h["store"][i + 1:])
                if _hist_fails(impl, cand_h, cur):
                    cur_h, changed = cand_h, True
                else:
                    i += 1
        return dict(cur_h, ops=cur)
    except Exception:  # noqa: BLE001 - best effort
        return dict(h, ops=list(ops))


_FRESH_CACHE = {}   # fresh-checker answers: functions of their key by construction (new store, checker, predicates)
_MODEL_CACHE = {}   # model line -> decoded answer (the model is a pure function of the line)
_ENC_CACHE = {}     # wire encodings of line parts
_LINE_CACHE = {}    # (registry+rules, store, limits, op, predicate state) -> model line


def _check_histories(chk, impl, cases, replay):
    dist = {}

    def cnt(k, n=1):
        dist[k] = dist.get(k, 0) + n

    lines = []
    if len(_MODEL_CACHE) > 300000:
        _MODEL_CACHE.clear()

    if len(_ENC_CACHE) > 300000:
        _ENC_CACHE.clear()
    if len(_LINE_CACHE) > 300000:
        _LINE_CACHE.clear()

    def enc(key, val):
        e = _ENC_CACHE.get(key)
        if e is None:
            e = _ENC_CACHE[key] = lib.enc(val)
        return e

    def want(key, store, hstat, rules, mreg, qs, ml):
        ln = _LINE_CACHE.get(key)
        if ln is None:
            # == lib.model_call("rebac.multi", store, rules, mreg, qs, [ml]), with the encodings of the big parts memoised
            ln = _LINE_CACHE[key] = " ".join(("rebac.multi", enc("s" + key[1], store), enc("r" + hstat, rules),
                                              lib.enc(mreg), lib.enc(qs), lib.enc([ml])))
        if ln not in _MODEL_CACHE:
            _MODEL_CACHE[ln] = None
            lines.append(ln)
        return ln

    cache = {} if replay else _FRESH_CACHE
    runs = []
    for h in cases:
        recs, tuples = impl.history(h)
        rules, reg = h.get("rules"), h.get("reg")
        hrules = _opkey(rules) if rules is not None else "null"
        hstat = hrules + (_opkey(reg) if reg is not None else "null")
        skeys = {}
        plan = []
        for i, (op, rec) in enumerate(zip(h["ops"], recs)):
            if rec is None:
                plan.append(None)
                continue
            n = rec["n"]
            if n not in skeys:
                n0 = len(h.get("store") or [])
                skeys[n] = "".join([_opkey(h["store"]) if n0 else "[]"] + ["+" + _opkey(o) for o in h["ops"][:i]
                                                                           if o[0] == "add"])
            ref = _hist_ref(impl, h, hstat, skeys[n], tuples, rec, op, cache)
            l = h["checkers"][op[1]]
            lkey = _opkey(l)
            if op[0] == "check":
                sc = op[4] if len(op) > 4 and op[4] else [START, [], START]
                qs, ml = [list(op[2])], mlimit([l[0], l[1], l[2], sc[0], list(sc[1]), sc[2]])
            else:
                qs, ml = [list(t) for t in op[2]], mlimit([l[0], l[1], l[2], 0, [], 0])
            lows = (True, False) if rec["unspent"] else (False,)
            plan.append((ref, [want((hstat, skeys[n], lkey, _opkey(op), rec["spent"], low), tuples[:n], hrules, rules,
                                    hist_mreg(reg, op[3], rec["spent"], low), qs, ml) for low in lows]))
        runs.append((h, recs, plan))
    if lines:
        for ln, x in zip(lines, lib.run_model("rebac", lines, chunk=400)):
            _MODEL_CACHE[ln] = lib.dec(x)
    outs = _MODEL_CACHE
    shrinks = [4]
    for h, recs, plan in runs:
        fam = h.get("fam", "?")
        hkey = "|".join([_opkey(h.get("store") or []), _opkey(h.get("rules") or {}), _opkey(h.get("reg") or {}),
                         _opkey(h["checkers"]), str(h.get("shared_ctx"))] + [_opkey(o) for o in h["ops"]])
        cnt("fam:" + fam)
        cnt("hist_len:%s" % (len(h["ops"]) if len(h["ops"]) < 5 else "5-8" if len(h["ops"]) < 9 else "9+"))
        exp = h.get("expect")
        calls = 0
        for i, (op, rec, pl) in enumerate(zip(h["ops"], recs, plan)):
            if rec is None:
                cnt("hist_op:add")
                continue
            a, (ref, idx) = rec["a"], pl
            mms = [outs[j] for j in idx]
            for mm in mms:
                if _bad_model(mm) or any(_bad_model(x[0]) for x in mm):
                    raise RuntimeError("model rejected history call: %r %r %r" % (mm, h, i))
            cnt("hist_op:" + op[0] + (":stateful-predicate-may-raise" if rec["unspent"] else ""))
            cnt("hist_ctx:%s" % ("None" if op[3] is None else "{}" if op[3] == {} else "dict"))
            top = mms[-1]
            chk.mark((hkey, i), calls > 0 and any(x[0][1] >= 2 or x[0][0] == "true" for x in top))
            calls += 1
            if chk.evaluations % 50021 == 1:
                chk.sample({"case": dict(h, ops=h["ops"][:i + 1]), "impl": a, "fresh": ref, "model": top}, every=1)
            what = "check" if op[0] == "check" else "batch_check"
            vs = []
            if a != ref:
                vs.append(("violation", HIST_CLAUSE % what))
            elif op[0] == "check":
                vs.append(judge_hist(a, [mm[0][0] for mm in mms]))
            elif a and a[0] == "!raise":
                vs.append(("violation", "batch_check raised %s" % a[1]))
            elif len(a) != len(op[2]):
                vs.append(("violation", "batch_check returned %d answers for %d triples" % (len(a), len(op[2]))))
            else:
                vs.extend(judge_hist(x, [mm[k][0] for mm in mms]) for k, x in enumerate(a))
            vs = [v for v in vs if v]
            if not vs and exp is not None and i < len(exp) and exp[i] is not None and a != exp[i]:
                vs.append(("violation", "corpus witness %s: expected %s at call %d" % (h.get("id", "?"), exp[i], i)))
            if not vs:
                continue
            v = next((x for x in vs if x[0] == "violation"), vs[0])
            case = dict(h, ops=h["ops"][:i + 1])
            if exp is not None:
                case["expect"] = exp[:i + 1]
            info = {"fresh_checker": ref, "model": [[x[0] for x in mm] for mm in mms]}
            if v[0] == "violation":
                if len(chk.violations) >= 60:
                    continue
                if a != ref and not replay and shrinks[0] > 0:
                    shrinks[0] -= 1
                    case = shrink_history(impl, h, h["ops"][:i + 1])
                    case.pop("expect", None)
                    try:   # report the answers of the shrunk history, not of the one it came from
                        r2, t2 = impl.history(case)
                        a = r2[-1]["a"]
                        info = {"fresh_checker": _hist_ref(impl, case, "", "", t2, r2[-1], case["ops"][-1], {}),
                                "model_of_unshrunk_history": info["model"]}
                    except Exception:  # noqa: BLE001
                        pass
                chk.violation(v[1], case, impl=a, model=info)
            else:
                chk.corr_break(v[1], case, impl=a, model=info, theorems=THMS)
            break   # later calls of a history that already failed are not independent evidence
    for k, n in dist.items():
        chk.count(k, n)


# --------------------------------------------------------------------------
# concurrent calls on one checker
# --------------------------------------------------------------------------
CONC_CLAUSE = ("the answer of a %s depends on other calls in flight on the same checker: it differs from the answer a "
               "fresh checker gives for the same query, limits and context when asked alone (no limit was reached by "
               "that call itself: the clock is constant and max_nodes suffices for it)")


class Coop:
    """deterministic cooperative scheduler over real threads; the stop points are calls of `stop()` from the
    test-side hooks (clock, caveat predicates).  A thread runs only between a grant and its next stop point."""

    def __init__(self, n, timeout=8.0):
        import _thread

        self.n, self.timeout = n, timeout
        self.go = [_thread.allocate_lock() for _ in range(n)]
        self.back = [_thread.allocate_lock() for _ in range(n)]
        for l in self.go + self.back:
            l.acquire()
        self.done = [False] * n
        self.res = [None] * n
        self.grants = [0] * n
        self.free = False
        self.tl = threading.local()

    def stop(self):
        i = getattr(self.tl, "i", None)
        if i is None or self.free:
            return
        self.back[i].release()
        self.go[i].acquire()

    def _body(self, i, fn):
        self.tl.i = i
        self.go[i].acquire()                 # nothing runs before the first grant
        try:
            self.res[i] = fn()
        except BaseException as e:  # noqa: BLE001
            self.res[i] = ["!thread", type(e).__name__, str(e)[:80]]
        finally:
            self.done[i] = True
            self.back[i].release()

    def grant(self, i):
        if self.done[i]:
            return False
        self.grants[i] += 1
        self.go[i].release()
        if not self.back[i].acquire(timeout=self.timeout):
            self.free = True
            for l in self.go:
                try:
                    l.release()
                except RuntimeError:
                    pass
            raise TimeoutError("thread %d did not reach a stop point within %.0fs" % (i, self.timeout))
        return True

    def run(self, fns, sched):
        ths = [threading.Thread(target=self._body, args=(i, f), daemon=True) for i, f in enumerate(fns)]
        for t in ths:
            t.start()
        for i, k in list(sched) + [[i, None] for i in range(self.n)]:
            if k is None:
                while self.grant(i):
                    pass
            else:
                for _ in range(k):
                    if not self.grant(i):
                        break
        for t in ths:
            t.join(timeout=self.timeout)
        return self.res


def _conc_build(impl, c, hook):
    """shared store + checker for a concurrent case; `hook()` is called before every predicate evaluation."""
    st = impl._store(c["store"])
    reg = None
    if c.get("reg") is not None:
        reg = {}
        for name, kind in c["reg"].items():
            f = HPREDS[kind]
            reg[name] = None if f is None else (lambda ctx, f=f: (hook(), f(ctx))[1])
    l = c["checker"]
    return impl.checker(st, conv_rules(impl.L, c.get("rules")), reg, l[0], l[1], l[2])


def _conc_prog(ck, prog):
    def run():
        out = []
        for op in prog:
            try:
                if op[0] == "check":
                    q = op[1]
                    out.append(ck.check(q[0], q[1], q[2], context=copy.deepcopy(op[2])))
                else:
                    out.append(list(ck.batch_check([tuple(t) for t in op[1]], context=copy.deepcopy(op[2]))))
            except Exception as e:  # noqa: BLE001
                out.append(["!raise", type(e).__name__, str(e)[:80]])
        return out
    return run


def conc_run(impl, c, sched, only=None):
    """run the threads of `c` under the concrete schedule; returns ([answers per thread], [grants per thread]).
    `only` = run just that thread (alone, on its own fresh checker): step counting."""
    progs = c["threads"] if only is None else [c["threads"][only]]
    level = c.get("level", "hook")
    try:
        if level == "hook":
            co = Coop(len(progs))
            _time.perf_counter_ns = lambda: (co.stop(), START)[1]
            ck = _conc_build(impl, c, co.stop)
            res = co.run([_conc_prog(ck, p) for p in progs], sched)
            return res, co.grants
        if level == "line":
            import sched as _sched

            _time.perf_counter_ns = lambda: START
            ck = _conc_build(impl, c, lambda: None)
            s = _sched.Scheduler([impl.L.__file__], None, None, block_timeout=5.0, hard_timeout=10.0)
            names = [str(i) for i in range(len(progs))]
            grants = [0] * len(progs)
            for n, p in zip(names, progs):
                s.add(n, _conc_prog(ck, p))
            try:
                for i, k in sched:
                    j = 0
                    while (k is None or j < k) and not s.is_done(names[i]):
                        r = s.step(names[i])
                        grants[i] += 1
                        j += 1
                        if r != "stopped":
                            break
                if not s.finish(names):
                    raise TimeoutError("threads under the line scheduler did not finish")
            finally:
                s.close()
            rs = s.results()
            return [rs[n][0] if rs[n][1] is None else ["!thread", type(rs[n][1]).__name__, str(rs[n][1])[:80]]
                    for n in names], grants
        # free-running: a barrier releases the threads together; predicates and the clock yield
        bar = threading.Barrier(len(progs))

        def nap():
            _time.sleep(0.0003)

        _time.perf_counter_ns = lambda: (nap(), START)[1]
        ck = _conc_build(impl, c, nap)
        res = [None] * len(progs)

        def body(i, f):
            bar.wait(timeout=10)
            res[i] = f()

        ths = [threading.Thread(target=body, args=(i, _conc_prog(ck, p)), daemon=True) for i, p in enumerate(progs)]
        for t in ths:
            t.start()
        for t in ths:
            t.join(timeout=20)
        return res, [0] * len(progs)
    finally:
        _time.perf_counter_ns = impl.real


def conc_schedules(c, steps, rng_seed):
    """concrete schedules for a symbolic `sched` ({"kind": ...}); `steps` = grants each thread needs alone."""
    import random as _random

    sp = c.get("sched") or {"kind": "rr", "quantum": 1}
    if isinstance(sp, list):
        return [sp] * (5 if c.get("level") == "free" else 1)    # a free-running replay samples a few rounds
    n = len(c["threads"])
    if sp["kind"] == "free":
        return [[] for _ in range(sp.get("rounds", 3))]
    if sp["kind"] == "single":
        # thread a runs p grants, thread b runs to completion, a finishes: every p (on a stride), every ordered pair
        out = []
        for a in range(n):
            for b in range(n):
                if a != b:
                    out += [[[a, p], [b, None], [a, None]] for p in range(1, steps[a] + 1, sp.get("stride", 1))]
        return out
    if sp["kind"] == "rr":
        q = sp.get("quantum", 1)
        return [[[i, q] for _ in range(max(steps) // q + 2) for i in range(n)]]
    if sp["kind"] == "random":
        out = []
        for j in range(sp.get("count", 5)):
            r = _random.Random("%s/%s/%s" % (rng_seed, sp.get("seed", 0), j))
            out.append([[r.randrange(n), r.randint(1, 3)] for _ in range(sum(steps) + n)])
        return out
    raise ValueError(sp)


def _check_concurrent(chk, impl, cases, replay):
    dist = {}

    def cnt(k, n=1):
        dist[k] = dist.get(k, 0) + n

    for c in cases:
        fam = c.get("fam", "conc")
        level = c.get("level", "hook")
        l = c["checker"]
        # references: every call alone on a fresh checker over a fresh store (sequential), and the model
        calls = [(ti, ci, op) for ti, prog in enumerate(c["threads"]) for ci, op in enumerate(prog)]
        h = {"rules": c.get("rules"), "reg": c.get("reg"), "checkers": [l]}
        ref, mlines = {}, {}
        for ti, ci, op in calls:
            hop = (["check", 0, op[1], op[2], [START, [], START]] if op[0] == "check" else ["batch", 0, op[1], op[2]])
            if op[0] == "check":
                ref[ti, ci] = impl.fresh_ref(h, c["store"], hop, ())
            else:   # a batch equals its single checks (asked alone, one after the other)
                ref[ti, ci] = [impl.fresh_ref(h, c["store"], ["check", 0, list(t), op[2], [START, [], START]], ())
                               for t in op[1]]
            qs = [list(op[1])] if op[0] == "check" else [list(t) for t in op[1]]
            mlines[ti, ci] = lib.model_call("rebac.multi", c["store"], c.get("rules"),
                                            hist_mreg(c.get("reg"), op[2], (), False), qs,
                                            [mlimit([l[0], l[1], l[2], START, [], START])])
        need = [ln for ln in set(mlines.values()) if _MODEL_CACHE.get(ln) is None]
        if need:
            for ln, x in zip(need, lib.run_model("rebac", need, chunk=400)):
                _MODEL_CACHE[ln] = lib.dec(x)
        ckey = json.dumps([c["store"], c.get("rules"), c.get("reg"), l, c["threads"], level], sort_keys=True, default=str)
        cnt("fam:" + fam)
        cnt("conc_level:" + level)
        cnt("conc_threads:%d" % len(c["threads"]))
        try:
            steps = [0] * len(c["threads"])
            if not isinstance(c.get("sched"), list) and level != "free":
                for ti in range(len(c["threads"])):
                    steps[ti] = conc_run(impl, c, [[0, None]], only=ti)[1][0]
            scheds = conc_schedules(c, steps, chk.seed)
            if level == "free":
                chk.extra["concurrent_free_running_note"] = ("level 'free' cases run free threads: their schedule is "
                                                             "sampled (a few rounds each), not controlled")
            failed = False
            for sc in scheds:
                res, grants = conc_run(impl, c, sc)
                cnt("conc_schedules")
                overl = level == "free" or sum(1 for g in grants if g) >= 2
                for ti, ci, op in calls:
                    r = res[ti]
                    if not isinstance(r, list) or r[:1] == ["!thread"] or ci >= len(r):
                        a = r if r is not None else ["!thread", "Timeout", "no answer"]
                    else:
                        a = r[ci]
                    mm = _MODEL_CACHE[mlines[ti, ci]]
                    chk.mark((ckey, json.dumps(sc), ti, ci), overl and any(x[0][1] >= 2 or x[0][0] == "true" for x in mm))
                    what = "check" if op[0] == "check" else "batch_check"
                    v = None
                    if a != ref[ti, ci]:
                        v = ("violation", CONC_CLAUSE % what)
                    elif op[0] == "check":
                        v = judge(a, mm[0][0])
                    else:
                        v = next((x for x in (judge(y, mm[k][0]) for k, y in enumerate(a)) if x), None)
                    exp = c.get("expect")
                    if v is None and exp is not None and a != exp[ti][ci]:
                        v = ("violation", "corpus witness %s: expected %s (thread %d, call %d)"
                             % (c.get("id", "?"), exp[ti][ci], ti, ci))
                    if v and not failed:
                        failed = True
                        case = dict(c, sched=sc)
                        info = {"thread": ti, "call": ci, "asked_alone_on_a_fresh_checker": ref[ti, ci],
                                "all_answers": res, "model": [x[0] for x in mm]}
                        if v[0] == "violation":
                            if len(chk.violations) < 80:
                                chk.violation(v[1], case, impl=a, model=info)
                        else:
                            chk.corr_break(v[1], case, impl=a, model=info, theorems=THMS)
                if failed:
                    break   # one schedule per case is enough evidence
        except TimeoutError as e:
            cnt("conc_harness_timeouts")
            chk.notes.append("concurrent case abandoned (%s): %s" % (level, e))
    for k, n in dist.items():
        chk.count(k, n)


# --------------------------------------------------------------------------
# histories of calls of the shipped rule-map helper, judged against its DOCUMENTED meaning
# --------------------------------------------------------------------------
ROLES = ("viewer", "editor", "owner")
STRONGER = {"viewer": "editor", "editor": "owner"}       # the documented ladder: viewer <- editor <- owner


def spec_standard_userset(parent_rel=None, with_group_grants=True):
    """What rbacx.rebac.helpers.standard_userset(parent_rel, with_group_grants) MEANS according to
    docs/rebac/local.md ("viewer/editor/owner (+parent, +group grants)") and the shipped example
    (viewer: This OR editor OR parent.viewer OR granted.member; editor: This OR owner; owner: This; parent_rel
    enables TupleToUserset(parent_rel, role) for every role), written in the case language.  This is a
    specification: it is NOT derived from what the helper returns."""
    m = {}
    for role in ROLES:
        parts = ["this"]
        if role in STRONGER:
            parts.append(cu(STRONGER[role]))
        if parent_rel:
            parts.append(ttu(parent_rel, role))
        if with_group_grants and role == "viewer":
            parts.append(ttu("granted", "member"))
        m[role] = un(*parts)
    return m


def spec_history(ops):
    """the documented rule map of every result after every op: [[map per result so far] per op]."""
    res, trace = [], []
    for op in ops:
        if op[0] == "call":
            a = op[1]
            res.append(spec_standard_userset(a.get("parent_rel"), a.get("with_group_grants", True)))
        elif op[0] == "edit":           # the caller extends the map it got from call #i (and no other)
            _e, i, kind, rel, e = op
            m = res[i]
            if kind == "add":
                m[rel] = copy.deepcopy(e)
            elif rel not in m:
                m[rel] = un(copy.deepcopy(e))
            else:
                old = m[rel]
                m[rel] = un(*((old[1] if isinstance(old, list) and old[:1] == ["union"] else [old])
                              + [copy.deepcopy(e)]))
        else:
            raise ValueError(op)
        trace.append(copy.deepcopy(res))
    return trace


def describe_expr(L, e):
    if isinstance(e, L.This):
        return "this"
    if isinstance(e, L.ComputedUserset):
        return cu(e.relation)
    if isinstance(e, L.TupleToUserset):
        return ttu(e.tupleset, e.computed_userset)
    if isinstance(e, list):
        return ["union", [describe_expr(L, x) for x in e]]
    return ["unknown", type(e).__name__]           # anything else is ignored by the checker


def describe_map(L, r):
    if not isinstance(r, dict):
        return ["unknown", type(r).__name__]
    return {str(k): describe_expr(L, v) for k, v in r.items()}


def _leaves(d, out):
    if isinstance(d, list) and d[:1] == ["union"]:
        for x in d[1]:
            _leaves(x, out)
    else:
        out.add(json.dumps(d))
    return out


def meaning(m):
    """a rule map up to what the union semantics cannot tell apart (order, repetition, nesting of union members)."""
    if not isinstance(m, dict):
        return m
    return {rel: sorted(_leaves(e, set())) for rel, e in m.items()}


def _is_helper_ref(m):
    return isinstance(m, list) and m[:1] == ["helper"]


def _call_text(op):
    a = op[1]
    return "standard_userset(%s)" % ", ".join("%s=%r" % (k, a[k]) for k in ("parent_rel", "with_group_grants") if k in a)


def helper_run(impl, c):
    """the helper side of a helper-history case: the calls (and the caller's edits of its own results) in order,
    starting from freshly loaded module state; every result is re-described after every op.
    -> {"trace": [[description per result so far] per op], "raise": None | [op index, type, text], "rules": impl rule map}"""
    import importlib

    from rbacx.rebac import helpers

    importlib.reload(helpers)              # the history of the case is the whole history of the module
    L = impl.L
    results, trace = [], []
    for k, op in enumerate(c["hops"]):
        try:
            if op[0] == "call":
                a = op[1]
                if len(op) > 2 and op[2] == "pos" and a:
                    args = [a.get("parent_rel")] + ([a["with_group_grants"]] if "with_group_grants" in a else [])
                    results.append(helpers.standard_userset(*args))
                else:
                    results.append(helpers.standard_userset(**a))
            elif op[0] == "edit":
                _e, i, kind, rel, e = op
                r, new = results[i], conv_expr(L, e)
                if kind == "add":
                    r[rel] = new
                elif rel not in r:
                    r[rel] = [new]
                elif isinstance(r[rel], list):
                    r[rel].append(new)
                else:
                    r[rel] = [r[rel], new]
            else:
                raise ValueError(op)
        except Exception as e:  # noqa: BLE001
            return {"trace": trace, "raise": [k, type(e).__name__, str(e)[:120]], "rules": None}
        trace.append([describe_map(L, r) for r in results])
    rules = None
    if c.get("rules") is not None:        # the checker's rule map is put together after the whole history
        rules = {}
        for ty, m in c["rules"].items():
            if _is_helper_ref(m):
                rules[ty] = results[m[1]]
            else:
                rules[ty] = None if m is None else {rel: conv_expr(L, e) for rel, e in m.items()}
    return {"trace": trace, "raise": None, "rules": rules}


HELPER_DOC = ("documented: viewer <- editor <- owner, each role granted directly, inherited over parent_rel when one is "
              "given, members of granted groups are viewers when with_group_grants")


def helper_structural(c, run, strace):
    """first op after which some result is not the documented rule map: (clause, op index, info) | None."""
    ops = c["hops"]
    if run["raise"]:
        k = run["raise"][0]
        return ("%s of the helper history raised %s" % (_call_text(ops[k]) if ops[k][0] == "call" else "op %r" % ops[k],
                                                         run["raise"][1]), k, {"raised": run["raise"]})
    callop = []                          # result index -> op that made it
    for k, (op, got, want) in enumerate(zip(ops, run["trace"], strace)):
        if op[0] == "call":
            callop.append(op)
        target = len(got) - 1 if op[0] == "call" else op[1]
        for j, (g, w) in enumerate(zip(got, want)):
            mg, mw = meaning(g), meaning(w)
            if mg == mw:
                continue
            if isinstance(mg, dict):
                rel = next((r for r in sorted(set(mg) | set(mw)) if mg.get(r) != mw.get(r)))
                diff = "relation %r has members %s, documented %s" % (rel, mg.get(rel), mw.get(rel))
            else:
                diff = "it is %r" % (mg,)
            who = "%s (result #%d of a history of calls in one process)" % (_call_text(callop[j]), j)
            if j == target and op[0] == "call":
                clause = "%s returned a rule map that is not the documented one: %s [%s]" % (who, diff, HELPER_DOC)
            elif j != target:
                clause = ("the rule map returned by %s was changed by the later %s, which does not concern it: a result of "
                          "the helper keeps the meaning that was asked for whatever other calls happen in the process (no "
                          "aliasing between results, no shared module state): %s [%s]"
                          % (who, _call_text(op) if op[0] == "call" else "edit of result #%d" % op[1], diff, HELPER_DOC))
            else:
                clause = ("after the caller's own edit the rule map returned by %s is not the documented one plus that "
                          "edit: %s" % (who, diff))
            return clause, k, {"result": j, "returned_now": g, "documented": w}
    return None


def _helper_model_case(c, strace):
    final = strace[-1] if strace else []
    rules = c.get("rules")
    if rules is not None:
        rules = {ty: (final[m[1]] if _is_helper_ref(m) else m) for ty, m in rules.items()}
    return {"store": c["store"], "rules": rules, "reg": c.get("reg"), "ctx": c.get("ctx"),
            "queries": c.get("queries") or [], "limits": c.get("limits") or []}


def _helper_e2e(impl, c, run, mm):
    """answers of a checker over the rule maps the helper returned, judged by the model run on the SPECIFIED maps:
    yields (query index, limit index, answer, model, verdict)."""
    st = impl._store(c["store"])
    reg = None if c.get("reg") is None else {n: PREDS[k] for n, k in c["reg"].items()}
    for li, lm in enumerate(c["limits"]):
        ck = impl.checker(st, run["rules"], reg, lm[0], lm[1], lm[2])
        for qi, q in enumerate(c["queries"]):
            m = mm[qi][li]
            if _bad_model(m):
                raise RuntimeError("model rejected case: %r %r" % (m, c))
            a = impl.check(st, run["rules"], reg, c.get("ctx"), q, lm, ck)
            yield qi, li, a, m, judge(a, m)


def _helper_e2e_clause(c, v):
    calls = [o for o in c["hops"] if o[0] == "call"]
    return ("with the rule maps of the object types obtained from rbacx.rebac.helpers.standard_userset in one process "
            "(%s; judged by the model on the DOCUMENTED rule maps of those calls): %s"
            % ("; ".join("%s <- call #%d %s" % (ty, m[1], _call_text(calls[m[1]]))
                         for ty, m in sorted((c.get("rules") or {}).items()) if _is_helper_ref(m)), v[1]))


def _helper_info(impl, c, run, strace, m):
    return {"model_on_the_documented_rule_maps": m, "documented_rule_maps": _helper_model_case(c, strace)["rules"],
            "rule_maps_in_use": None if run["rules"] is None else
            {ty: describe_map(impl.L, r) if r is not None else None for ty, r in run["rules"].items()}}


def _helper_fails(impl, c):
    """is the (small) helper-history case still a violation?  (used by the shrinker)"""
    strace = spec_history(c["hops"])
    run = helper_run(impl, c)
    if c.get("structural_only"):
        return helper_structural(c, run, strace) is not None
    if run["raise"] or not (c.get("queries") and c.get("limits")):
        return False
    mm = run_models([_helper_model_case(c, strace)])[0][0]
    return any(v and v[0] == "violation" for _qi, _li, _a, _m, v in _helper_e2e(impl, c, run, mm))


def _drop_hop(c, k):
    """the case without op k (result indices renumbered), or None when something refers to its result."""
    ops = c["hops"]
    if ops[k][0] != "call":
        return dict(c, hops=ops[:k] + ops[k + 1:])
    i = sum(1 for o in ops[:k] if o[0] == "call")
    refs = [m[1] for m in (c.get("rules") or {}).values() if _is_helper_ref(m)] + [o[1] for o in ops if o[0] == "edit"]
    if i in refs:
        return None
    new = [(["edit", o[1] - (o[1] > i)] + list(o[2:])) if o[0] == "edit" else o for o in ops[:k] + ops[k + 1:]]
    rules = c.get("rules")
    if rules is not None:
        rules = {ty: (["helper", m[1] - (m[1] > i)] if _is_helper_ref(m) else m) for ty, m in rules.items()}
    return dict(c, hops=new, rules=rules)


def shrink_helper(impl, c):
    """greedy: drop ops of the history, then tuples, while the case is still a violation."""
    cur = c
    try:
        changed = True
        while changed:
            changed = False
            k = len(cur["hops"]) - 1
            while k >= 0:
                cand = _drop_hop(cur, k) if k < len(cur["hops"]) else None
                if cand is not None and cand["hops"] and _helper_fails(impl, cand):
                    cur, changed = cand, True
                k -= 1
            i = 0
            while i < len(cur["store"]):
                cand = dict(cur, store=cur["store"][:i] + cur["store"][i + 1:])
                if _helper_fails(impl, cand):
                    cur, changed = cand, True
                else:
                    i += 1
    except Exception:  # noqa: BLE001 - best effort
        return c
    return cur


def _check_helper(chk, impl, cases, replay):
    dist = {}

    def cnt(k, n=1):
        dist[k] = dist.get(k, 0) + n

    straces = [spec_history(c["hops"]) for c in cases]
    models = run_models([_helper_model_case(c, s) for c, s in zip(cases, straces)])
    budget = {"structural": 3, "e2e": 3}      # reports per batch of cases (each shrunk); the rest is counted
    for c, strace, mres in zip(cases, straces, models):
        fam = c.get("fam", "helper")
        ncalls = sum(1 for o in c["hops"] if o[0] == "call")
        hkey = json.dumps([c["hops"], c.get("rules"), c["store"], c.get("reg"), c.get("ctx")], sort_keys=True, default=str)
        cnt("fam:" + fam)
        cnt("helper_calls:%d" % ncalls)
        cnt("helper_edits:%d" % (len(c["hops"]) - ncalls))
        run = helper_run(impl, c)
        # (1) direct structural judgement: every result, after every op, is the documented rule map
        chk.mark((hkey, "structure"), ncalls >= 2)
        sv = helper_structural(c, run, strace)
        if sv:
            cnt("helper_structural_failures")
            if (budget["structural"] > 0 and len(chk.violations) < 40) or replay:
                budget["structural"] -= 1
                one = {"hops": c["hops"][:sv[1] + 1], "rules": None, "store": [], "reg": None, "ctx": None,
                       "queries": [], "limits": [], "structural_only": True, "fam": fam}
                if not replay:
                    one = shrink_helper(impl, one)
                    sv2 = helper_structural(one, helper_run(impl, one), spec_history(one["hops"]))
                    sv = sv2 or sv
                chk.violation(sv[0], one, impl=sv[2], model={"documented_rule_maps_after_each_op": spec_history(one["hops"])})
        if run["raise"] or c.get("structural_only") or not (c.get("queries") and c.get("limits")):
            continue
        # (2) end to end: the checker over the returned maps against the model over the specified maps
        mm = mres[0]
        if _bad_model(mm):
            raise RuntimeError("model rejected case: %r %r" % (mm, c))
        failed = False
        for qi, li, a, m, v in _helper_e2e(impl, c, run, mm):
            q, lm = c["queries"][qi], c["limits"][li]
            chk.mark((hkey, q, lm), ncalls >= 2 and (m[1] >= 2 or m[0] == "true"))
            cnt("outcome:" + m[0])
            cnt("impl:%s" % (a if isinstance(a, bool) else "raise"))
            if chk.evaluations % 50021 == 1:
                chk.sample({"case": dict(c, queries=[q], limits=[lm]), "impl": a, "model": m}, every=1)
            if not v or failed:
                continue
            failed = True                 # one failing pair per history is enough evidence
            one = dict(c, queries=[q], limits=[lm])
            if v[0] == "violation":
                cnt("helper_e2e_failures")
                if (budget["e2e"] > 0 and len(chk.violations) < 40) or replay:
                    budget["e2e"] -= 1
                    if not replay:
                        small = shrink_helper(impl, one)
                        try:     # report the answers of the shrunk case, not of the one it came from
                            s2 = spec_history(small["hops"])
                            r2 = helper_run(impl, small)
                            x = next(((a2, m2, v2) for _q, _l, a2, m2, v2
                                      in _helper_e2e(impl, small, r2, run_models([_helper_model_case(small, s2)])[0][0])
                                      if v2 and v2[0] == "violation"), None)
                            if x:
                                one, (a, m, v), run_, strace_ = small, x, r2, s2
                                chk.violation(_helper_e2e_clause(one, v), one, impl=a,
                                              model=_helper_info(impl, one, run_, strace_, m))
                                continue
                        except Exception:  # noqa: BLE001
                            pass
                    chk.violation(_helper_e2e_clause(one, v), one, impl=a, model=_helper_info(impl, one, run, strace, m))
            else:
                chk.corr_break(v[1] + " (rule maps from standard_userset, model on the documented maps)", one, impl=a,
                               model=_helper_info(impl, one, run, strace, m), theorems=THMS)
    for k, n in dist.items():
        chk.count(k, n)


def _verdict_of(impl, one):
    """re-run one single-evaluation case through both sides."""
    m = run_models([one])[0][0][0][0]
    st, rules, reg = impl.build(one)
    a = impl.check(st, rules, reg, one.get("ctx"), one["queries"][0], one["limits"][0])
    return a, m, judge(a, m)


def shrink(impl, one):
    """greedy: drop tuples, then rules, while the case is still a violation."""
    cur = one
    try:
        for _ in range(3):
            changed = False
            i = 0
            while i < len(cur["store"]) and len(cur["store"]) > 0:
                cand = dict(cur, store=cur["store"][:i] + cur["store"][i + 1:])
                _a, _m, v = _verdict_of(impl, cand)
                if v and v[0] == "violation":
                    cur, changed = cand, True
                else:
                    i += 1
            for ty in list((cur.get("rules") or {}).keys()):
                rr = dict(cur["rules"])
                del rr[ty]
                cand = dict(cur, rules=rr)
                _a, _m, v = _verdict_of(impl, cand)
                if v and v[0] == "violation":
                    cur, changed = cand, True
            if not changed:
                break
    except Exception:  # noqa: BLE001 - shrinking is best effort
        return one
    return cur


def search_around(impl, one):
    """a correspondence break was seen: look for limits under which the property itself fails."""
    try:
        grp = dict(one, limits=FULLGRID)
        mm = run_models([grp])[0][0]
        st, rules, reg = impl.build(grp)
        for li, lm in enumerate(FULLGRID):
            a = impl.check(st, rules, reg, grp.get("ctx"), grp["queries"][0], lm)
            v = judge(a, mm[0][li])
            if v and v[0] == "violation":
                return single(grp, grp["queries"][0], lm), v[1], a, mm[0][li]
    except Exception:  # noqa: BLE001
        return None
    return None


# --------------------------------------------------------------------------
# generators
# --------------------------------------------------------------------------
U = ["this"]


def un(*es):
    return ["union", list(es)]


def cu(r):
    return ["cu", r]


def ttu(ts, c):
    return ["ttu", ts, c]


RULE_POOL = [
    None,                                                                             # 0 no rules at all
    {"doc": {"viewer": un("this")}, "folder": {}},                                   # 1
    {"doc": {"viewer": un("this", cu("editor")), "editor": un("this")}},             # 2
    {"doc": {"viewer": un(cu("editor")), "editor": cu("parent"), "parent": "this"}},  # 3 chain, bare exprs
    {"doc": {"viewer": un("this", ttu("parent", "viewer"))},
     "folder": {"viewer": un("this", ttu("parent", "viewer"))}},                      # 4 inheritance
    {"doc": {"viewer": ttu("parent", "viewer"), "editor": ttu("parent", "editor")},
     "folder": {"viewer": "this", "editor": un()}},                                   # 5 bare ttu, empty union
    {"doc": {"viewer": un(cu("editor")), "editor": un(cu("viewer"))}},                # 6 cyclic computed
    {"doc": {"viewer": un(cu("viewer"), "this", cu("viewer"))}},                      # 7 self-cycle, duplicates
    {"doc": {"viewer": un(un("this", un(cu("editor"))), un(un(ttu("parent", "editor")))), "editor": un("this")},
     "folder": {"editor": un(un("this")), "viewer": un()}},        # 8 nested unions
    {"doc": {"viewer": un(["unknown", "tuple"], cu("editor"), ["unknown", "str"]), "editor": ["unknown", "dict"]},
     "folder": None},                                                                 # 9 unknown nodes, None type map
    {"doc": {"viewer": un(ttu("viewer", "viewer"), ttu("editor", "viewer"))},
     "user": {"viewer": un(cu("editor"))}, "folder": {"viewer": un(ttu("viewer", "editor"))}},  # 10 userset-like
    {"doc": {"viewer": un("this", cu("editor"), ttu("parent", "viewer"), ttu("editor", "viewer")),
             "editor": un("this", ttu("parent", "editor"))},
     "folder": {"viewer": un("this", cu("editor"), ttu("parent", "viewer")),
                "editor": un("this", ttu("parent", "editor"))}},                      # 11 standard
]

ENUM_REG = {"cT": "T", "cF": "F", "cR": "R"}        # "cU" stays unregistered
ENUM_CAV = [None, "cT", "cF", "cR", "cU"]
E_SUBJ = ["user:a", "b", "doc:1", "doc:2", "folder:1"]
E_REL = ["viewer", "editor", "parent"]
E_RES = ["doc:1", "doc:2", "folder:1"]
E_QUERIES = [["user:a", "viewer", "doc:1"], ["b", "viewer", "doc:1"], ["user:a", "editor", "doc:2"],
             ["user:a", "viewer", "folder:1"], ["doc:2", "viewer", "doc:1"]]
BASE_TUPLES = [[s, r, o] for s in E_SUBJ for r in E_REL for o in E_RES]          # 45
ALL_TUPLES = [t + [c] for t in BASE_TUPLES for c in ENUM_CAV]                    # 225


def helper_rules(parent_rel, with_group_grants):
    """rbacx.rebac.helpers.standard_userset(...) in the case language (so that a change of the helper is followed)."""
    from rbacx.rebac import helpers, local as L

    def descr(e):
        if isinstance(e, L.This):
            return "this"
        if isinstance(e, L.ComputedUserset):
            return cu(e.relation)
        if isinstance(e, L.TupleToUserset):
            return ttu(e.tupleset, e.computed_userset)
        if isinstance(e, (list, tuple)):
            return un(*[descr(x) for x in e])
        raise TypeError("standard_userset produced an unknown node %r" % (e,))

    return {rel: descr(e) for rel, e in helpers.standard_userset(parent_rel, with_group_grants).items()}


def lookups_for(store):
    rels = sorted({t[1] for t in store}) or ["viewer"]
    ress = sorted({t[2] for t in store}) + ["nowhere:0"]
    subs = sorted({t[0] for t in store}) + ["nobody"]
    return ([["res", r, o] for r in rels for o in ress][:12] + [["subj", s, r] for s in subs for r in rels][:12])


def seeds():
    """hand-picked shapes; every one runs the full limit grid under several registries/contexts."""
    inh = RULE_POOL[4]
    S = []
    S.append(("computed-chain", [["user:a", "parent", "doc:1", None]], RULE_POOL[3]))
    S.append(("ttu-chain2", [["folder:1", "parent", "doc:1", None], ["folder:2", "parent", "folder:1", None],
                             ["user:a", "viewer", "folder:2", None]], inh))
    S.append(("ttu-chain3-cav", [["folder:1", "parent", "doc:1", "c1"], ["folder:2", "parent", "folder:1", None],
                                 ["folder:3", "parent", "folder:2", "c2"], ["user:a", "viewer", "folder:3", None]], inh))
    S.append(("cycle", [["folder:1", "parent", "doc:1", None], ["folder:2", "parent", "folder:1", None],
                        ["folder:1", "parent", "folder:2", None], ["user:a", "viewer", "folder:2", "c1"]], inh))
    S.append(("self-loop", [["doc:1", "parent", "doc:1", None], ["folder:1", "parent", "doc:1", None],
                            ["user:a", "viewer", "folder:1", None]], inh))
    S.append(("fan-out", [["folder:1", "parent", "doc:1", None], ["folder:2", "parent", "doc:1", "c1"],
                          ["folder:3", "parent", "doc:1", None], ["user:a", "viewer", "folder:3", None],
                          ["b", "viewer", "folder:2", None]], inh))
    S.append(("duplicates", [["folder:1", "parent", "doc:1", None], ["folder:1", "parent", "doc:1", None],
                             ["user:a", "viewer", "folder:1", "c1"], ["user:a", "viewer", "folder:1", None]], inh))
    S.append(("F15-shape", [["user:a", "viewer", "folder:1", None], ["folder:1", "parent", "doc:1", "c1"]], inh))
    S.append(("caveated-direct-then-plain", [["user:a", "viewer", "doc:1", "c1"], ["b", "viewer", "doc:1", "c2"],
                                             ["user:a", "viewer", "doc:1", "c2"]], RULE_POOL[1]))
    S.append(("cyclic-computed-empty", [], RULE_POOL[6]))
    S.append(("cyclic-computed-hit", [["user:a", "editor", "doc:1", None]], RULE_POOL[6]))
    S.append(("direct-without-this", [["user:a", "viewer", "doc:1", None]], RULE_POOL[6]))
    S.append(("no-colon-edge", [["b", "parent", "doc:1", None], ["user:a", "viewer", "b", None],
                                ["folder:1", "parent", "doc:1", None], ["b", "viewer", "folder:1", None]], inh))
    S.append(("colon-in-id", [["folder:1:x", "parent", "doc:1:2", None], ["user:a", "viewer", "folder:1:x", None]],
              {"doc": {"viewer": un(ttu("parent", "viewer"))}, "folder": {"viewer": un("this")}}))
    S.append(("typeless-object", [["user:a", "editor", "plain", None]],
              {"user": {"viewer": un(cu("editor"))}, "": {"viewer": un(cu("editor"))}}))
    S.append(("empty-type", [["user:a", "editor", ":x", None]],
              {"user": {"viewer": un(cu("parent"))}, "": {"viewer": un(cu("editor"))}}))
    S.append(("unknown-exprs", [["user:a", "editor", "doc:1", None]], RULE_POOL[9]))
    S.append(("nested", [["folder:1", "parent", "doc:1", None], ["user:a", "editor", "folder:1", "c1"]], RULE_POOL[8]))
    S.append(("userset-like", [["doc:2", "viewer", "doc:1", None], ["user:a", "viewer", "doc:2", None],
                               ["folder:1", "editor", "doc:1", "c1"], ["user:a", "editor", "folder:1", None]],
              RULE_POOL[10]))
    S.append(("standard-deep", [["folder:1", "parent", "doc:1", None], ["folder:2", "parent", "folder:1", None],
                                ["folder:3", "parent", "folder:2", None], ["user:a", "editor", "folder:3", None],
                                ["doc:1", "editor", "doc:2", None]], RULE_POOL[11]))
    S.append(("wide-frontier", [["folder:%d" % i, "parent", "doc:1", None] for i in range(1, 5)]
              + [["user:a", "viewer", "folder:4", None]], inh))
    # rule maps produced by the shipped helper rbacx.rebac.helpers.standard_userset (viewer/editor/owner, parent
    # inheritance, group grants), read back into the case language
    for pr, gg in (("parent", True), ("parent", False), (None, True)):
        hr = helper_rules(pr, gg)
        S.append(("helper-standard-%s-%s" % (pr, gg),
                  [["folder:1", "parent", "doc:1", None], ["folder:2", "parent", "folder:1", "c1"],
                   ["user:a", "owner", "folder:2", None], ["group:g", "granted", "doc:1", None],
                   ["user:b", "member", "group:g", "c2"], ["user:c", "editor", "doc:1", None]],
                  {"doc": hr, "folder": hr, "group": {"member": "this"}}))
    S.append(("empty-caveat-name", [["user:a", "viewer", "doc:1", ""], ["folder:1", "parent", "doc:1", ""],
                                    ["user:a", "viewer", "folder:1", None]], inh))
    return S


SEED_REGS = [(None, None), ({}, {}), ({"c1": "T"}, None), ({"c1": "F"}, None), ({"c1": "R"}, None),
             ({"c1": "T", "c2": "T"}, {"ok": 1}), ({"c1": "T", "c2": "F"}, None), ({"c1": "none", "c2": "T"}, None),
             ({"c1": "ctx", "c2": "ctx"}, {"ok": True}), ({"c1": "ctx"}, {"ok": 0}), ({"c1": "ctx"}, None),
             ({"c1": "ctx"}, {}), ({"c1": "truthy", "c2": "one"}, None), ({"c1": "zero", "c2": "nil"}, None),
             ({"c1": "empty"}, None), ({"c1": "badbool"}, None), ({"": "T"}, None), ({"": "F", "c1": "T"}, None)]


def gen_default_cases(chk):
    """the documented constructor defaults (8 / 10000 / 50 ms) are what an omitted argument means."""
    inh = RULE_POOL[4]
    out = []
    lims = [lim(None, None, None), lim(None, 10000, 50), lim(8, None, 50), lim(8, 10000, None),
            lim(None, None, None, 3), lim(None, None, None, 3, True), lim(None, None, None, None, True)]
    for depth in (7, 8, 9, 10, 11, 12):          # grant reachable in exactly `depth` rewrite steps
        store = [["folder:1", "parent", "doc:1", None]]
        store += [["folder:%d" % (i + 1), "parent", "folder:%d" % i, None] for i in range(1, depth)]
        store.append(["user:a", "viewer", "folder:%d" % depth, None])
        out.append({"store": store, "rules": inh, "reg": None, "ctx": None, "queries": [E_QUERIES[0]],
                    "limits": lims, "fam": "defaults"})
        comp = {"doc": {"r%d" % i: cu("r%d" % (i + 1)) for i in range(depth)}}
        out.append({"store": [["user:a", "r%d" % depth, "doc:1", None]], "rules": comp, "reg": None, "ctx": None,
                    "queries": [["user:a", "r0", "doc:1"]], "limits": lims, "fam": "defaults"})
    # node budget: the root plus `width` parents, the grant sits on the last one visited (visit width + 1).
    # Judged without the model in the quick tier (a 10^4-node search is slow on list-based sets): omitted limits
    # must behave as the documented 8 / 10000 / 50.
    for width in (9999, 10000):
        store = [["f:%d" % i, "parent", "doc:1", None] for i in range(width)]
        store.append(["user:a", "viewer", "f:%d" % (width - 1), None])
        c = {"store": store, "rules": {"doc": {"viewer": ttu("parent", "viewer")}}, "reg": None, "ctx": None,
             "queries": [E_QUERIES[0]], "limits": [lim(None, None, None), lim(8, 10000, 50)],
             "expect": [[width + 1 <= 10000] * 2], "fam": "defaults-wide"}
        if chk.tier != "thorough":
            c["impl_only"] = True
        out.append(c)
    return out


def gen_seed_cases(chk):
    out = []
    qs = E_QUERIES[:2] + [["user:a", "viewer", "doc:1:2"], ["user:a", "viewer", "plain"], ["user:a", "viewer", ":x"]]
    for name, store, rules in seeds():
        objs = {t[2] for t in store}
        queries = [q for q in qs if q[2] in objs or q[2] == "doc:1"][:3]
        regs = SEED_REGS if any(t[3] is not None for t in store) else SEED_REGS[:2]
        for reg, ctx in regs:
            out.append({"store": store, "rules": rules, "reg": reg, "ctx": ctx, "queries": queries,
                        "limits": FULLGRID, "fam": "seed", "lookups": lookups_for(store)})
    return out


def gen_enum_cases(chk):
    out = []
    thorough = chk.tier == "thorough"
    # E1: every store of <= 1 tuple (all 5 caveat flavours) x every rule map x 5 queries x SMALLGRID
    for store in [[]] + [[t] for t in ALL_TUPLES]:
        for ri, rules in enumerate(RULE_POOL):
            out.append({"store": store, "rules": rules, "reg": ENUM_REG, "ctx": None, "queries": E_QUERIES,
                        "limits": SMALLGRID, "fam": "enum1"})
    # E2: every ordered pair of tuples x every rule map x 2 queries x 4 limits rotating through the grid
    s2 = 2 if thorough else 53
    k = 0
    for i, t1 in enumerate(ALL_TUPLES):
        for j, t2 in enumerate(ALL_TUPLES):
            for ri, rules in enumerate(RULE_POOL):
                k += 1
                if k % s2:
                    continue
                lims = [NOLIMIT] + [FULLGRID[(k // s2 * 3 + x * 37) % len(FULLGRID)] for x in range(3)]
                out.append({"store": [t1, t2], "rules": rules, "reg": ENUM_REG, "ctx": None,
                            "queries": [E_QUERIES[0], E_QUERIES[1 + (k // s2) % 4]], "limits": lims, "fam": "enum2"})
    # E3: every 3-subset of the 45 uncaveated tuples (one of them caveated in rotation) x every rule map
    #     x 1 query x 10 limits rotating through the grid
    s3 = 2 if thorough else 41
    k = 0
    for combo in itertools.combinations(range(len(BASE_TUPLES)), 3):
        for ri, rules in enumerate(RULE_POOL):
            k += 1
            if k % s3:
                continue
            kk = k // s3
            store = [BASE_TUPLES[x] + [None] for x in combo]
            if kk % 3:
                store[kk % 3][3] = ENUM_CAV[1 + kk % 4]
            lims = [NOLIMIT] + [FULLGRID[(kk * 7 + x * 11) % len(FULLGRID)] for x in range(9)]
            out.append({"store": store, "rules": rules, "reg": ENUM_REG, "ctx": None,
                        "queries": [E_QUERIES[kk % 2]], "limits": lims, "fam": "enum3"})
    # E4: every 4-subset of a 12-tuple universe built for depth (parents among 3 objects + grants) x inheritance
    #     rule maps x the full grid on a stride
    uni = ([[a, "parent", b, None] for a in E_RES for b in E_RES]            # 9 edges incl. self-loops
           + [["user:a", "viewer", o, None] for o in E_RES])                 # 3 grants
    s4 = 1 if thorough else 6
    k = 0
    for combo in itertools.combinations(range(len(uni)), 4):
        for ri in (4, 11, 5):
            k += 1
            if k % s4:
                continue
            out.append({"store": [uni[x] for x in combo], "rules": RULE_POOL[ri], "reg": None, "ctx": None,
                        "queries": [E_QUERIES[0]], "limits": GRID, "fam": "enum4"})
    return out


def rand_expr(rng, rels, depth):
    x = rng.random()
    if depth <= 0 or x < 0.55:
        y = rng.random()
        if y < 0.3:
            return "this"
        if y < 0.6:
            return cu(rng.choice(rels))
        if y < 0.95:
            return ttu(rng.choice(rels), rng.choice(rels))
        return ["unknown", rng.choice(["tuple", "str", "int", "dict", "obj"])]
    return un(*[rand_expr(rng, rels, depth - 1) for _ in range(rng.choice([0, 1, 2, 2, 3, 4]))])


def rand_limits(rng, k):
    lims = [NOLIMIT]
    for _ in range(k):
        md = rng.choice([-1, 0, 1, 2, 3, 4, 5, 8, None, 50])
        mn = rng.choice([0, 1, 2, 3, 4, 5, 7, 10, 50, 10000, None, -3])
        dms = rng.choice([50, 50, None, 0, 1, -1])
        y = rng.random()
        if y < 0.4:
            l = lim(md, mn, dms)
        elif y < 0.8:
            l = lim(md, mn, dms, rng.randint(0, 9), rng.random() < 0.3)
        else:
            d = START + (DEFAULTS[2] if dms is None else dms) * 1_000_000
            l = [md, mn, dms, START, [rng.choice([START, d, d + 1, d - 1, 0]) for _ in range(rng.randint(0, 8))],
                 rng.choice([START, d, d + 1])]
        lims.append(l)
    return lims


def rand_batches(rng, queries, nstore):
    pool = queries[:3] + [[q[0], queries[0][1], queries[0][2]] for q in queries[1:3]]
    triples = [rng.choice(pool) for _ in range(rng.randint(1, 8))]
    b = {"triples": triples, "limit": [rng.choice([8, None, 2, 1]), rng.choice([10000, None, 5, 2]),
                                       rng.choice([50, None, 0])]}
    if rng.random() < 0.3:
        d = START + (DEFAULTS[2] if b["limit"][2] is None else b["limit"][2]) * 1_000_000
        b["scripts"] = [[START, [START] * rng.randint(0, 3), rng.choice([START, d + 1])]
                        for _ in range(rng.randint(1, 4))]
    if rng.random() < 0.6:
        b["prime"] = rng.randint(0, nstore)
        b["prime_ctx"] = rng.choice(CTXS)
    return [b]


CAVS = ["c0", "c1", "c2", "c3", ""]
CTXS = [None, {}, {"ok": True}, {"ok": False}, {"ok": "x"}, {"ok": 0, "z": [1]}]


def gen_layered(rng):
    """containment hierarchies with group grants: deep searches, many positives."""
    n = rng.randint(2, 9)
    objs = [("doc:%d" % i) if i < max(1, n // 3) else ("folder:%d" % i) for i in range(n)]
    groups = ["group:g%d" % i for i in range(rng.randint(0, 2))]
    users = ["user:u0", "user:u1", "u2"][:rng.randint(1, 3)]
    store = []
    for i in range(n):
        for j in range(n):
            x = rng.random()
            if (j == i + 1 and x < 0.75) or (j > i + 1 and x < 0.15) or (j < i and x < 0.06) or (j == i and x < 0.04):
                store.append([objs[j], "parent", objs[i], None])       # objs[j] contains objs[i]
    for g in groups:
        for _ in range(rng.randint(0, 2)):
            store.append([g, "granted", rng.choice(objs), None])
        for u in users:
            if rng.random() < 0.5:
                store.append([u, "member", g, None])
        if rng.random() < 0.2:
            store.append([rng.choice(groups), "member", g, None])          # nested group (not followed: no rule)
    for _ in range(rng.randint(1, 4)):
        store.append([rng.choice(users), rng.choice(["viewer", "editor", "owner"]),
                      objs[min(n - 1, int(rng.random() ** 0.5 * n))], None])
    if store and rng.random() < 0.3:
        store.append(list(rng.choice(store)))                              # duplicate
    for t in store:
        if rng.random() < 0.15:
            t[3] = rng.choice(CAVS)
    rng.shuffle(store)
    std = {"viewer": ["this", cu("editor"), ttu("parent", "viewer"), ttu("granted", "member")],
           "editor": ["this", cu("owner"), ttu("parent", "editor")],
           "owner": ["this", ttu("parent", "owner")]}
    rules = {}
    for ty in ("doc", "folder"):
        m = {}
        for rel, parts in std.items():
            ps = [x for x in parts if rng.random() < 0.9]
            if rng.random() < 0.15:
                ps.append(["unknown", rng.choice(["tuple", "str", "obj"])])
            if rng.random() < 0.2 and len(ps) >= 2:
                ps = [ps[0], un(*ps[1:])]
            rng.shuffle(ps)
            m[rel] = un(*ps) if rng.random() < 0.9 or len(ps) != 1 else ps[0]
        rules[ty] = m
    if rng.random() < 0.8:
        rules["group"] = {"member": un("this")}
    reg = {c: rng.choice(["T", "T", "F", "R", "ctx", "truthy", "zero", "none", "badbool"]) for c in CAVS
           if rng.random() < 0.7}
    queries = [[rng.choice(users), rng.choice(["viewer", "viewer", "editor", "owner"]),
                objs[int(rng.random() ** 2 * n)]] for _ in range(4)]
    return store, rules, reg, queries


def gen_random_cases(chk):
    rng = chk.rng
    out = []
    n = 7000 if chk.tier == "quick" else 60000
    rels = ["viewer", "editor", "owner", "parent", "member"]
    kinds = list(PREDS.keys())
    for _ in range(n):
        if rng.random() < 0.6:
            store, rules, reg, queries = gen_layered(rng)
            fam = "layered"
        else:
            fam = "random"
            nu = rng.randint(1, 4)
            users = [("user:u%d" % i) if rng.random() < 0.7 else ("u%d" % i) for i in range(nu)]
            no = rng.randint(1, 10)
            objs = ["%s:%d" % (rng.choice(["doc", "folder", "group"]), i) for i in range(no)]
            if rng.random() < 0.1:
                objs.append(rng.choice(["doc:1:x", "plain", "", ":", "user:u0", "d\u00f3c:\u00e9"]))
            store = []
            for _ in range(rng.choice([0, 1, 2, 3, 5, 8, 12, 20, 30, 40])):
                x = rng.random()
                if store and x < 0.1:
                    t = list(rng.choice(store))                        # duplicate (maybe other caveat)
                elif x < 0.45:
                    t = [rng.choice(users), rng.choice(rels), rng.choice(objs), None]
                elif x < 0.9:
                    a, b = rng.choice(objs), rng.choice(objs)
                    if rng.random() < 0.1:
                        b = a                                          # self-loop
                    t = [a, rng.choice(["parent", "parent", "member", "viewer", "editor"]), b, None]
                else:
                    t = [rng.choice(users + objs), rng.choice(rels), rng.choice(users + objs), None]
                t[3] = rng.choice(CAVS) if rng.random() < 0.25 else None
                store.append(t)
            if rng.random() < 0.35:
                rules = RULE_POOL[rng.randrange(len(RULE_POOL))]
            else:
                rules = {}
                for ty in ["doc", "folder", "group", "user", ""]:
                    if rng.random() < (0.7 if ty in ("doc", "folder", "group") else 0.15):
                        rules[ty] = {r: rand_expr(rng, rels, 3) for r in rels if rng.random() < 0.6}
            reg = {c: rng.choice(kinds) for c in CAVS if rng.random() < 0.7}
            queries = [[rng.choice(users + objs[:1]), rng.choice(rels), rng.choice(objs)] for _ in range(4)]
        ctx = rng.choice(CTXS)
        c = {"store": store, "rules": rules, "reg": reg, "ctx": ctx, "queries": queries,
             "limits": rand_limits(rng, 5), "fam": fam}
        if rng.random() < 0.4:
            c["batches"] = rand_batches(rng, queries, len(store))
        if rng.random() < 0.2:
            c["lookups"] = lookups_for(store)
        out.append(c)
    return out


# ---- the store as a set (coq/theories/RebacMono.v) -----------------------------
def gen_setmono_cases(chk):
    """groups of three stores for c12_same_tuples_same_answer / c12_more_tuples_only_grant: a layered graph, the same
    tuples in another insertion order with some repeated, and a superset.  No deadline, generous node budget."""
    rng = chk.rng
    out = []
    for g in range(250 if chk.tier == "quick" else 3000):
        store, rules, reg, queries = gen_layered(rng)
        ctx = rng.choice(CTXS)
        perm = [list(t) for t in store]
        rng.shuffle(perm)
        for _ in range(rng.randint(0, 3)):
            if perm:
                perm.insert(rng.randrange(len(perm) + 1), list(rng.choice(store)))
        more = [list(t) for t in store]
        names = sorted({t[0] for t in store} | {t[2] for t in store})
        for _ in range(rng.randint(1, 4)):
            t = [rng.choice(names), rng.choice(["parent", "viewer", "editor", "owner", "member", "granted"]),
                 rng.choice(names), rng.choice(CAVS) if rng.random() < 0.2 else None]
            more.insert(rng.randrange(len(more) + 1), t)
        lms = [lim(rng.choice([0, 1, 2, 3, 8]), 10000)]
        for variant, st in (("base", store), ("perm", perm), ("more", more)):
            out.append({"store": st, "rules": rules, "reg": reg, "ctx": ctx, "queries": queries, "limits": lms,
                        "fam": "setmono", "grp": g, "variant": variant})
    return out


def setmono_compare(chk, cases):
    """the implementation against itself on each group (every member is also judged against the model by
    check_cases): equal answers on equal tuple sets, and no True lost when tuples are added."""
    impl = Impl()
    try:
        for i in range(0, len(cases) - 2, 3):
            base, perm, more = cases[i:i + 3]
            ans = []
            for c in (base, perm, more):
                st, rules, reg = impl.build(c)
                ans.append([impl.check(st, rules, reg, c.get("ctx"), q, c["limits"][0]) for q in c["queries"]])
            for qi, q in enumerate(base["queries"]):
                a, b, m = ans[0][qi], ans[1][qi], ans[2][qi]
                chk.count("setmono:" + ("true" if a is True else "false" if a is False else "other"))
                if a != b:
                    chk.violation("the same tuples in another insertion order / with repeats give another answer "
                                  "(no deadline, node budget 10000): c12_same_tuples_same_answer, c12_store_is_a_set",
                                  {"base": single(base, q, base["limits"][0]), "perm_store": perm["store"]},
                                  impl={"base": a, "perm": b})
                if a is True and m is not True:
                    chk.violation("an answer True is lost after tuples were ADDED to the store (no deadline, node "
                                  "budget 10000): c12_more_tuples_only_grant",
                                  {"base": single(base, q, base["limits"][0]), "more_store": more["store"]},
                                  impl={"base": a, "more": m})
    finally:
        impl.restore()


# ---- histories ---------------------------------------------------------------
HX = [None, {}, {"ok": True, "hour": 10}, {"ok": False, "hour": 22}]     # raise / raise / true / false for "ctx", "hour"
H_CHECKERS = [[None, None, None], [1, 10000, 50]]
# (name, initial store, 3 queries, 3 additions): caveated direct tuples and caveated parent edges share caveat names
H_STORES = [
    ("direct+edge", [["user:a", "viewer", "doc:1", "c1"], ["folder:1", "parent", "doc:2", "c1"],
                     ["user:b", "viewer", "folder:1", None]],
     [["user:a", "viewer", "doc:1"], ["user:b", "viewer", "doc:2"], ["user:a", "viewer", "doc:2"]],
     [["user:a", "viewer", "folder:1", "c2"], ["user:a", "viewer", "doc:1", "c2"], ["folder:1", "parent", "doc:2", None]]),
    ("both-orders+chain", [["user:a", "viewer", "doc:1", "c2"], ["user:a", "viewer", "doc:1", "c1"],
                           ["folder:1", "parent", "doc:1", "c2"], ["folder:2", "parent", "folder:1", "c1"],
                           ["user:b", "viewer", "folder:2", "c1"]],
     [["user:a", "viewer", "doc:1"], ["user:b", "viewer", "doc:1"], ["user:b", "viewer", "folder:1"]],
     [["user:b", "viewer", "folder:2", "c2"], ["folder:2", "parent", "folder:1", "cU"], ["user:b", "viewer", "doc:1", "c1"]]),
    ("unregistered+plain", [["user:a", "viewer", "doc:1", "cU"], ["folder:1", "parent", "doc:1", None],
                            ["user:a", "viewer", "folder:1", "c1"], ["folder:1", "parent", "doc:2", "c2"]],
     [["user:a", "viewer", "doc:1"], ["user:a", "viewer", "doc:2"], ["user:a", "viewer", "folder:1"]],
     [["user:a", "viewer", "doc:1", "c1"], ["user:a", "viewer", "doc:1", None], ["folder:1", "parent", "doc:2", "c1"]]),
]
H_REGS = [{"c1": "ctx", "c2": "ctx"}, {"c1": "once:T", "c2": "ctx"}, {"c1": "hour", "c2": "isnone"},
          {"c1": "ctx", "c2": "nok"}, {"c1": "once:ctx", "c2": "once:nok"}, {"c1": "get", "c2": "R"}]


def hist_alphabet(queries, adds, full):
    calls = [["check", 0, q, x, None] for q in queries for x in HX]
    if full:
        calls += [["batch", 0, [q, queries[(i + 1) % len(queries)], q], x] for i, q in enumerate(queries) for x in HX]
        calls += [["check", 1, q, x, None] for q in queries for x in HX]      # a second checker (max_depth 1)
    else:
        calls += [["batch", 0, queries + [queries[0]], x] for x in HX]
    return calls, [["add"] + t for t in adds]


def gen_hist_enum(chk):
    """every history of <= L ops over an alphabet of calls (queries x contexts x {check, batch}) and store
    additions, ending in a call; yields chunks."""
    thorough = chk.tier == "thorough"
    plans = []       # (store index, registry index, full alphabet, L)
    for si in range(len(H_STORES)):
        for ri in range(len(H_REGS)):
            if thorough:
                plans.append((si, ri, (ri - si) % 2 == 0, 3))     # larger alphabet for every other pair
                if ri == (0, 1, 3)[si]:
                    plans.append((si, ri, False, 4))
            else:                                          # quick: small alphabet, one registry per store to length 3
                plans.append((si, ri, False, 3 if ri == (0, 1, 3)[si] else 2))
    out, k = [], 0
    for si, ri, full, L in plans:
        name, store, queries, adds = H_STORES[si]
        calls, addops = hist_alphabet(queries, adds, full)
        alpha = calls + addops
        for n in range(1, L + 1):
            if not full and L == 4 and n < 4:
                continue                                   # the shorter ones are in the L = 3 plan
            for pre in itertools.product(alpha, repeat=n - 1):
                for last in calls:
                    k += 1
                    out.append({"store": store, "rules": RULE_POOL[4], "reg": H_REGS[ri], "checkers": H_CHECKERS,
                                "shared_ctx": bool(k & 1), "ops": list(pre) + [last], "fam": "hist-enum:" + name})
                    if len(out) >= 20000:
                        yield out
                        out = []
    if out:
        yield out


HCTXS = [None, {}, {"ok": True}, {"ok": False}, {"ok": True, "hour": 10}, {"ok": 0, "hour": 22}, {"hour": "x"},
         {"hour": 12}, {"ok": "x", "z": [1]}]
HKINDS = ["ctx", "ctx", "ctx", "nok", "hour", "hour", "isnone", "get", "T", "F", "R", "none", "badbool", "truthy"]


def gen_hist_random(chk):
    """longer seeded random histories over layered graphs: several checkers (different limits) over one growing
    store, contexts on which predicates are true / false / raise, clock scripts, batches with repeats."""
    rng = chk.rng
    out = []
    for _ in range(800 if chk.tier == "quick" else 12000):
        store, rules, _reg, queries = gen_layered(rng)
        for t in store:
            if t[3] is None and rng.random() < 0.3:
                t[3] = rng.choice(CAVS)
        reg = {c: rng.choice(HKINDS) for c in CAVS if rng.random() < 0.85}
        used = sorted({t[3] for t in store if t[3] is not None and t[3] in reg})
        if used and rng.random() < 0.3:                   # at most one stateful predicate, on a name in use
            reg[rng.choice(used)] = rng.choice(["once:T", "once:ctx", "once:nok", "once:hour"])
        queries = queries + [[t[0], t[1], t[2]] for t in store if t[1] != "parent"][:4]
        subjects = sorted({q[0] for q in queries})
        k = rng.randint(0, len(store))
        cur, later = [list(t) for t in store[:k]], [list(t) for t in store[k:]]
        init = [list(t) for t in cur]
        checkers = [[rng.choice([8, None, 8, 3, 2, 1]), rng.choice([10000, None, 10000, 50, 6, 3]),
                     rng.choice([50, None, 0])] for _ in range(rng.choice([1, 1, 2, 3]))]
        ops = []
        for _ in range(rng.randint(3, 12)):
            x = rng.random()
            if x < 0.3:
                y = rng.random()
                if later and y < 0.6:
                    t = later.pop()
                elif cur and y < 0.9:
                    t = list(rng.choice(cur))                       # same triple, other caveat / plain / same
                    t[3] = rng.choice(CAVS + [None, None, t[3]])
                else:
                    q = rng.choice(queries)
                    t = [rng.choice(subjects), q[1], q[2], rng.choice(CAVS + [None])]
                cur.append(t)
                ops.append(["add"] + t)
                continue
            ci = rng.randrange(len(checkers))
            ctx = rng.choice(HCTXS)
            if x < 0.75:
                sc = None
                if rng.random() < 0.25:
                    d = START + (DEFAULTS[2] if checkers[ci][2] is None else checkers[ci][2]) * 1_000_000
                    sc = [START, [START] * rng.randint(0, 4), rng.choice([START, d, d + 1])]
                ops.append(["check", ci, rng.choice(queries), ctx, sc])
            else:
                ops.append(["batch", ci, [rng.choice(queries) for _ in range(rng.randint(1, 5))], ctx])
        if ops[-1][0] == "add":
            ops.append(["check", 0, rng.choice(queries), rng.choice(HCTXS), None])
        out.append({"store": init, "rules": rules, "reg": reg, "checkers": checkers,
                    "shared_ctx": rng.random() < 0.5, "ops": ops, "fam": "hist-random"})
    return out


# ---- concurrent calls -------------------------------------------------------------
GOOD = {"ok": True, "hour": 10}


def conc_store(N, D):
    """N disjoint chains doc:d<n> <- f<n>_0 <- ... <- f<n>_(D-1) with the grant of user:u<n> on the last folder:
    (u<n>, viewer, d<n>) needs D + 1 visits; caveats (c1 on every other edge, c2 on every other grant)."""
    st = []
    for n in range(N):
        prev = "doc:d%d" % n
        for i in range(D):
            f = "folder:f%d_%d" % (n, i)
            st.append([f, "parent", prev, "c1" if (i + n) % 2 == 0 else None])
            prev = f
        st.append(["user:u%d" % n, "viewer", prev, "c2" if n % 2 else None])
    return st


def conc_case(N, D, slack, kind, level, sched):
    q = [["user:u%d" % n, "viewer", "doc:d%d" % n] for n in range(N)]
    if kind == "own":
        progs = [[["check", q[n], GOOD]] for n in range(N)]
    elif kind == "same":
        progs = [[["check", q[0], GOOD]] for n in range(N)]
    else:   # mixed: repeated checks, batches with a non-derivable triple and a repeat, a context the predicates raise on
        progs = []
        for n in range(N):
            cross = ["user:u%d" % n, "viewer", "doc:d%d" % ((n + 1) % N)]
            progs.append([[["check", q[n], GOOD], ["check", q[n], GOOD]],
                          [["batch", [q[n], cross, q[n]], GOOD]],
                          [["check", q[n], None], ["check", q[n], GOOD]]][n % 3])
    k = D + 1
    mn = 10000 if slack is None else k + slack
    return {"store": conc_store(N, D), "rules": RULE_POOL[4], "reg": {"c1": "hour", "c2": "ctx"},
            "checker": [D + 2, mn, None], "threads": progs, "level": level, "sched": sched,
            "fam": "conc-%s:%s" % (level, kind)}


def gen_conc_cases(chk):
    thorough = chk.tier == "thorough"
    out = []
    kinds = ["own", "mixed", "same"]
    j = 0
    for N in ((2, 3, 4, 5, 6, 7, 8) if thorough else (2, 3, 5, 8)):
        for D in ((1, 2, 4, 7) if thorough else (2, 5)):
            for slack in ((0, D, None) if thorough else (0, D)):
                j += 1
                ks = kinds if thorough and N <= 3 else [kinds[j % 3], kinds[(j + 1) % 3]] if thorough else [kinds[j % 3]]
                for kind in ks:
                    specs = [{"kind": "rr", "quantum": 1}, {"kind": "rr", "quantum": 2},
                             {"kind": "random", "seed": j, "count": 6 if thorough else 4}]
                    if N <= (3 if thorough else 2):
                        specs.append({"kind": "single"})
                    for sp in specs:
                        out.append(conc_case(N, D, slack, kind, "hook", sp))
    # line level (harness/sched.py): two threads, single pre-emptions before every line (or every 2nd / 3rd)
    for D, slack, kind, stride in (((1, 0, "own", 1), (2, 0, "own", 2), (2, 1, "mixed", 3), (3, 0, "same", 3))
                                   if thorough else ((2, 0, "own", 3),)):
        out.append(conc_case(2, D, slack, kind, "line", {"kind": "single", "stride": stride}))
    # free-running threads (sampled schedules)
    for N, D in (((5, 6), (8, 4), (3, 7), (2, 6)) if thorough else ((5, 6), (8, 4))):
        out.append(conc_case(N, D, 0, "own", "free", {"kind": "free", "rounds": 5 if thorough else 3}))
    return out


# ---- histories of the rule-map helper -------------------------------------------------------
# the 6 argument combinations (parent relation none / "parent" / "org" x group grants on / off), each in several
# spellings (defaults omitted or explicit, keyword or positional)
HELPER_ARGS = [
    [{}, {"parent_rel": None}, {"with_group_grants": True}, {"parent_rel": None, "with_group_grants": True}],
    [{"with_group_grants": False}, {"parent_rel": None, "with_group_grants": False}],
    [{"parent_rel": "parent"}, {"parent_rel": "parent", "with_group_grants": True}],
    [{"parent_rel": "parent", "with_group_grants": False}],
    [{"parent_rel": "org"}, {"parent_rel": "org", "with_group_grants": True}],
    [{"parent_rel": "org", "with_group_grants": False}],
]
# two containment hierarchies from folder:1 (over "parent" and over "org"), nested objects of BOTH types on each,
# grants of every role at different levels, a group granted an outer and an inner object
HELPER_STORE = [
    ["folder:1", "parent", "folder:2", None], ["folder:2", "parent", "doc:1", None], ["doc:1", "parent", "doc:2", None],
    ["folder:1", "org", "folder:3", None], ["folder:3", "org", "doc:3", None], ["doc:3", "org", "doc:4", None],
    ["user:o", "owner", "folder:1", None], ["user:e", "editor", "folder:2", None], ["user:v", "viewer", "folder:3", None],
    ["user:d", "editor", "doc:1", None], ["user:x", "owner", "doc:3", None],
    ["group:g", "granted", "folder:1", None], ["group:g", "granted", "doc:4", None], ["user:m", "member", "group:g", None],
]
HELPER_OBJS = ["folder:1", "folder:2", "folder:3", "doc:1", "doc:2", "doc:3", "doc:4"]
HELPER_USERS = ["user:o", "user:e", "user:v", "user:d", "user:x", "user:m"]
HELPER_QUERIES = [[u, r, o] for u in HELPER_USERS for r in ROLES for o in HELPER_OBJS]          # 126
HELPER_EDITS = [["append", "viewer", ttu("org", "viewer")], ["append", "owner", ttu("parent", "owner")],
                ["append", "editor", ttu("org", "editor")], ["append", "editor", cu("commenter")],
                ["add", "commenter", un("this", cu("viewer"))], ["add", "commenter", cu("owner")],
                ["append", "viewer", ttu("granted", "member")], ["append", "commenter", "this"]]


def _helper_call(k, ai):
    sp = HELPER_ARGS[ai]
    a = sp[k % len(sp)]
    return ["call", a, "pos" if (k // len(sp)) % 2 and "parent_rel" in a else "kw"]


def gen_helper_cases(chk):
    """histories of standard_userset calls in one process: every sequence of <= 2 calls over the 6 argument
    combinations x every assignment of two of the results to the object types doc / folder, over a store with nested
    objects of both types; all 126 (user, role, object) queries; sequences of 3 and 4 calls x assignments on a stride
    (thorough: every 2nd of the 1944 of length 3)."""
    thorough = chk.tier == "thorough"
    out, k = [], 0
    lims = [NOLIMIT, lim(2, 10000)] + ([lim(1, 10000), lim(None, None, None)] if thorough else [])
    for n in (1, 2, 3, 4):
        for seq in itertools.product(range(len(HELPER_ARGS)), repeat=n):
            for di, fi in itertools.product(range(n), repeat=2):
                k += 1
                stride = {1: 1, 2: 1, 3: 2 if thorough else 37, 4: 59 if thorough else 601}[n]
                if k % stride:
                    continue
                ops = [_helper_call(k + j, ai) for j, ai in enumerate(seq)]
                out.append({"hops": ops, "rules": {"doc": ["helper", di], "folder": ["helper", fi],
                                                   "group": {"member": un("this")}},
                            "store": HELPER_STORE, "reg": None, "ctx": None, "queries": HELPER_QUERIES,
                            "limits": lims if n <= 2 else lims[:2] if thorough else lims[:1], "fam": "helper-enum"})
    return out


def gen_helper_random(chk):
    """seeded random helper histories (1..4 calls, the caller's own edits of single results in between) configuring
    doc / folder / group over random layered stores (caveats, cycles, groups)."""
    rng = chk.rng
    out = []
    for _ in range(150 if chk.tier == "quick" else 3000):
        store, _rules, reg, queries = gen_layered(rng)
        ops, ncalls = [], 0
        for _j in range(rng.randint(1, 4)):
            a = {}
            if rng.random() < 0.7:
                a["parent_rel"] = rng.choice([None, "parent", "parent", "parent", "org", "granted"])
            if rng.random() < 0.6:
                a["with_group_grants"] = rng.random() < 0.5
            ops.append(["call", a, "pos" if "parent_rel" in a and rng.random() < 0.3 else "kw"])
            ncalls += 1
            while rng.random() < 0.2:
                ops.append(["edit", rng.randrange(ncalls)] + copy.deepcopy(rng.choice(HELPER_EDITS)))
        rules = {"doc": ["helper", rng.randrange(ncalls)], "folder": ["helper", rng.randrange(ncalls)]}
        x = rng.random()
        if x < 0.6:
            rules["group"] = {"member": un("this")}
        elif x < 0.8:
            rules["group"] = ["helper", rng.randrange(ncalls)]
        users = sorted({q[0] for q in queries})
        objs = sorted({t[2] for t in store if ":" in t[2]}) or ["doc:0"]
        queries = queries + [[rng.choice(users), rng.choice(ROLES + ("commenter",)), rng.choice(objs)] for _j in range(8)]
        out.append({"hops": ops, "rules": rules, "store": store, "reg": reg, "ctx": rng.choice(CTXS), "queries": queries,
                    "limits": [NOLIMIT, lim(rng.choice([0, 1, 2, 3]), 10000), lim(None, None, None)],
                    "fam": "helper-random"})
    return out


def load_corpus():
    d = lib.VERIF / "corpus" / "C12"
    out = []
    for f in sorted(d.glob("*.json")):
        data = json.loads(f.read_text())
        c = lib.unjson(data["case"])
        c.setdefault("fam", "corpus")
        c.setdefault("id", data.get("id", f.stem))
        out.append(c)
    return out


def run(chk):
    chk.rule = ("one evaluation = one (store, rules, registry, context, query, limits+clock script) check, or one "
                "batch_check, or one set of store lookups. Enumerated: every store of <=1 tuple over 5 subjects x 3 "
                "relations x 3 objects x 5 caveat flavours (none/true/false/raising/unregistered) x 12 rule maps x 5 "
                "queries x 8 limit settings (complete in both tiers); every ordered pair of those 225 tuples, every "
                "3-subset of the 45 uncaveated ones, every 4-subset of a 12-tuple parent/grant universe x rule maps x "
                "limit grid (max_depth {-1,0,1,2,8} x max_nodes {0,1,2,3,10000} x deadline at read {none,0,1,2} + "
                "defaults/boundary settings) on a deterministic stride (quick: coarse, thorough: every 2nd / all); "
                "hand-picked shapes x 18 registries x the full grid; chains of depth 7..12 and fans of 9999/10000 parents "
                "under omitted (default) limits; seeded random graphs up to 40 tuples with cycles, "
                "self-loops, duplicates, object->object chains, random nested rules, random limits and clock scripts, "
                "batches with repeated triples. non-trivial = the search visited >= 2 nodes or answered true (batch: "
                "a triple is repeated); distinct = distinct (group content, query, limits). Histories (one evaluation = "
                "one check/batch_check call of a history, compared with a fresh checker over a fresh store and with the "
                "model): every sequence of <= 3 ops (quick: <= 2 ops for 15 of the 18 store x registry pairs; thorough: "
                "larger alphabet and a second checker for 9 pairs, and <= 4 ops for 3 pairs) ending in a call over "
                "{check, batch_check} x 3 queries x 4 contexts (None, {}, predicate true, predicate false) + 3 store "
                "additions (caveated / same triple other caveat / plain duplicate), for 3 stores whose caveated direct "
                "tuples and caveated parent edges share caveat names x registries of context-reading predicates "
                "(raising on None / missing key, first-call-only raising, never raising, unregistered name); seeded "
                "random histories of 3..13 ops over layered graphs with 1..3 checkers of different limits on one "
                "growing store, clock scripts and batches with repeats; non-trivial = not the first call of its "
                "history and (>= 2 nodes visited or answered true); distinct = distinct (history, call index). "
                "Concurrent calls (one evaluation = one call answer under one schedule, compared with a fresh checker "
                "asked alone and with the model): 2..8 real threads on ONE checker over disjoint caveated chains where a "
                "check needs k = depth + 1 visits and max_nodes is k, k + depth (less than the sum of two) or 10000, "
                "constant clock; programmes: own query / the same query / repeated checks, batches with a non-derivable "
                "triple, a context the predicates raise on; deterministic cooperative schedules whose stop points are "
                "every clock read (per call and per visited node) and every predicate call: round robin with quantum 1 "
                "and 2, seeded random, all single pre-emptions (2 threads; thorough <= 3); two threads under the "
                "line-level scheduler harness/sched.py over rbacx/rebac/local.py with single pre-emptions before every "
                "(or every 2nd / 3rd; quick: every 3rd) source line; a few rounds of free-running threads with yielding predicates (sampled "
                "schedules); non-trivial = at least two threads ran and (>= 2 nodes visited or answered true). "
                "Helper histories (one evaluation = the structural judgement of one history, or one check over the "
                "rule maps it produced): histories of calls of rbacx.rebac.helpers.standard_userset in one process "
                "(module freshly loaded per history), judged against the documented meaning of the helper written down "
                "in the harness (spec_standard_userset), not against what it returns: after EVERY call every result so "
                "far must be the documented rule map of its own arguments (up to order / repetition / nesting of union "
                "members), and a checker whose object types doc / folder take the results of two (same or different) "
                "calls must answer as the model does on the documented maps; every sequence of <= 2 calls (3 and 4 "
                "calls on a stride; thorough: every 2nd (sequence, assignment) of length 3) over the 6 argument combinations (parent relation none / parent / org x "
                "group grants on / off; defaults omitted or explicit, keyword or positional) x every assignment of "
                "results to the two types x all 126 (user, role, object) queries over a store with nested objects of "
                "both types under both parent relations x max_depth {8, 2} (thorough + {1, default}); seeded random "
                "histories of 1..4 calls with the caller's own edits of single results (append a union member, add a "
                "relation) over random layered stores; non-trivial = the history has >= 2 calls (and, for a check, >= "
                "2 nodes visited or answered true)")
    chk.assumptions = [
        "subjects, relations, objects and caveat names are str; max_depth/max_nodes/deadline_ms are int",
        "a caveat predicate is a function of the context of the call (model: option bool per name); only "
        "Exception subclasses are raised by predicates (the history families also use predicates whose first call "
        "ever raises: that call is judged between the model with the predicate raising and with its pure value)",
        "rule maps are dicts of dicts (or None) whose leaves are This/ComputedUserset/TupleToUserset/list; anything "
        "else is an ignored 'unknown' node",
        "time is read through time.perf_counter_ns only (scripted test-side)",
        "concurrent family: controlled schedules pre-empt a thread only at test-side hooks (clock reads, predicate "
        "calls) or, for two threads, before source lines of rbacx/rebac/local.py; free-running rounds sample schedules",
        "helper histories: the documented meaning of standard_userset(parent_rel, with_group_grants) is the one written "
        "in spec_standard_userset (docs/rebac/local.md tip + examples/rebac/rebac_local_demo_with_helper.py: viewer <- "
        "editor <- owner, every role inherited over parent_rel when given, members of granted groups are viewers); "
        "parent_rel is None or a non-empty str, with_group_grants a bool; rule maps are compared up to the union "
        "semantics; the process history of the helper module starts at importlib.reload",
    ]
    corpus = load_corpus()
    chk.extra["corpus_witnesses"] = [c.get("id") for c in corpus]
    check_cases(chk, corpus)
    check_cases(chk, gen_default_cases(chk))
    check_cases(chk, gen_seed_cases(chk))
    enum = gen_enum_cases(chk)
    for i in range(0, len(enum), 20000):
        check_cases(chk, enum[i:i + 20000])
    chk.exhaustive = True  # enum1 is complete in both tiers; the strided families are reported in `rule`
    chk.extra["enumerated_groups"] = len(enum)
    rnd = gen_random_cases(chk)
    for i in range(0, len(rnd), 10000):
        check_cases(chk, rnd[i:i + 10000])
    nh = 0
    for chunk in gen_hist_enum(chk):
        nh += len(chunk)
        check_cases(chk, chunk)
    chk.extra["enumerated_histories"] = nh
    hr = gen_hist_random(chk)
    for i in range(0, len(hr), 5000):
        check_cases(chk, hr[i:i + 5000])
    cc = gen_conc_cases(chk)
    chk.extra["concurrent_cases"] = len(cc)
    check_cases(chk, cc)
    hh = gen_helper_cases(chk) + gen_helper_random(chk)
    chk.extra["helper_histories"] = len(hh)
    for i in range(0, len(hh), 400):
        check_cases(chk, hh[i:i + 400])
    sm = gen_setmono_cases(chk)
    chk.extra["setmono_groups"] = len(sm) // 3
    check_cases(chk, sm)
    setmono_compare(chk, sm)
    # _split_ref (private helper; skipped when it is gone)
    from rbacx.rebac import local as L

    f = getattr(L, "_split_ref", None)
    if f is not None:
        refs = ["doc:1", "user:a", "b", "", ":", ":x", "x:", "a:b:c", "dóc:é", "folder", "user", "::"]
        outs = [lib.dec(x) for x in lib.run_model("rebac", [lib.model_call("rebac.split", r) for r in refs])]
        for r, m in zip(refs, outs):
            got = f(r)[0]
            chk.mark(("split", r), True)
            if got != m:
                chk.corr_break("_split_ref(%r) type differs" % r, {"store": [], "queries": [], "limits": [],
                                                                   "split": r}, impl=got, model=m, theorems=THMS)
    else:
        chk.notes.append("_split_ref not found; object-type extraction checked only through check()")
