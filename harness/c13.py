"""C13 — rel conditions: canonical lookup, fail closed, memoised per decision only.

Implementation side: Guard with recording relationship checkers (plain, and asynchronous in every shape the port
allows: async def, plain def returning a coroutine / an asyncio Future / a Task of the captured loop / an object with
only __await__, a functools.wraps-decorated async def, an object with async __call__, functools.partial of an async
function, or a per-query mix; returning non-bool truthy/falsy values, raising, raising in bool(), slow beyond the time-out (patched down), absent;
the checker OBJECT itself false as a Python value — the recording checker deriving from an empty list / dict / set, with
__len__ == 0 or __bool__ False (case field "falsy"; the object handed to Guard is that very object) — and still configured),
policies with rel in short and extended form (overrides as literals / attribute references, with/without
':', ctx merged over context._rebac), nested under and/or/not, repeated, over several rules, in policy sets,
through the compiled function, the set interpreter and the compiled->interpreter fallback; sequences of
decisions with the relationship data changed in between; asyncio.gather and threads over two engines with
complementary relationship data.  Observables per decision: the exact ordered argument tuples the checker
received (subject, relation, resource, context dict) and the full Decision.

Judged directly on the implementation (independently of the model, from the statement):
  (a) every call is the canonical triple + merged context of some rel node of the policy on this request;
  (b) no two calls of one decision have the same triple-and-context;
  (c) the decision is the one the policy yields when every rel node is judged by the relationship data for
      its own canonical query (raised / timed out / absent = false): a permit that this does not back is a
      violation, so is any other difference when a needed lookup was skipped although another decision made it;
  (d) a call arriving at the other engine's checker, or attributed to another decision;
  (e) a sync and an async checker with the same data give the same decisions and calls.
Compared with the extracted model (runner relcond): the ordered call log and the Decision — a difference
there only is broken correspondence (followed by a search over data variants for a failing input).

Case kind "local" (tie of the C13 x C12 composition, theories/RelLocal.v): the checker is a real
LocalRelationshipChecker over a real InMemoryRelationshipStore (thin recording subclass that only delegates).
Every lookup the engine made is judged by the C12 model (runner rebac) as c12.py judges a check; the Decision is
compared with the C13 model whose relationship table holds the C12 MODEL's answers (a permit the composed model
does not give is a violation, c13_local_permit_rule_derivable); evaluate_sync and evaluate_async must agree."""
import asyncio
import contextvars
import copy
import datetime as _dt
import functools
import hashlib
import itertools
import json
import math
import multiprocessing as mp
import random
import threading
import time

import lib
import c12   # the local checker's side of the composition: store / rule-map / registry generators, model entry, judgement

RUNNER = "relcond"
FID = "F25"
THEOREMS = ["c13_exact_triple_calls", "c13_exact_triple_holds", "c13_at_most_once", "c13_memo_transparent",
            "c13_fresh_per_decision", "c13_fail_closed_decision"]
TWIN_KINDS = ("sync", "values", "flaky", "raising", "badbool", "slow")
SLOW_T = 1.0     # patched time-out (s) in cases with a slow checker: "slow" answers never finish, the others are
#                  immediate, so the two are apart by far more than a scheduling hiccup
LATE_SHARE = 0.9  # a time-out of the bridge is excused as "late under load" only if the bridge really waited that long

DEC = contextvars.ContextVar("c13_decision", default=None)


# --------------------------------------------------------------------------------------------
# canonical text of a context (the harness's own notion of "the same context")
# --------------------------------------------------------------------------------------------
def tagged(v):
    if isinstance(v, bool) or v is None or isinstance(v, str):
        return v
    if isinstance(v, int):
        return {"$i": str(v)}
    if isinstance(v, float):
        return {"$f": repr(v)}
    if isinstance(v, _dt.datetime):
        return {"$dt": v.isoformat()}
    if isinstance(v, (list, tuple)):
        return [tagged(x) for x in v]
    if isinstance(v, dict):
        return {"$o": {str(k): tagged(x) for k, x in v.items()}}
    return {"$repr": repr(v)}


def ckey(ctx):
    return json.dumps(tagged(ctx), sort_keys=True)


def qkey(s, r, o, ctx):
    return json.dumps([s, r, o, tagged(ctx)], sort_keys=True)


def has_nonjson(v):
    if isinstance(v, _dt.datetime):
        return True
    if isinstance(v, (list, tuple)):
        return any(has_nonjson(x) for x in v)
    if isinstance(v, dict):
        return any(has_nonjson(x) for x in v.values())
    return False


_F25 = {"present": None}


def f23_present():
    """the model's switch for finding F25, set by running the witness on the implementation:
    True = a datetime and its str() text share a memo key (the tree as it is)"""
    if _F25["present"] is None:
        from rbacx.core.policy import _ctx_hash
        t = _dt.datetime(2020, 1, 1, tzinfo=_dt.timezone.utc)
        _F25["present"] = _ctx_hash({"t": t}) == _ctx_hash({"t": str(t)})
    return _F25["present"]


def dates_of(*vals):
    if not f23_present():
        return None          # the model keeps datetimes apart from strings
    out = {}

    def walk(v):
        if isinstance(v, _dt.datetime):
            out[(v.tzinfo is not None, v)] = str(v)
        elif isinstance(v, (list, tuple)):
            for x in v:
                walk(x)
        elif isinstance(v, dict):
            for x in v.values():
                walk(x)

    for v in vals:
        walk(v)
    rows = []
    for (aware, v), s in out.items():
        if aware:
            us = (v - _dt.datetime(1970, 1, 1, tzinfo=_dt.timezone.utc)) // _dt.timedelta(microseconds=1)
        else:
            us = (v - _dt.datetime(1970, 1, 1)) // _dt.timedelta(microseconds=1)
        rows.append([aware, us, s])
    return rows


# --------------------------------------------------------------------------------------------
# relationship data: a deterministic function of (data spec, query); the checker kinds deliver it
# --------------------------------------------------------------------------------------------
TRUTHY = [True, 1, "yes", [0], {"a": 0}, 2.5, "False", -1]
FALSY = [False, 0, "", [], {}, None, 0.0]


def _h(data, s, r, o, ctx):
    raw = repr((data.get("salt", 0), s, r, o, ckey(ctx))).encode()
    return int.from_bytes(hashlib.sha256(raw).digest()[:6], "big")


def truth(data, s, r, o, ctx):
    mode = data.get("mode", "hash")
    if mode == "all":
        t = True
    elif mode == "none":
        t = False
    elif mode == "has_dt":
        t = has_nonjson(ctx)
    elif mode == "rel":                      # affirmed relations named explicitly
        t = r in data.get("yes", [])
    else:
        t = _h(data, s, r, o, ctx) % 3 != 0
    return (not t) if data.get("neg") else t


def respond(kind, data, s, r, o, ctx):
    """what the configured checker does with this query: ["ret", v] | ["raise"] | ["timeout"] | ["badbool"]"""
    kind = base_kind(kind)                   # the answers do not depend on how they are delivered
    t = truth(data, s, r, o, ctx)
    h = _h(dict(data, salt=data.get("salt", 0) + 7919), s, r, o, ctx)
    if kind == "raising":
        return ["raise"]
    if kind == "flaky":
        return ["raise"] if h % 3 == 0 else ["ret", t]
    if kind == "badbool":
        return ["badbool"] if h % 2 == 0 else ["ret", t]
    if kind == "values":
        pool = TRUTHY if t else FALSY
        return ["ret", copy.deepcopy(pool[h % len(pool)])]
    if kind == "slow":
        return ["timeout"] if h % 3 == 0 else ["ret", t]
    return ["ret", t]


# every way a checker can be asynchronous (the port allows `bool | Awaitable[bool]`)
PER_CALL_SHAPES = ["plain", "coro", "future", "task", "await_obj"]            # decided by what check() returns
ATTR_SHAPES = ["async_def", "decorated", "callable_obj", "partial"]           # decided by what `check` is
SHAPES = PER_CALL_SHAPES + ATTR_SHAPES
ASYNC_SHAPES = [x for x in SHAPES if x != "plain"]


def base_kind(kind):
    """the answer kind without the legacy delivery suffix / names"""
    if not kind:
        return kind
    if kind.endswith("_async"):
        return kind[:-6]
    return {"async": "sync", "mixed": "sync"}.get(kind, kind)


def case_shape(kind, shape):
    """the delivery shape of a checker: explicit, or what the legacy kind names imply"""
    if shape:
        return shape
    if kind in ("async", "slow"):
        return "async_def"
    if kind == "mixed":
        return "mixed"
    if kind and kind.endswith("_async"):
        return "coro"
    return "plain"


def delivery(kind, data, s, r, o, ctx, shape=None):
    """how the answer to this query is handed over"""
    sh = case_shape(kind, shape)
    if sh == "mixed":
        pool = PER_CALL_SHAPES if base_kind(kind) != "slow" else PER_CALL_SHAPES[1:]
        return pool[_h(dict(data, salt=data.get("salt", 0) + 104729), s, r, o, ctx) % len(pool)]
    return sh


def model_resp(resp):
    return resp if resp[0] == "ret" else ["raise"]


# --------------------------------------------------------------------------------------------
# the statement, independently: canonical queries of a policy on a request
# --------------------------------------------------------------------------------------------
class SpecRaise(Exception):
    pass


def spec_env(req):
    s, r = req.get("subject") or {}, req.get("resource") or {}
    return {"subject": {"id": s.get("id"), "roles": list(s.get("roles") or []), "attrs": dict(s.get("attrs") or {})},
            "action": req.get("action"),
            "resource": {"type": r.get("type"), "id": r.get("id"), "attrs": dict(r.get("attrs") or {})},
            "context": dict(req.get("context") or {})}


def spec_resolve(tok, env):
    if isinstance(tok, dict) and "attr" in tok:
        cur = env
        for p in str(tok["attr"]).split("."):
            cur = cur.get(p) if isinstance(cur, dict) else None
        return cur
    return tok


def spec_subject(env, ov):
    if ov is not None:
        v = spec_resolve(ov, env)
        if isinstance(v, str):
            return v if ":" in v else "user:" + v
    sid = env["subject"]["id"]
    return "user:" if sid is None else "user:%s" % (sid,)


def spec_resource(env, ov):
    rtype = env["resource"]["type"] or "object"
    if ov is not None:
        v = spec_resolve(ov, env)
        if isinstance(v, str):
            return v if ":" in v else "%s:%s" % (rtype, v)
    rid = env["resource"]["id"]
    return "%s:" % (rtype,) if rid is None else "%s:%s" % (rtype, rid)


def spec_ctx(env, lc):
    try:
        base = dict(env["context"].get("_rebac") or {})
        if lc:
            base.update(dict(lc))
    except Exception as e:  # noqa: BLE001
        raise SpecRaise(type(e).__name__)
    return base


def rel_nodes(cond):
    if not isinstance(cond, dict):
        return
    if "rel" in cond:
        yield cond["rel"]
        return
    for k in ("and", "or"):
        if k in cond and isinstance(cond[k], list):
            for x in cond[k]:
                yield from rel_nodes(x)
    if "not" in cond:
        yield from rel_nodes(cond["not"])


def all_rules(pol):
    if not isinstance(pol, dict):
        return
    if "policies" in pol:
        for ch in pol.get("policies") or []:
            yield from all_rules(ch)
    else:
        for r in pol.get("rules") or []:
            if isinstance(r, dict):
                yield r


def spec_query(expr, env):
    """None = the node is false without a lookup"""
    if isinstance(expr, str):
        rel, so, ro, lc = expr, None, None, None
    elif isinstance(expr, dict):
        rel, so, ro, lc = str(expr.get("relation") or ""), expr.get("subject"), expr.get("resource"), expr.get("ctx")
    else:
        return None
    if not rel:
        return None
    return [spec_subject(env, so), rel, spec_resource(env, ro), spec_ctx(env, lc)]


def spec_queries(policy, req):
    env = spec_env(req)
    out = []
    for rule in all_rules(policy):
        for e in rel_nodes(rule.get("condition")):
            try:
                q = spec_query(e, env)
            except SpecRaise:
                continue
            if q is not None:
                out.append(q)
    return out


# --------------------------------------------------------------------------------------------
# implementation side
# --------------------------------------------------------------------------------------------
class BadBool:
    def __bool__(self):
        raise RuntimeError("no truth value")


class OnlyAwait:
    """awaitable through __await__ only: neither a coroutine object nor an asyncio Future (a client "call" object)"""

    def __init__(self, make):
        self._make = make

    def __await__(self):
        return self._make().__await__()


def decorated(fn):
    """a decorator as libraries write them: the wrapper is a plain function that returns the coroutine"""
    @functools.wraps(fn)
    def wrapper(*a, **kw):
        return fn(*a, **kw)
    return wrapper


class AsyncCallable:
    """an object whose __call__ is async, used as the `check` attribute"""

    def __init__(self, rec):
        self.rec = rec

    async def __call__(self, subject, relation, resource, *, context=None):
        return await self.rec._acheck(subject, relation, resource, context=context)


async def _partial_target(rec, subject, relation, resource, *, context=None):
    return await rec._acheck(subject, relation, resource, context=context)


class Recorder:
    """records every call at call time with the decision it belongs to (harness ContextVar, which the
    engine's own context propagation carries into the worker thread and into the awaited coroutine).
    shape = how the checker is asynchronous (SHAPES); the answers are the same whatever the shape."""

    def __init__(self, eng, kind, data, shape=None):
        self.eng, self.kind, self.data = eng, kind, data
        self.shape = case_shape(kind, shape)
        self.calls = []
        self.delegates, self.world = {}, None     # relation -> nested evaluation on another Guard (kind "nest")
        self._tl = threading.local()
        if self.shape == "async_def":
            self.check = self._acheck                      # a coroutine function (bound async method)
        elif self.shape == "decorated":
            self.check = decorated(self._acheck)
        elif self.shape == "callable_obj":
            self.check = AsyncCallable(self)
        elif self.shape == "partial":
            self.check = functools.partial(_partial_target, self)

    def _note(self, subject, relation, resource, context):
        ctx = copy.deepcopy(context)
        d = self.data() if callable(self.data) else self.data
        resp = respond(self.kind, d, subject, relation, resource, ctx)
        if relation in self.delegates:
            resp = ["delegate", relation]          # answered by evaluating a request on another engine
        how = delivery(self.kind, d, subject, relation, resource, ctx, self.shape)
        dec = DEC.get()
        if dec is None and self.world is not None:
            # evaluate_sync under a running loop moves the evaluation to a fresh thread: the caller's tag does not
            # travel; roots run one after the other, so an untagged lookup belongs to the root in progress
            dec = self.world.get("current_root")
        entry = {"eng": self.eng, "dec": dec, "q": [subject, relation, resource, ctx], "resp": resp,
                 "how": how, "ctx_is_dict": isinstance(context, dict)}
        self.calls.append(entry)
        self._tl.entry = entry
        return resp, how

    def _nested_begin(self, spec):
        w = self.world
        parent = DEC.get()
        rec = {"id": len(w["records"]), "parent": parent if parent is not None else w.get("current_root"),
               "engine": spec["engine"], "req": spec["req"],
               "via": spec.get("via", "evaluate"), "decision": None}
        w["records"].append(rec)
        return rec, w["guards"][spec["engine"]], DEC.set(rec["id"])

    def _nested_sync(self, spec):
        """check() of this engine's checker evaluates a request on another Guard, from the worker thread"""
        rec, g, tok = self._nested_begin(spec)
        try:
            if rec["via"] == "is_allowed":
                rec["decision"] = {"allowed": g.is_allowed_sync(*req_objs(spec["req"]))}
            else:
                rec["decision"] = dec_dict(g.evaluate_sync(*req_objs(spec["req"])))
        except Exception as e:  # noqa: BLE001
            rec["decision"] = ["Raise", type(e).__name__]
            raise RuntimeError("nested evaluation raised")
        finally:
            DEC.reset(tok)
        return rec["decision"]["allowed"]

    async def _nested_async(self, spec):
        """... or awaits it on the captured loop, inside the awaited answer"""
        rec, g, tok = self._nested_begin(spec)
        try:
            if rec["via"] == "is_allowed":
                rec["decision"] = {"allowed": await g.is_allowed_async(*req_objs(spec["req"]))}
            else:
                rec["decision"] = dec_dict(await g.evaluate_async(*req_objs(spec["req"])))
        except Exception as e:  # noqa: BLE001
            rec["decision"] = ["Raise", type(e).__name__]
            raise RuntimeError("nested evaluation raised")
        finally:
            DEC.reset(tok)
        return rec["decision"]["allowed"]

    def _now(self, resp):
        if resp[0] == "delegate":
            return self._nested_sync(self.delegates[resp[1]])
        if resp[0] == "ret":
            return copy.deepcopy(resp[1])
        if resp[0] == "badbool":
            return BadBool()
        raise RuntimeError("rebac down")

    def _lag(self):
        d = self.data() if callable(self.data) else self.data
        return float((d or {}).get("lag") or 0)

    async def _later(self, resp):
        await asyncio.sleep(self._lag())
        if resp[0] == "timeout":
            ev = asyncio.Event()
            await ev.wait()
        if resp[0] == "delegate":
            return await self._nested_async(self.delegates[resp[1]])
        return self._now(resp)

    async def _acheck(self, subject, relation, resource, *, context=None):
        resp, _how = self._note(subject, relation, resource, context)
        return await self._later(resp)

    def _future(self, resp, loop):
        """an asyncio Future of the captured loop, resolved later from the loop itself (or never: time-out)"""
        fut = loop.create_future()

        async def resolve():
            try:
                fut.set_result(await self._later(resp))
            except Exception as e:  # noqa: BLE001
                fut.set_exception(e)

        def fire():
            if fut.done() or resp[0] == "timeout":
                return
            if resp[0] == "delegate":
                loop.create_task(resolve())
                return
            try:
                fut.set_result(self._now(resp))
            except Exception as e:  # noqa: BLE001
                fut.set_exception(e)

        loop.call_soon_threadsafe(fire)
        return fut

    def _task(self, resp, loop):
        """an asyncio Task created on the captured loop (from the loop's own thread)"""
        box, ready = {}, threading.Event()

        def make():
            box["t"] = loop.create_task(self._later(resp))
            ready.set()

        loop.call_soon_threadsafe(make)
        if not ready.wait(10):
            raise RuntimeError("harness: the captured loop did not run")
        return box["t"]

    def check(self, subject, relation, resource, *, context=None):
        resp, how = self._note(subject, relation, resource, context)
        if how == "plain":
            if self._lag():
                time.sleep(self._lag())
            try:
                return self._now(resp)
            except Exception:
                self._tl.entry["sync_raise"] = True     # raised inside check(): the bridge is never reached
                raise
        if how in ("future", "task"):
            from rbacx.core.relctx import EVAL_LOOP
            loop = EVAL_LOOP.get()
            if loop is not None:
                return self._future(resp, loop) if how == "future" else self._task(resp, loop)
            how = "coro"
        if how == "await_obj":
            return OnlyAwait(lambda: self._later(resp))
        return self._later(resp)

    def batch_check(self, triples, *, context=None):
        return [self.check(*t, context=context) for t in triples]


class AsyncRecorder(Recorder):
    """a genuine class-level `async def check`: the body (and the recording) runs inside the awaited coroutine"""

    def __init__(self, eng, kind, data, shape=None):
        Recorder.__init__(self, eng, kind, data, "async_def")
        self.__dict__.pop("check", None)

    async def check(self, subject, relation, resource, *, context=None):  # type: ignore[override]
        resp, _how = self._note(subject, relation, resource, context)
        return await self._later(resp)


# checker OBJECTS that are false as Python values although they are configured and answer like any other: the recording
# checker itself derives from an (empty) list / dict / set, defines __len__ returning 0, or __bool__ returning False;
# "reclist" keeps its lookups in itself (a list that is empty until the first lookup).  The object handed to
# Guard(relationship_checker=...) is this very object; the answers, the recording and the judgement are those of the
# ordinary checker of the same kind and shape ("no checker configured" means None, nothing else).
class _Len0:
    def __len__(self):
        return 0


class _BoolFalse:
    def __bool__(self):
        return False


FALSY_OBJS = ["list", "dict", "set", "len0", "boolF", "reclist"]
_FALSY_BASES = {"list": list, "dict": dict, "set": set, "len0": _Len0, "boolF": _BoolFalse, "reclist": list}
_FALSY_CLASSES = {}


def falsy_class(base, falsy):
    key = (base, falsy)
    if key not in _FALSY_CLASSES:
        ns = {}
        if falsy == "reclist":
            def _note(self, subject, relation, resource, context):
                out = base._note(self, subject, relation, resource, context)
                list.append(self, (subject, relation, resource))
                return out
            ns["_note"] = _note
        _FALSY_CLASSES[key] = type("%s_%s" % (base.__name__, falsy), (base, _FALSY_BASES[falsy]), ns)
    return _FALSY_CLASSES[key]


def make_checker(eng, kind, data, shape=None, falsy=None):
    if not kind:
        return None
    cls, args = Recorder, (eng, kind, data, shape)
    if shape is None and kind in ("async", "slow"):
        cls, args = AsyncRecorder, (eng, kind, data)
    if falsy:
        rec = falsy_class(cls, falsy)(*args)
        if falsy != "reclist" and bool(rec):
            raise RuntimeError("harness: the falsy checker object is not falsy")
        return rec
    return cls(*args)


def dec_dict(d):
    return {"allowed": d.allowed, "effect": d.effect, "obligations": d.obligations, "challenge": d.challenge,
            "rule_id": d.rule_id, "policy_id": d.policy_id, "reason": d.reason}


def req_objs(req):
    from rbacx.core.model import Action, Context, Resource, Subject
    s, r = req.get("subject") or {}, req.get("resource") or {}
    return (Subject(id=s.get("id"), roles=list(s.get("roles") or []), attrs=dict(s.get("attrs") or {})),
            Action(req.get("action")),
            Resource(type=r.get("type"), id=r.get("id"), attrs=dict(r.get("attrs") or {})),
            Context(attrs=copy.deepcopy(dict(req.get("context") or {}))))


class patched_timeout:
    """wraps the bridge rbacx.core.policy.resolve_awaitable_in_worker for the duration of a case: with slow=True the
    time-out is cut down to SLOW_T; always, what the ENGINE saw of each lookup (answer / time-out / exception, and
    how long the bridge waited, monotonic clock) is recorded, tagged with the decision it belongs to"""

    def __init__(self, slow):
        self.slow = slow
        self.records = []

    def __enter__(self):
        import rbacx.core.policy as pol
        self.pol, self.orig = pol, pol.resolve_awaitable_in_worker
        orig, slow, records = self.orig, self.slow, self.records

        def wrapper(x, loop, *, timeout=5.0):
            t = timeout
            if slow:
                t = SLOW_T if (timeout is None or timeout > SLOW_T) else timeout
            r = {"dec": DEC.get(), "timeout": t, "outcome": "seen", "elapsed": 0.0}
            records.append(r)
            t0 = time.monotonic()
            try:
                return orig(x, loop, timeout=t)
            except BaseException as e:
                r["outcome"] = "timeout" if isinstance(e, TimeoutError) or type(e).__name__ == "TimeoutError" else "raised"
                raise
            finally:
                r["elapsed"] = time.monotonic() - t0

        pol.resolve_awaitable_in_worker = wrapper
        return self

    def __exit__(self, *a):
        self.pol.resolve_awaitable_in_worker = self.orig

    def drain(self, dec=None, all_=False):
        if all_:
            out, self.records[:] = list(self.records), []
            return out
        return [r for r in self.records if r["dec"] == dec]


def mark_late(calls, bridge):
    """pair the lookups of one decision with what the engine's bridge saw of them (same order; a lookup that raised
    inside check() itself never reached the bridge).  A lookup whose answer the checker did produce but which the
    bridge gave up on after really waiting out the time-out is `late`: the engine legitimately read it as timed out."""
    through = [x for x in calls if not x.get("sync_raise")]
    if len(through) != len(bridge):
        return False
    for x, b in zip(through, bridge):
        x["bridge"] = [b["outcome"], round(b["elapsed"], 3)]
        if b["outcome"] == "timeout" and x["resp"][0] != "timeout" and b["timeout"] and b["elapsed"] >= LATE_SHARE * b["timeout"]:
            x["late"] = True
    return True


def seen_resp(x):
    """the response of a lookup as the engine saw it"""
    return ["timeout"] if x.get("late") else x["resp"]


def _guard(policy, strict, checker):
    from rbacx.core.engine import Guard
    kw = {}
    if checker is not None:
        kw["relationship_checker"] = checker
    return Guard(copy.deepcopy(policy), strict_types=bool(strict), **kw)


def run_seq_impl(c):
    cur = {"data": {}}
    rec = make_checker(0, c.get("checker"), lambda: cur["data"], c.get("shape"), c.get("falsy"))
    g = _guard(c["policy"], c.get("strict"), rec)
    api = c.get("api", "async")
    out = []

    br = patched_timeout(base_kind(c.get("checker")) == "slow")

    def take(k, d):
        calls = [x for x in rec.calls] if rec is not None else []
        if rec is not None:
            rec.calls = []
        paired = mark_late(calls, br.drain(all_=True))
        out.append({"decision": d, "calls": calls, "bridge_paired": paired})

    async def one_async(k, step):
        cur["data"] = step.get("data") or {}
        DEC.set(k)
        try:
            if api == "sync_in_loop":
                d = dec_dict(g.evaluate_sync(*req_objs(step["req"])))
            else:
                d = dec_dict(await g.evaluate_async(*req_objs(step["req"])))
        except Exception as e:  # noqa: BLE001
            d = ["Raise", type(e).__name__]
        take(k, d)

    async def go():
        for k, step in enumerate(c["steps"]):
            await one_async(k, step)

    with br:
        if api == "sync":
            for k, step in enumerate(c["steps"]):
                cur["data"] = step.get("data") or {}
                DEC.set(k)
                try:
                    d = dec_dict(g.evaluate_sync(*req_objs(step["req"])))
                except Exception as e:  # noqa: BLE001
                    d = ["Raise", type(e).__name__]
                take(k, d)
        else:
            asyncio.run(go())
    return {"decisions": out}


def run_conc_impl(c):
    recs, guards = [], []
    for i, e in enumerate(c["engines"]):
        rec = make_checker(i, e.get("checker"), e.get("data") or {}, e.get("shape"), e.get("falsy"))
        recs.append(rec)
        guards.append(_guard(e["policy"], e.get("strict"), rec))
    jobs = c["jobs"]
    res = [None] * len(jobs)

    stagger = float(c.get("stagger") or 0)

    async def job_async(k, j):
        if stagger:
            await asyncio.sleep(k * stagger)     # decisions start while earlier ones are between two lookups
        DEC.set(k)
        try:
            res[k] = dec_dict(await guards[j["engine"]].evaluate_async(*req_objs(j["req"])))
        except Exception as e:  # noqa: BLE001
            res[k] = ["Raise", type(e).__name__]

    def job_thread(ks, barrier):
        barrier.wait()
        if stagger and ks:
            time.sleep(ks[0] * stagger)
        for k in ks:
            j = jobs[k]
            DEC.set(k)
            try:
                res[k] = dec_dict(guards[j["engine"]].evaluate_sync(*req_objs(j["req"])))
            except Exception as e:  # noqa: BLE001
                res[k] = ["Raise", type(e).__name__]

    with patched_timeout(False) as br:
        if c.get("mode") == "threads":
            n = max(1, int(c.get("threads", 4)))
            barrier = threading.Barrier(n)
            ths = [threading.Thread(target=job_thread, args=(list(range(i, len(jobs), n)), barrier)) for i in range(n)]
            for t in ths:
                t.start()
            for t in ths:
                t.join()
        else:
            async def go():
                # each job in its own task (own context copy), all started before any finishes
                await asyncio.gather(*[asyncio.create_task(job_async(k, j)) for k, j in enumerate(jobs)])
            asyncio.run(go())
    out = []
    allcalls = [x for r in recs if r is not None for x in r.calls]
    for k, j in enumerate(jobs):
        calls = [x for x in allcalls if x["dec"] == k]
        out.append({"decision": res[k], "calls": calls, "bridge_paired": mark_late(calls, br.drain(k))})
    stray = [x for x in allcalls if not isinstance(x["dec"], int) or not (0 <= x["dec"] < len(jobs))]
    return {"decisions": out, "stray": stray}


def run_nest_impl(c):
    """root evaluations on engine 0..; checkers answer some relations by evaluating a request on another Guard"""
    world = {"records": [], "guards": [], "recs": []}
    for i, e in enumerate(c["engines"]):
        rec = make_checker(i, e.get("checker"), e.get("data") or {}, e.get("shape"), e.get("falsy"))
        if rec is not None:
            rec.delegates, rec.world = dict(e.get("delegates") or {}), world
        world["recs"].append(rec)
        world["guards"].append(_guard(e["policy"], e.get("strict"), rec))
    api = c.get("api", "async")

    def begin(root):
        r = {"id": len(world["records"]), "parent": None, "engine": root["engine"], "req": root["req"], "via": "evaluate",
             "decision": None, "root": True}
        world["records"].append(r)
        world["current_root"] = r["id"]
        DEC.set(r["id"])
        return r, world["guards"][root["engine"]]

    async def go():
        for root in c["roots"]:
            r, g = begin(root)
            try:
                if api == "sync_in_loop":
                    r["decision"] = dec_dict(g.evaluate_sync(*req_objs(root["req"])))
                else:
                    r["decision"] = dec_dict(await g.evaluate_async(*req_objs(root["req"])))
            except Exception as e:  # noqa: BLE001
                r["decision"] = ["Raise", type(e).__name__]

    with patched_timeout(False) as br:
        if api == "sync":
            for root in c["roots"]:
                r, g = begin(root)
                try:
                    r["decision"] = dec_dict(g.evaluate_sync(*req_objs(root["req"])))
                except Exception as e:  # noqa: BLE001
                    r["decision"] = ["Raise", type(e).__name__]
        else:
            asyncio.run(go())
    calls = [x for rec in world["recs"] if rec is not None for x in rec.calls]
    for r in world["records"]:
        mark_late([x for x in calls if x["dec"] == r["id"]], br.drain(r["id"]))
    return {"records": world["records"], "calls": calls}


def run_cond_impl(c):
    """rbacx.core.policy.eval_condition with the three context variables set by hand"""
    from rbacx.core import policy as pol
    from rbacx.core.relctx import EVAL_LOOP, REL_CHECKER, REL_LOCAL_CACHE
    rec = make_checker(0, c.get("checker"), c.get("data") or {}, c.get("shape"), c.get("falsy"))
    memo = c.get("memo", True)
    cache = {} if memo is True else (None if memo is False else [])

    def body():
        REL_CHECKER.set(rec)
        REL_LOCAL_CACHE.set(cache)
        try:
            return bool(pol.eval_condition(copy.deepcopy(c["cond"]), copy.deepcopy(c["env"])))
        except pol.ConditionTypeError:
            return ["TypeErr"]
        except Exception as e:  # noqa: BLE001
            return ["Raise", type(e).__name__]

    async def go():
        loop = asyncio.get_running_loop()
        EVAL_LOOP.set(loop)
        return await asyncio.to_thread(body)

    v = asyncio.run(go())
    return {"value": v, "calls": rec.calls if rec is not None else []}


def run_hash_impl(c):
    from rbacx.core.policy import _ctx_hash
    return {"equal": _ctx_hash(copy.deepcopy(c["a"])) == _ctx_hash(copy.deepcopy(c["b"]))}


# --------------------------------------------------------------------------------------------
# the relationship checker is the LOCAL one (tie of the C13 x C12 composition, theories/RelLocal.v)
#
#   case = {"kind": "local", "store": [[subject, relation, resource, caveat | None], ...],
#           "rules": rule map in c12's case language, "reg": {caveat name: predicate kind} | None,
#           "limits": [max_depth | None, max_nodes | None]   (None = constructor default; the deadline is always
#                     LOCAL_DEADLINE_MS, far beyond any run: wall-clock time never decides an answer),
#           "policy", "strict", "api": "async" | "sync" | "sync_in_loop",
#           "steps": [{"req": request, "add": [tuples granted before this decision] (optional),
#                      "expect": {"allowed": bool, "lookups": [[s, r, o, ctx, answer], ...]} (corpus witnesses)}, ...]}
# --------------------------------------------------------------------------------------------
LOCAL_DEADLINE_MS = 600_000
LOCAL_GENEROUS = [50, 10000]     # second limit setting of every model line, only to tell whether the case's limits bind
LOCAL_THEOREMS = ["c13_local_bridge", "c13_local_caveats_on_merged_ctx", "c13_rel_never_true_without_derivation",
                  "c13_rel_holds_iff_derivable", "c13_local_applicable_only_if_derivable",
                  "c13_local_permit_rests_on_derivation", "c13_local_permit_rule_derivable"]
LOCAL_PREDS = dict(c12.HPREDS)
LOCAL_PREDS["office"] = lambda ctx: ctx["ip"] == "10.0.0.1"      # the caveat of the RelLocal.v example (KeyError without "ip")


def local_pred_value(kind, ctx):
    """what bool(pred(ctx)) is, by table (c12's, plus the kind added here)"""
    if kind == "office":
        if not isinstance(ctx, dict) or "ip" not in ctx:
            return "raise"
        return ctx["ip"] == "10.0.0.1"
    return c12.pred_value(kind, ctx)


def local_model_reg(reg, ctx):
    """the registry of one call as the C12 model takes it: every predicate's value on the call's (merged) context"""
    out = {}
    for name, kind in (reg or {}).items():
        v = local_pred_value(kind, ctx)
        if v is not c12.ABSENT:
            out[name] = v
        # the table must describe the test-side predicate objects (a disagreement is a defect of this harness)
        pred = LOCAL_PREDS[kind]
        try:
            real = c12.ABSENT if pred is None else bool(pred(copy.deepcopy(ctx)))
        except Exception:  # noqa: BLE001
            real = "raise"
        if real is not v and real != v:
            raise RuntimeError("harness: predicate table disagrees with predicate %r on %r: %r / %r" % (kind, ctx, v, real))
    return out


def local_world(c):
    """a real store, a real LocalRelationshipChecker over it (recording subclass that only delegates) and a Guard"""
    from rbacx.rebac import local as L
    st = L.InMemoryRelationshipStore()
    tuples = []

    def add(ts):
        for s, r, o, cav in ts or []:
            if cav is None:
                st.add(s, r, o)
            else:
                st.add(s, r, o, caveat=cav)
            tuples.append([s, r, o, cav])

    add(c["store"])
    calls = []
    tl = threading.local()

    class RecordingLocal(L.LocalRelationshipChecker):
        def check(self, subject, relation, resource, *, context=None):
            if getattr(tl, "in_batch", False):
                return super().check(subject, relation, resource, context=context)
            e = {"eng": 0, "dec": DEC.get(), "q": [subject, relation, resource, copy.deepcopy(context)], "how": "plain",
                 "via": "check", "ctx_is_dict": isinstance(context, dict), "ntuples": len(tuples)}
            calls.append(e)
            try:
                a = super().check(subject, relation, resource, context=context)
            except Exception as ex:  # noqa: BLE001
                e["ans"], e["resp"] = ["!raise", type(ex).__name__, str(ex)[:80]], ["raise"]
                raise
            e["ans"], e["resp"] = a, ["ret", a]
            if context != e["q"][3]:
                e["ctx_changed"] = True
            return a

        def batch_check(self, triples, *, context=None):
            triples = list(triples)
            es = [{"eng": 0, "dec": DEC.get(), "q": [t[0], t[1], t[2], copy.deepcopy(context)], "how": "plain", "via": "batch",
                   "ctx_is_dict": isinstance(context, dict), "ntuples": len(tuples), "ans": ["!raise", "batch", ""],
                   "resp": ["raise"]} for t in triples]
            calls.extend(es)
            tl.in_batch = True
            try:
                out = super().batch_check(triples, context=context)
            finally:
                tl.in_batch = False
            for e, a in zip(es, list(out)):
                e["ans"], e["resp"] = a, ["ret", a]
            return out

    md, mn = c.get("limits") or [None, None]
    kw = {"deadline_ms": LOCAL_DEADLINE_MS}
    if md is not None:
        kw["max_depth"] = md
    if mn is not None:
        kw["max_nodes"] = mn
    reg = None if c.get("reg") is None else {n: LOCAL_PREDS[k] for n, k in c["reg"].items()}
    ck = RecordingLocal(st, rules=c12.conv_rules(L, c.get("rules")), caveat_registry=reg, **kw)
    return {"guard": _guard(c["policy"], c.get("strict"), ck), "add": add, "calls": calls, "checker": ck}


def run_local_impl(c):
    """every step through the case's API in one world, and through the other of evaluate_sync / evaluate_async in a
    second world built the same way (own store, checker and Guard)"""
    api = c.get("api", "async")

    def run(api):
        w = local_world(c)
        g, out = w["guard"], []

        def take(d):
            out.append({"decision": d, "calls": list(w["calls"])})
            del w["calls"][:]

        async def go():
            for k, step in enumerate(c["steps"]):
                w["add"](step.get("add"))
                DEC.set(k)
                try:
                    if api == "sync_in_loop":
                        d = dec_dict(g.evaluate_sync(*req_objs(step["req"])))
                    else:
                        d = dec_dict(await g.evaluate_async(*req_objs(step["req"])))
                except Exception as e:  # noqa: BLE001
                    d = ["Raise", type(e).__name__]
                take(d)

        if api == "sync":
            for k, step in enumerate(c["steps"]):
                w["add"](step.get("add"))
                DEC.set(k)
                try:
                    d = dec_dict(g.evaluate_sync(*req_objs(step["req"])))
                except Exception as e:  # noqa: BLE001
                    d = ["Raise", type(e).__name__]
                take(d)
        else:
            asyncio.run(go())
        return out

    return {"decisions": run(api), "twin": run("sync" if api == "async" else "async")}


def run_impl_one(c):
    k = c.get("kind", "seq")
    if k == "local":
        return run_local_impl(c)
    if k == "seq":
        return run_seq_impl(c)
    if k == "conc":
        return run_conc_impl(c)
    if k == "cond":
        return run_cond_impl(c)
    if k == "nest":
        return run_nest_impl(c)
    return run_hash_impl(c)


def _shard(cases):
    return [run_impl_one(c) for c in cases]


def run_impl(cases):
    n = min(12, max(1, len(cases) // 150))
    if n <= 1:
        return _shard(cases)
    shards = [cases[i::n] for i in range(n)]
    with mp.get_context("fork").Pool(n) as pool:
        parts = pool.map(_shard, shards)
    out = [None] * len(cases)
    for i, part in enumerate(parts):
        out[i::n] = part
    return out


# --------------------------------------------------------------------------------------------
# model side
# --------------------------------------------------------------------------------------------
def full_table(kind, data, policy, req, calls):
    """the checker as a table: every canonical query of the statement plus every query actually made"""
    if not kind:
        return None
    rows, seen = [], set()
    qs = []
    try:
        qs = spec_queries(policy, req)
    except Exception:  # noqa: BLE001
        qs = []
    late = {qkey(*x["q"]) for x in calls if x.get("late")}
    for q in qs + [x["q"] for x in calls]:
        k = qkey(*q)
        if k in seen:
            continue
        seen.add(k)
        # an answer the engine's bridge gave up on after waiting out the time-out counts as timed out
        rows.append([q[0], q[1], q[2], q[3], ["raise"] if k in late else model_resp(respond(kind, data, *q))])
    return rows


def run_model_parallel(lines, workers=12):
    """lib.run_model from several threads (one runner process each, its output read as it is produced)"""
    from concurrent.futures import ThreadPoolExecutor
    n = min(workers, max(1, len(lines) // 40))
    if n <= 1:
        return lib.run_model(RUNNER, lines)
    size = (len(lines) + n - 1) // n
    blocks = [lines[i:i + size] for i in range(0, len(lines), size)]
    with ThreadPoolExecutor(len(blocks)) as ex:
        parts = list(ex.map(lambda b: lib.run_model(RUNNER, b, chunk=len(b) + 1, procs=1), blocks))
    return [x for part in parts for x in part]


def nest_level(c, i, seen=()):
    e = c["engines"][i]
    if not e.get("checker") or not e.get("delegates") or i in seen:
        return 0
    return 1 + max(nest_level(c, d["engine"], seen + (i,)) for d in e["delegates"].values())


def nest_calls(i, rec):
    """the lookups the implementation attributed to a decision record"""
    return [x for x in i["calls"] if x["dec"] == rec["id"]]


def model_nest(cases, impls):
    """expected result of every (engine, request) that occurs in a nested case, each from a FRESH frame and with
    its own engine's relationship data; a delegated relation is answered by the expected decision of the
    engine it delegates to (computed first: leaves, then the engines that consult them)"""
    out = [dict() for _ in cases]          # (engine, request key) -> model result
    need = []
    for ci, (c, i) in enumerate(zip(cases, impls)):
        pairs = {}
        for root in c["roots"]:
            pairs[(root["engine"], case_key({"r": root["req"]}))] = root["req"]
        for e in c["engines"]:
            for d in (e.get("delegates") or {}).values():
                pairs[(d["engine"], case_key({"r": d["req"]}))] = d["req"]
        for (ei, rk), req in pairs.items():
            need.append((nest_level(c, ei), ci, ei, rk, req))
    for level in sorted({n[0] for n in need}):
        batch = [n for n in need if n[0] == level]
        lines, oods = [], []
        for _lv, ci, ei, rk, req in batch:
            c, i = cases[ci], impls[ci]
            e = c["engines"][ei]
            tbl = None
            oods.append(False)
            if e.get("checker"):
                calls = [x for r in i["records"] if r["engine"] == ei and case_key({"r": r["req"]}) == rk for x in nest_calls(i, r)]
                rows, seen = [], set()
                late = {qkey(*x["q"]) for x in calls if x.get("late")}
                try:
                    qs = spec_queries(e["policy"], req)
                except Exception:  # noqa: BLE001
                    qs = []
                for q in qs + [x["q"] for x in calls]:
                    k = qkey(*q)
                    if k in seen:
                        continue
                    seen.add(k)
                    dl = (e.get("delegates") or {}).get(q[1])
                    if k in late:
                        rows.append([q[0], q[1], q[2], q[3], ["raise"]])
                        continue
                    if dl is not None:
                        inner = out[ci].get((dl["engine"], case_key({"r": dl["req"]})))
                        md = inner["pure"] if inner else ["Ood"]
                        ans = ["ret", bool(md.get("allowed"))] if isinstance(md, dict) else ["raise"]
                        if md == ["Ood"]:
                            oods[-1] = True
                    else:
                        ans = model_resp(respond(e["checker"], e.get("data") or {}, *q))
                    rows.append([q[0], q[1], q[2], q[3], ans])
                tbl = rows
            lines.append(lib.model_call("relcond.eval", bool(e.get("strict")), e["policy"], req, None, tbl, dates_of(e["policy"], req)))
        for (_lv, ci, ei, rk, req), o, ood in zip(batch, [lib.dec(x) for x in run_model_parallel(lines)], oods):
            if ood:
                o = dict(o, decision=["Ood"], pure=["Ood"])
            out[ci][(ei, rk)] = o
    return out


def local_store_at(c, k):
    """the tuples in the store when step k is decided"""
    out = [list(t) for t in c["store"]]
    for step in c["steps"][:k + 1]:
        out += [list(t) for t in step.get("add") or []]
    return out


def model_local(cases, impls):
    """the C12 model (runner rebac, entry rebac.multi as c12.py uses it for check) asked every query of every step:
    the canonical queries of the statement plus every lookup the engine really made (either world), each on ITS
    context (the registry of a call = the predicates' values on that context), the step's store, the case's rules and
    limits, a clock that never reaches the deadline.  Returns per case, per step: {query key: [outcome, visits,
    within, answer under generous limits]} and the relationship table for the C13 model (the MODEL's answers)."""
    lines, index = [], []
    for ci, (c, i) in enumerate(zip(cases, impls)):
        md, mn = c.get("limits") or [None, None]
        lims = [c12.mlimit([md, mn, LOCAL_DEADLINE_MS, c12.START, [], c12.START]),
                c12.mlimit(LOCAL_GENEROUS + [LOCAL_DEADLINE_MS, c12.START, [], c12.START])]
        for k, step in enumerate(c["steps"]):
            try:
                qs = spec_queries(c["policy"], step["req"])
            except Exception:  # noqa: BLE001
                qs = []
            qs = qs + [x["q"] for x in i["decisions"][k]["calls"]] + [x["q"] for x in i["twin"][k]["calls"]]
            groups, seen = {}, set()
            for q in qs:
                kq = qkey(*q)
                if kq in seen:
                    continue
                seen.add(kq)
                groups.setdefault(ckey(q[3]), []).append(q)
            store = local_store_at(c, k)
            for g in groups.values():
                lines.append(lib.model_call("rebac.multi", store, c.get("rules"), local_model_reg(c.get("reg"), g[0][3]),
                                            [[q[0], q[1], q[2]] for q in g], lims))
                index.append((ci, k, g))
    outs = [lib.dec(x) for x in lib.run_model("rebac", lines, chunk=max(50, len(lines) // 8 + 1))]
    res = [[{"c12": {}, "table": []} for _ in c["steps"]] for c in cases]
    for (ci, k, g), o in zip(index, outs):
        if c12._bad_model(o):
            raise RuntimeError("model rejected a local case: %r %r" % (o, cases[ci]))
        for q, per_limit in zip(g, o):
            m, gen = per_limit[0], per_limit[1]
            if c12._bad_model(m) or c12._bad_model(gen):
                raise RuntimeError("model rejected a local query: %r %r %r" % (m, q, cases[ci]))
            res[ci][k]["c12"][qkey(*q)] = [m[0], m[1], m[2], gen[0] == "true"]
            res[ci][k]["table"].append([q[0], q[1], q[2], q[3], ["ret", m[0] == "true"]])
    return res


def model_lines(cases, impls):
    lines, index = [], []
    local_ix = [ci for ci, c in enumerate(cases) if c.get("kind") == "local"]
    local_models = dict(zip(local_ix, model_local([cases[ci] for ci in local_ix], [impls[ci] for ci in local_ix]))) if local_ix else {}
    nest_ix = [ci for ci, c in enumerate(cases) if c.get("kind") == "nest"]
    nest_models = dict(zip(nest_ix, model_nest([cases[ci] for ci in nest_ix], [impls[ci] for ci in nest_ix]))) if nest_ix else {}
    for ci, (c, i) in enumerate(zip(cases, impls)):
        k = c.get("kind", "seq")
        if k == "nest":
            continue
        if k == "local":
            # the composed statement: the C13 model with the C12 MODEL's answers as the relationship table
            steps = [[step["req"], local_models[ci][kk]["table"]] for kk, step in enumerate(c["steps"])]
            dates = dates_of(c["policy"], [s["req"] for s in c["steps"]])
            lines.append(lib.model_call("relcond.seq", bool(c.get("strict")), c["policy"], None, steps, dates))
            index.append((ci, "seq"))
        elif k == "seq":
            steps = []
            for step, r in zip(c["steps"], i["decisions"]):
                steps.append([step["req"], full_table(c.get("checker"), step.get("data") or {}, c["policy"], step["req"], r["calls"])])
            dates = dates_of(c["policy"], [s["req"] for s in c["steps"]])
            lines.append(lib.model_call("relcond.seq", bool(c.get("strict")), c["policy"], None, steps, dates))
            index.append((ci, "seq"))
        elif k == "conc":
            for j, r in zip(c["jobs"], i["decisions"]):
                e = c["engines"][j["engine"]]
                tbl = full_table(e.get("checker"), e.get("data") or {}, e["policy"], j["req"], r["calls"])
                lines.append(lib.model_call("relcond.eval", bool(e.get("strict")), e["policy"], j["req"], None, tbl,
                                            dates_of(e["policy"], j["req"])))
                index.append((ci, "job"))
        elif k == "cond":
            rows = None
            if c.get("checker"):
                rows, seen = [], set()
                for x in i["calls"]:
                    kk = qkey(*x["q"])
                    if kk not in seen:
                        seen.add(kk)
                        rows.append(x["q"] + [model_resp(x["resp"])])
                for e in rel_nodes(c["cond"]):
                    try:
                        q = spec_query(e, c["env"])
                    except Exception:  # noqa: BLE001
                        q = None
                    if q is not None and qkey(*q) not in seen:
                        seen.add(qkey(*q))
                        rows.append(q + [model_resp(respond(c["checker"], c.get("data") or {}, *q))])
            lines.append(lib.model_call("relcond.cond", c["cond"], c["env"], rows, dates_of(c["cond"], c["env"]), c.get("memo", True) is True))
            index.append((ci, "cond"))
        else:
            d = dates_of(c["a"], c["b"])
            lines.append(lib.model_call("relcond.key", c["a"], d))
            lines.append(lib.model_call("relcond.key", c["b"], d))
            index.append((ci, "ka"))
            index.append((ci, "kb"))
    outs = [lib.dec(x) for x in run_model_parallel(lines)]
    per = [[] for _ in cases]
    for (ci, tag), o in zip(index, outs):
        if tag == "seq":
            per[ci] = o
        else:
            per[ci].append(o)
    for ci, m in nest_models.items():
        per[ci] = m
    for ci, m in local_models.items():
        per[ci] = {"rel": per[ci], "c12": [s["c12"] for s in m]}
    return per


# --------------------------------------------------------------------------------------------
# judging
# --------------------------------------------------------------------------------------------
def norm_dec(d):
    return d if isinstance(d, dict) else ["Raise"]


def norm_mdec(m):
    if isinstance(m, dict):
        return m
    if isinstance(m, list) and m and m[0] == "Raise":
        return ["Raise"]
    return m


def f23_class(policy, req):
    """two rel nodes with the same triple whose contexts differ but serialise alike under default=str"""
    try:
        qs = spec_queries(policy, req)
    except Exception:  # noqa: BLE001
        return False
    seen = {}
    for s, r, o, ctx in qs:
        if not has_nonjson(ctx) and not any(has_nonjson(q[3]) for q in qs):
            continue
        try:
            hk = (s, r, o, json.dumps(ctx, sort_keys=True, separators=(",", ":"), default=str) if ctx else "")
        except Exception:  # noqa: BLE001
            continue
        if hk in seen and seen[hk] != ckey(ctx):
            return True
        seen.setdefault(hk, ckey(ctx))
    return False


def judge_decision(chk, case, where, policy, req, kind, impl, model, others, replay=False):
    """impl = {"decision", "calls"}; model = relcond result; others = calls of the other decisions of the case.
    returns "ok" | "ood" | "violation" | "known" | "corr" """
    D, calls = impl["decision"], impl["calls"]
    md, mp_ = model["decision"], model["pure"]
    if md == ["Ood"] or mp_ == ["Ood"]:
        chk.count("ood")
        return "ood"
    show = {"where": where, "decision": D,
            "calls": [x["q"] + [x["resp"]] + ([{"engine_saw": x.get("bridge"), "late": bool(x.get("late"))}] if x.get("bridge") else [])
                      for x in calls]}
    for x in calls:
        if x.get("late"):
            chk.count("late-under-load")
    mshow = {"decision": md, "by_relationship_data": mp_, "log": model["log"], "canonical_queries": model["queries"]}
    # (a) canonical triple and merged context
    try:
        spec = spec_queries(policy, req)
    except Exception:  # noqa: BLE001
        spec = []
    spec_keys = {qkey(*q) for q in spec}
    model_keys = {qkey(*q) for q in model["queries"]}
    for x in calls:
        if not x.get("ctx_is_dict", True):
            chk.violation("the checker was not given a dict as context", case, impl=show, model=mshow)
            return "violation"
        if qkey(*x["q"]) not in spec_keys:
            chk.violation("a lookup is not the canonical (subject, relation, resource, merged context) of any rel node of "
                          "the policy on this request (c13_exact_triple_calls)", case, impl=dict(show, offending=x["q"]),
                          model=dict(mshow, statement_queries=spec))
            return "violation"
    # (b) at most once
    ks = [qkey(*x["q"]) for x in calls]
    if len(set(ks)) != len(ks):
        dup = [x["q"] for x in calls if ks.count(qkey(*x["q"])) > 1][0]
        chk.violation("the same triple-and-context was looked up twice within one decision (c13_at_most_once)", case,
                      impl=dict(show, duplicate=dup), model=mshow)
        return "violation"
    # (c) the decision against the relationship data
    nd, npure, nmemo = norm_dec(D), norm_mdec(mp_), norm_mdec(md)
    if isinstance(D, dict) and set(D) == {"allowed"}:      # is_allowed_*: only the verdict is observable
        npure = {"allowed": npure["allowed"]} if isinstance(npure, dict) else npure
        nmemo = {"allowed": nmemo["allowed"]} if isinstance(nmemo, dict) else nmemo
    if nd != npure:
        in_class = f23_class(policy, req)
        if in_class and nd == nmemo:
            chk.known(FID, case, impl=show, model=mshow)
            chk.count("known:" + FID)
            return "known"
        if isinstance(D, dict) and D.get("allowed") and not (isinstance(mp_, dict) and mp_.get("allowed")):
            chk.violation("permit although the relationship data does not affirm the canonical lookups of the rel nodes it "
                          "rests on (raised / timed out / absent / false count as false) (c13_exact_triple_holds, "
                          "c13_fail_closed)", case, impl=show, model=mshow)
            return "violation"
        # a needed lookup skipped although another decision of this case made it: reuse across decisions
        mine = set(ks)
        need = [q for q in model["log"] if qkey(*q) not in mine]
        reused = [q for q in need if qkey(*q) in others]
        if reused:
            chk.violation("a decision differs from what the relationship data at its time yields: a lookup it needed was "
                          "skipped although another decision of the case made it (an answer carried across decisions, or a "
                          "rel node decided without its lookup) (c13_fresh_per_decision, c13_exact_triple_holds)", case,
                          impl=dict(show, skipped=reused), model=mshow)
            return "violation"
        chk.corr_break("Decision differs from the model on the relationship data of the case", case, impl=show, model=mshow,
                       theorems=THEOREMS)
        return "corr"
    if nd != nmemo:
        chk.corr_break("Decision differs from the memoising model (and agrees with the unmemoised reading)", case,
                       impl=show, model=mshow, theorems=["c13_memo_transparent"])
        return "corr"
    for x in calls:
        if qkey(*x["q"]) not in model_keys:
            chk.corr_break("a lookup is canonical by the statement but not among the model's canonical queries", case,
                           impl=dict(show, offending=x["q"]), model=mshow, theorems=["c13_exact_triple_calls"])
            return "corr"
    # ordered call log
    ilog = [[x["q"][0], x["q"][1], x["q"][2], tagged(x["q"][3])] for x in calls]
    mlog = [[q[0], q[1], q[2], tagged(q[3])] for q in model["log"]]
    if model.get("unknown"):
        chk.corr_break("the model asks a query the table built from the statement does not hold", case, impl=show,
                       model=mshow, theorems=["c13_exact_triple_calls"])
        return "corr"
    if ilog != mlog:
        chk.corr_break("ordered call log differs from the model's", case, impl=show, model=mshow, theorems=THEOREMS)
        return "corr"
    # key order of the context dict handed to the checker (dict.update semantics)
    for x, q in zip(calls, model["log"]):
        if list(x["q"][3].keys()) != list(q[3].keys()):
            chk.corr_break("key order of the context dict handed to the checker differs from the model's", case,
                           impl=show, model=mshow, theorems=["c13_merged_ctx_lookup"])
            return "corr"
    return "ok"


def case_key(c):
    return json.dumps(lib.jsonable({k: v for k, v in c.items() if k != "fam"}), sort_keys=True, default=str)


def check_local(chk, c, i, m, replay=False):
    """a real Guard over a real LocalRelationshipChecker.  Per decision:
    (i)   every lookup the engine made, against the C12 model on the same store / rules / registry-on-that-context /
          limits: c12's own judgement (True for a triple not derivable within max_depth, or a different answer although
          no limit fired in the model's run = violation; True where the model's run ends by the node budget = broken
          correspondence);
    (ii)  the whole Decision against the C13 model whose relationship table is the C12 MODEL's answers (the composed
          statement): a permit the composed model does not give = violation (c13_local_permit_rule_derivable: a permit
          rests on an applicable permit rule, a rel-guarded one on a derivable triple); then everything the other
          families judge per decision (canonical lookups, at most once, Decision, ordered log, context key order);
    (iii) evaluate_sync and evaluate_async: same decisions, same lookups, same answers."""
    verdicts = []
    allkeys = [set(qkey(*x["q"]) for x in r["calls"]) for r in i["decisions"]]
    for k, (step, r, tw, mm, cm) in enumerate(zip(c["steps"], i["decisions"], i["twin"], m["rel"], m["c12"])):
        nv, nc = len(chk.violations), len(chk.corr_breaks)
        where = {"step": k, "api": c.get("api", "async"), "limits": c.get("limits"), "tuples_in_store": len(local_store_at(c, k))}
        show = {"where": where, "decision": r["decision"], "lookups": [x["q"] + [x.get("ans")] for x in r["calls"]]}
        for x in r["calls"]:
            if x["dec"] != k and c.get("api") != "sync_in_loop":
                chk.violation("a lookup made during one decision carries the context of another decision", c,
                              impl={"step": k, "call": x["q"], "tagged": x["dec"]})
        # (i) the real local checker's answers to the engine's lookups
        judged = set()
        for world, rr in (("the case's API", r), ("the other API", tw)):
            for x in rr["calls"]:
                mq = cm[qkey(*x["q"])]
                binds = mq[3] and mq[0] != "true"
                if world == "the case's API":
                    chk.count("local:lookup:%s%s" % (mq[0], "/limit-binds" if binds else ""))
                    chk.count("local:visits:%s" % (mq[1] if mq[1] < 4 else "4-9" if mq[1] < 10 else "10+"))
                jv = c12.judge(x.get("ans"), mq[:3])
                if jv and (jv[1], qkey(*x["q"])) not in judged:
                    judged.add((jv[1], qkey(*x["q"])))
                    text = "LocalRelationshipChecker asked by the Guard (%s, %s): %s" % (world, x["via"], jv[1])
                    mshow = {"c12_model": {"outcome": mq[0], "visits": mq[1], "derivable_within_max_depth": mq[2],
                                           "true_under_generous_limits": mq[3]},
                             "registry_on_the_lookups_context": lib.jsonable(local_model_reg(c.get("reg"), x["q"][3]))}
                    if jv[0] == "violation":
                        chk.violation(text + " [c12_sound / c12_exact; c13_rel_never_true_without_derivation, "
                                      "c13_rel_holds_iff_derivable]", c, impl=dict(show, lookup=x["q"], answer=x.get("ans")), model=mshow)
                    else:
                        chk.corr_break(text, c, impl=dict(show, lookup=x["q"], answer=x.get("ans")), model=mshow,
                                       theorems=c12.THMS + LOCAL_THEOREMS)
        # (ii) the composed statement
        D, mp_ = r["decision"], mm["pure"]
        others = set().union(*([s for j, s in enumerate(allkeys) if j != k] or [set()]))
        if isinstance(D, dict) and D.get("allowed") and mp_ != ["Ood"] and not (isinstance(mp_, dict) and mp_.get("allowed")):
            chk.violation("permit by a Guard over the local checker although the policy, with every rel node judged by what the "
                          "local-checker model answers for its canonical lookup (derivability from the tuple store within "
                          "max_depth, caveats on the merged context; limits only fail closed), does not permit "
                          "(c13_local_permit_rule_derivable, c13_local_permit_rests_on_derivation)", c, impl=show,
                          model={"decision": mm["decision"], "by_derivability": mp_, "log": mm["log"],
                                 "canonical_queries": mm["queries"], "c12_model": cm})
            v = "violation"
        else:
            v = judge_decision(chk, c, where, c["policy"], step["req"], "local", r, mm, others, replay)
        # (iii) the two ways of evaluating
        if v != "ood":
            a = (norm_dec(r["decision"]), [x["q"] + [x.get("ans")] for x in r["calls"]])
            b = (norm_dec(tw["decision"]), [x["q"] + [x.get("ans")] for x in tw["calls"]])
            if a != b:
                chk.violation("evaluate_sync and evaluate_async over the same store, local checker and policy give different "
                              "decisions or lookups (c13_sync_async_same)", c,
                              impl={"where": where, "case_api": {"decision": a[0], "lookups": a[1]},
                                    "other_api": {"decision": b[0], "lookups": b[1]}})
        exp = step.get("expect")
        if exp is not None and v != "ood":
            got = {"allowed": D.get("allowed") if isinstance(D, dict) else None,
                   "lookups": [x["q"] + [x.get("ans")] for x in r["calls"]]}
            if got["allowed"] != exp.get("allowed") or ("lookups" in exp and lib.jsonable(got["lookups"]) != lib.jsonable(exp["lookups"])):
                chk.violation("corpus witness: the decision or the lookups differ from the recorded ones (expected %s)"
                              % json.dumps(lib.jsonable(exp), sort_keys=True)[:400], c, impl=show, model={"by_derivability": mp_})
        chk.count("local:decision:" + ("raise" if not isinstance(D, dict) else str(D.get("effect"))))
        chk.count("local:lookups:%d" % min(len(r["calls"]), 6))
        if len(chk.violations) > nv:
            v = "violation"
        elif len(chk.corr_breaks) > nc:
            v = "corr"
        verdicts.append(v)
        if v in ("violation", "corr"):
            break
    return verdicts


def check_one(chk, c, i, m, replay=False):
    """returns list of verdicts"""
    kind = c.get("kind", "seq")
    verdicts = []
    if kind == "local":
        return check_local(chk, c, i, m, replay)
    if kind == "seq":
        allkeys = [set(qkey(*x["q"]) for x in r["calls"]) for r in i["decisions"]]
        for k, (step, r, mm) in enumerate(zip(c["steps"], i["decisions"], m)):
            # attribution
            for x in r["calls"]:
                # (evaluate_sync under a running loop hands the work to a fresh thread: no caller context there)
                if x["dec"] != k and c.get("api") != "sync_in_loop":
                    chk.violation("a lookup made during one decision carries the context of another decision", c,
                                  impl={"step": k, "call": x["q"], "tagged": x["dec"]})
                    return ["violation"]
            others = set().union(*([s for j, s in enumerate(allkeys) if j != k] or [set()]))
            v = judge_decision(chk, c, {"step": k}, c["policy"], step["req"], c.get("checker"), r, mm, others, replay)
            verdicts.append(v)
            chk.count("checker:%s" % (c.get("checker") or "absent"))
            if c.get("falsy") and c.get("checker"):
                chk.count("falsy-object:%s" % c["falsy"])
            chk.count("calls:%d" % min(len(r["calls"]), 6))
            chk.count("impl:" + ("raise" if not isinstance(r["decision"], dict) else r["decision"]["effect"]))
            for x in r["calls"]:
                chk.count("resp:" + x["resp"][0] + "/" + x["how"])
            if v in ("violation", "corr"):
                break
    elif kind == "conc":
        if i.get("stray"):
            chk.corr_break("a lookup could not be attributed to any decision (context lost)", c, impl=i["stray"][:3],
                           theorems=["c13_fresh_per_decision"])
            return ["corr"]
        allkeys = [set(qkey(*x["q"]) for x in r["calls"]) for r in i["decisions"]]
        for k, (j, r, mm) in enumerate(zip(c["jobs"], i["decisions"], m)):
            e = c["engines"][j["engine"]]
            for x in r["calls"]:
                if x["eng"] != j["engine"]:
                    chk.violation("a lookup of a decision on one engine arrived at the other engine's checker", c,
                                  impl={"job": k, "engine": j["engine"], "arrived_at": x["eng"], "call": x["q"]})
                    return ["violation"]
            others = set().union(*([s for jj, s in enumerate(allkeys) if jj != k] or [set()]))
            v = judge_decision(chk, c, {"job": k, "engine": j["engine"]}, e["policy"], j["req"], e.get("checker"), r, mm, others, replay)
            verdicts.append(v)
            chk.count("conc:%s" % c.get("mode", "gather"))
            if e.get("falsy") and e.get("checker"):
                chk.count("falsy-object:%s" % e["falsy"])
            if v in ("violation", "corr"):
                break
    elif kind == "nest":
        recs = i["records"]
        ids = {r["id"]: r for r in recs}
        for x in i["calls"]:
            r = ids.get(x["dec"])
            if r is None:
                chk.corr_break("a lookup could not be attributed to any decision (context lost)", c, impl=x["q"],
                               theorems=["c13_fresh_per_decision"])
                return ["corr"]
            if r["engine"] != x["eng"]:
                chk.violation("a lookup of a decision on one engine arrived at another engine's checker (nested evaluation)", c,
                              impl={"decision": r["id"], "engine": r["engine"], "arrived_at": x["eng"], "call": x["q"]})
                return ["violation"]
        per = {r["id"]: nest_calls(i, r) for r in recs}
        allkeys = {rid: set(qkey(*x["q"]) for x in cs) for rid, cs in per.items()}
        # innermost first: a wrong inner decision explains a wrong outer one, not the other way round
        for r in sorted(recs, key=lambda r: -r["id"]):
            mm = m.get((r["engine"], case_key({"r": r["req"]})))
            if mm is None or r["decision"] is None:
                chk.corr_break("a nested evaluation the harness did not plan, or one that did not finish", c, impl=r,
                               theorems=["c13_fresh_per_decision"])
                return ["corr"]
            e = c["engines"][r["engine"]]
            others = set().union(*([s for rid, s in allkeys.items() if rid != r["id"]] or [set()]))
            v = judge_decision(chk, c, {"decision": r["id"], "engine": r["engine"], "nested_in": r["parent"], "via": r["via"],
                                        "checker": e.get("checker") or "absent"},
                               e["policy"], r["req"], e.get("checker"), {"decision": r["decision"], "calls": per[r["id"]]}, mm, others, replay)
            verdicts.append(v)
            chk.count("nest:%s:%s" % ("root" if r.get("root") else "inner", e.get("checker") or "absent"))
            if e.get("falsy") and e.get("checker"):
                chk.count("falsy-object:%s" % e["falsy"])
            for x in per[r["id"]]:
                chk.count("resp:" + x["resp"][0] + "/" + x["how"])
            if v in ("violation", "corr"):
                break
    elif kind == "cond":
        mm = m[0]
        iv = i["value"] if isinstance(i["value"], bool) else (["Raise"] if i["value"][0] == "Raise" else i["value"])
        mv = mm["value"] if isinstance(mm["value"], bool) else (["Raise"] if mm["value"][0] == "Raise" else mm["value"])
        if mv == ["Ood"]:
            chk.count("ood")
            return ["ood"]
        ilog = [[x["q"][0], x["q"][1], x["q"][2], tagged(x["q"][3])] for x in i["calls"]]
        mlog = [[q[0], q[1], q[2], tagged(q[3])] for q in mm["log"]]
        ks = [qkey(*x["q"]) for x in i["calls"]]
        if c.get("memo", True) is True and len(set(ks)) != len(ks):
            chk.violation("the same triple-and-context was looked up twice within one frame (c13_at_most_once)", c,
                          impl={"value": i["value"], "calls": [x["q"] for x in i["calls"]]}, model=mm)
            return ["violation"]
        if iv is True and mv is False:
            chk.violation("a condition with rel nodes holds although the relationship data does not affirm them", c,
                          impl={"value": i["value"], "calls": [x["q"] + [x["resp"]] for x in i["calls"]]}, model=mm)
            return ["violation"]
        if iv != mv or ilog != mlog or mm.get("unknown"):
            chk.corr_break("eval_condition (value, ordered lookups) differs from the model's frame handler", c,
                           impl={"value": i["value"], "calls": [x["q"] for x in i["calls"]]}, model=mm,
                           theorems=["c13_exact_triple_holds", "c13_memo_off_same"])
            return ["corr"]
        chk.count("cond:memo=%s" % c.get("memo", True))
        if c.get("falsy") and c.get("checker"):
            chk.count("falsy-object:%s" % c["falsy"])
        verdicts.append("ok")
    else:
        eq_m = m[0] == m[1]
        chk.count("hash:%s" % ("equal" if i["equal"] else "different"))
        if i["equal"] != eq_m:
            if has_nonjson(c["a"]) or has_nonjson(c["b"]):
                chk.count("hash:nonjson-differs")
            chk.corr_break("_ctx_hash separates/identifies two contexts differently from the model's canonical form", c,
                           impl={"_ctx_hash_equal": i["equal"]}, model={"canonical_equal": eq_m, "a": m[0], "b": m[1]},
                           theorems=["c13_at_most_once", "c13_memo_transparent", "c13_exact_triple_exact"])
            return ["corr"]
        verdicts.append("ok")
    return verdicts


def variants_of(c):
    out = []
    if c.get("kind", "seq") == "seq":
        for neg, mode in ((True, None), (False, "all"), (False, "none"), (True, "all")):
            v = copy.deepcopy(c)
            for k, s in enumerate(v["steps"]):
                d = dict(s.get("data") or {})
                if mode:
                    d["mode"] = mode if k % 2 == 0 else ("none" if mode == "all" else "all")
                if neg:
                    d["neg"] = not d.get("neg", False)
                s["data"] = d
            v["fam"] = c.get("fam", "?") + "/variant"
            out.append(v)
        for salt in (1, 2, 3, 5, 8):
            v = copy.deepcopy(c)
            for s in v["steps"]:
                d = dict(s.get("data") or {})
                d["salt"] = d.get("salt", 0) + salt * 31
                s["data"] = d
            v["fam"] = c.get("fam", "?") + "/variant"
            out.append(v)
    elif c.get("kind") == "conc":
        for salt in (1, 2, 3):
            v = copy.deepcopy(c)
            for e in v["engines"]:
                d = dict(e.get("data") or {})
                d["salt"] = d.get("salt", 0) + salt * 17
                e["data"] = d
            v["fam"] = c.get("fam", "?") + "/variant"
            out.append(v)
    elif c.get("kind") == "local":
        # limits that do not bind (the exactness theorems apply), and other request-level caveat contexts
        def variant(**kw):
            v = copy.deepcopy(c)
            for s in v["steps"]:
                s.pop("expect", None)
            v.update(kw)
            v["fam"] = c.get("fam", "?") + "/variant"
            return v
        for lims in ([8, 10000], [None, None], [50, 10000], [1, 10000], [8, 3]):
            if lims != c.get("limits"):
                out.append(variant(limits=lims))
        for rb in LOCAL_REBAC:
            v = variant()
            for s in v["steps"]:
                s["req"]["context"] = ctx_with_rebac(copy.deepcopy(rb), {k: x for k, x in (s["req"].get("context") or {}).items() if k != "_rebac"})
            out.append(v)
    return out


def reproduces_alone(case):
    """does the case fail when it is the only thing a fresh process evaluates (as --replay does)?"""
    import os
    import subprocess
    import sys
    code = ("import sys, json; sys.path.insert(0, %r); import lib, c13; "
            "c = lib.unjson(json.loads(sys.stdin.read())); k = lib.Check('C13', 'quick', 0); "
            "c13.check_cases(k, [c], replay=True); print('FAILS' if (k.violations or k.corr_breaks) else 'PASSES')"
            % os.path.dirname(os.path.abspath(__file__)))
    try:
        r = subprocess.run([sys.executable, "-c", code], input=json.dumps(lib.jsonable(case)), capture_output=True,
                           text=True, timeout=300)
        return "FAILS" in r.stdout
    except Exception:  # noqa: BLE001
        return True


def order_by_reproducibility(chk, start):
    """violations whose case fails on its own first: a failure that needs what an earlier case left behind in
    the process (state leaking between decisions of different engines) is real, but its replay file alone is not"""
    new = chk.violations[start:start + 30]
    rest = chk.violations[start + 30:]
    alone, needs_history = [], []
    for v in new:
        if len(alone) >= 20:
            needs_history.append(v)
            continue
        if reproduces_alone(lib.unjson(v["case"])):
            alone.append(v)
        else:
            v["note"] = (v.get("note") or "") + " [did not fail when replayed alone: depends on evaluations made earlier in the same process]"
            needs_history.append(v)
    chk.violations[start:] = alone + needs_history + rest


def timing_involved(c, i):
    """does the case depend on the (patched) time-out, or did the engine's bridge time out on some lookup?"""
    if c.get("kind", "seq") == "seq" and base_kind(c.get("checker")) == "slow":
        return True
    calls = list(i.get("calls") or [])
    for r in i.get("decisions") or []:
        calls += r.get("calls") or []
    return any(x.get("late") or (x.get("bridge") or [""])[0] == "timeout" for x in calls)


def confirm_timing(chk, suspects, max_examined=12, enough=5):
    """a failure in a case that involves a time-out is reported only if the case, evaluated alone in a fresh process
    (fresh Guards, the harness otherwise idle), fails three times out of three; a handful of confirmed cases is enough
    for a report, so at most max_examined suspects are examined"""
    from concurrent.futures import ThreadPoolExecutor
    confirmed = 0
    for k, (c, viols, corrs) in enumerate(suspects):
        if k >= max_examined or confirmed >= enough:
            chk.count("timing-suspects-not-examined", len(suspects) - k)
            break
        with ThreadPoolExecutor(3) as ex:
            ok = all(ex.map(lambda _n: reproduces_alone(c), range(3)))
        if ok:
            confirmed += 1
            chk.violations.extend(viols)
            chk.corr_breaks.extend(corrs)
        else:
            chk.extra["timing_dependent_not_reproduced"] = chk.extra.get("timing_dependent_not_reproduced", 0) + 1
            chk.count("timing-dependent-not-reproduced")


def check_cases(chk, cases, replay=False, search=True):
    nviol0 = len(chk.violations)
    try:
        _check_cases(chk, cases, replay, search)
    finally:
        if not replay and search and len(chk.violations) > nviol0 and nviol0 < 20:
            order_by_reproducibility(chk, nviol0)


def _check_cases(chk, cases, replay=False, search=True):
    cases = [c for c in cases]
    # sync/async twins: the same relationship data through the plain synchronous checker and through an
    # asynchronous one (every shape in turn) must give the same decisions and the same lookups
    twins = []
    for c in cases:
        if c.get("kind", "seq") == "seq" and base_kind(c.get("checker")) in TWIN_KINDS and (replay or c.get("twin")):
            twins.append(c)
    impls = run_impl(cases)
    models = model_lines(cases, impls)
    ncorr0 = len(chk.corr_breaks)
    bad_cases = []
    suspects = []
    for c, i, m in zip(cases, impls, models):
        chk.count("fam:" + c.get("fam", "?"))
        nv, nc = len(chk.violations), len(chk.corr_breaks)
        vs = check_one(chk, c, i, m, replay)
        if not replay and (len(chk.violations) > nv or len(chk.corr_breaks) > nc) and timing_involved(c, i):
            suspects.append((c, chk.violations[nv:], chk.corr_breaks[nc:]))
            del chk.violations[nv:], chk.corr_breaks[nc:]
            vs = ["timing"]
        nontriv = any(r.get("calls") for r in i.get("decisions", [])) or bool(i.get("calls")) or c.get("kind") == "hash"
        if c.get("kind") == "nest":
            chk.traces += len(i["records"])
            nontriv = len(i["records"]) > len(c["roots"])
        chk.mark(case_key(c), bool(nontriv))
        if c.get("kind", "seq") in ("seq", "conc", "local"):
            chk.traces += len(i["decisions"])
        chk.sample({"case": c, "impl": i if c.get("kind") != "conc" else {"decisions": i["decisions"][:2]}}, every=499)
        if "corr" in vs:
            bad_cases.append(c)
    # (e) sync vs async delivery
    if twins:
        def reshaped(c, shape):
            t = copy.deepcopy(c)
            t["checker"], t["shape"], t["twin"] = base_kind(c["checker"]), shape, True
            if shape == "plain":
                t.pop("falsy", None)     # the reference side: the ordinary plain checker object
            return t

        def async_shape(c):
            sh = case_shape(c.get("checker"), c.get("shape"))
            if sh not in ("plain",):
                return sh
            return ASYNC_SHAPES[int(hashlib.sha256(case_key(c).encode()).hexdigest(), 16) % len(ASYNC_SHAPES)]

        ta = [reshaped(c, async_shape(c)) for c in twins]
        ti = run_impl(ta)
        si = run_impl([reshaped(c, "plain") for c in twins])
        for c, a, s in zip(ta, ti, si):
            da = [(norm_dec(r["decision"]), [x["q"] for x in r["calls"]]) for r in a["decisions"]]
            ds = [(norm_dec(r["decision"]), [x["q"] for x in r["calls"]]) for r in s["decisions"]]
            chk.count("twin:" + c["shape"])
            if c.get("falsy"):
                chk.count("twin:falsy-object:" + c["falsy"])
            if any(x.get("late") for i2 in (a, s) for r in i2["decisions"] for x in r["calls"]):
                chk.count("twin:late-under-load-skipped")      # the engine legitimately saw a time-out there
                continue
            if da != ds:
                nv = len(chk.violations)
                what = c["shape"] + (", the checker object being false as a Python value: %s" % c["falsy"] if c.get("falsy") else "")
                chk.violation("a synchronous and an asynchronous checker (%s) with the same relationship data give different "
                              "decisions or lookups (c13_sync_async_same)" % what, c, impl={"sync": ds, "async": da})
                if not replay and timing_involved(c, a):
                    suspects.append((c, chk.violations[nv:], []))
                    del chk.violations[nv:]
    if suspects:
        confirm_timing(chk, suspects)
    ntw = [c for c in cases if c.get("kind") == "nest" and (replay or c.get("twin"))]
    if ntw:
        def all_plain(c):
            t = copy.deepcopy(c)
            for e in t["engines"]:
                if e.get("checker"):
                    e["checker"], e["shape"] = base_kind(e["checker"]), "plain"
                    e.pop("falsy", None)
            return t

        def flat(i):
            return [(r["engine"], norm_dec(r["decision"]), [x["q"] for x in nest_calls(i, r)]) for r in i["records"]]

        for c, a, s in zip(ntw, run_impl(ntw), run_impl([all_plain(c) for c in ntw])):
            chk.count("twin:nest")
            if flat(a) != flat(s):
                chk.violation("nested evaluations: asynchronous checkers and plain synchronous ones with the same relationship data "
                              "give different decisions or lookups (c13_sync_async_same)", c, impl={"sync": flat(s), "async": flat(a)})
    # targeted search around correspondence breaks: vary the relationship data until the property itself fails
    if search and bad_cases and not chk.violations and not replay:
        vs = []
        for c in bad_cases[:12]:
            vs += variants_of(c)
        if vs:
            sub = lib.Check(chk.prop, chk.tier, chk.seed)
            _check_cases(sub, vs, replay=False, search=False)
            chk.count("search:variants", len(vs))
            for v in sub.violations[:5]:
                chk.violations.append(v)


# --------------------------------------------------------------------------------------------
# generators
# --------------------------------------------------------------------------------------------
def rule(rid, cond, effect="permit", actions=("read",), resource=None):
    r = {"id": rid, "effect": effect, "actions": list(actions), "resource": resource if resource is not None else {"type": "doc"}}
    if cond is not None:
        r["condition"] = cond
    return r


def single(cond, algo="deny-overrides", extra_rules=()):
    return {"id": "p", "algorithm": algo, "rules": [rule("r1", cond)] + list(extra_rules)}


def mkreq(sid="u1", rtype="doc", rid="d1", sattrs=None, rattrs=None, ctx=None, action="read"):
    return {"subject": {"id": sid, "roles": [], "attrs": sattrs or {}}, "action": action,
            "resource": {"type": rtype, "id": rid, "attrs": rattrs or {}}, "context": ctx if ctx is not None else {}}


IDS = ["u1", "a:b", "", 7, 1.5, True, False, None, 10 ** 20, -0.0, "ü", [1], {"k": 1}]
TYPES = ["doc", "", None, 0, 1, "a:b", True, 2.5]
SUBJ_OVR = [None, "group:g1", "bob", "", ":x", 5, True, {"attr": "subject.attrs.team"}, {"attr": "subject.id"},
            {"attr": "context.missing.deeper"}, {"type": "user", "id": "u9"}, ["user:x"]]
RES_OVR = [None, "folder:f1", "f1", "", 7, {"attr": "resource.attrs.parent"}, {"attr": "resource.id"},
           {"attr": "resource.attrs.none"}, {"type": "doc", "id": "d9"}]
TEAMS = ["team:t1", "t1", 5, None, "", ["team:t1"]]
PARENTS = ["folder:f1", "f2", None, 7, ""]
REBACS = ["<absent>", None, {}, {"ip": "10.0.0.1"}, {"ip": "10.0.0.1", "z": 1}, {"b": 1, "a": {"y": [1, 2.0, True, None], "x": "s"}},
          [], "x", 5, [["k", "v"]], {"ip": None}]
NODE_CTX = ["<absent>", None, {}, {"ip": "1.2.3.4"}, {"new": 1}, {"z": 2, "ip": "9.9.9.9", "k": {"n": [1]}}, [], "s", 5, 0,
            {"a": {"x": "s", "y": [1, 2.0, True, None]}, "b": 1}]
KINDS = [None, "sync", "async", "mixed", "values", "raising", "flaky", "badbool"]


def node(relation="viewer", subject="<absent>", resource="<absent>", ctx="<absent>", short=False):
    if short:
        return {"rel": relation}
    e = {"relation": relation}
    if subject != "<absent>":
        e["subject"] = subject
    if resource != "<absent>":
        e["resource"] = resource
    if ctx != "<absent>":
        e["ctx"] = ctx
    return {"rel": e}


def ctx_with_rebac(rb, extra=None):
    c = dict(extra or {})
    if rb != "<absent>":
        c["_rebac"] = rb
    return c


def seq_case(fam, policy, reqs, checker, datas=None, strict=False, api="async", twin=False, shape=None, falsy=None):
    datas = datas or [{"salt": 0}]
    steps = [{"req": r, "data": datas[k % len(datas)]} for k, r in enumerate(reqs)]
    c = {"fam": fam, "kind": "seq", "policy": policy, "strict": strict, "api": api, "checker": checker, "steps": steps}
    if twin:
        c["twin"] = True
    if shape:
        c["shape"] = shape
    if falsy and checker:
        c["falsy"] = falsy
    return c


def falsy_by_hash(obj, one_in):
    """a falsy checker object for one case in `one_in`, chosen by the case's own text (no draw from the seeded stream:
    the random families stay what they were)"""
    h = int(hashlib.sha256(json.dumps(lib.jsonable(obj), sort_keys=True, default=str).encode()).hexdigest()[:12], 16)
    return FALSY_OBJS[(h // one_in) % len(FALSY_OBJS)] if h % one_in == 0 else None


OPCTX = {
    "bare": lambda a, b: a,
    "and_same": lambda a, b: {"and": [a, copy.deepcopy(a)]},
    "and_ab": lambda a, b: {"and": [a, b]},
    "or_ab": lambda a, b: {"or": [a, b]},
    "or_ba_a": lambda a, b: {"or": [b, a, copy.deepcopy(a)]},
    "not_a": lambda a, b: {"not": a},
    "not_or": lambda a, b: {"not": {"or": [a, b]}},
    "nested": lambda a, b: {"and": [{"or": [b, a]}, {"not": {"and": [a, b]}}, a]},
    "thrice": lambda a, b: {"or": [{"and": [a, b]}, {"and": [copy.deepcopy(a), {"not": copy.deepcopy(b)}]}, copy.deepcopy(a)]},
    "mixed_ops": lambda a, b: {"and": [{"==": [{"attr": "action"}, "read"]}, a, {"or": [{"==": [1, 2]}, b]}]},
    "and_nonlist": lambda a, b: {"and": "ab", "or": [a]},
    "rel_and_and": lambda a, b: dict(a, **{"and": [b]}),
}


def enumerated(chk):
    out = []
    quick = chk.tier == "quick"
    # 1. subject override x subject id x attribute value x checker kind (exhaustive over the small pools)
    for ov, sid in itertools.product(SUBJ_OVR, IDS):
        teams = TEAMS if ov == {"attr": "subject.attrs.team"} else [None]
        for team in teams:
            pol = single(node("viewer", subject=ov if ov is not None else "<absent>"))
            req = mkreq(sid=sid, sattrs={"team": team} if team is not None else {})
            out.append(seq_case("subject", pol, [req], "sync", [{"mode": "all"}]))
    # 2. resource override x type x id x attribute
    for ov, rt, rid in itertools.product(RES_OVR, TYPES, ["d1", "x:y", None, 7, ""]):
        parents = PARENTS if ov == {"attr": "resource.attrs.parent"} else [None]
        for par in parents:
            pol = single(node("viewer", resource=ov if ov is not None else "<absent>"), extra_rules=[rule("r2", {"rel": "owner"}, resource={})])
            pol["rules"][0]["resource"] = {}
            req = mkreq(rtype=rt, rid=rid, rattrs={"parent": par} if par is not None else {})
            out.append(seq_case("resource", pol, [req], "async", [{"mode": "all"}]))
    # 3. _rebac shape x node ctx shape (merge, override, raising shapes), a second node without ctx beside it
    for rb, lc in itertools.product(REBACS, NODE_CTX):
        pol = single({"and": [node("viewer", ctx=lc), {"rel": "viewer"}, node("viewer", ctx=lc)]})
        out.append(seq_case("ctx", pol, [mkreq(ctx=ctx_with_rebac(rb, {"n": 1}))], "sync", [{"mode": "all"}], twin=True))
    # 4. operator context x checker kind x relationship data
    a = node("viewer", short=True)
    b = node("editor", subject="group:g1", ctx={"ip": "1.2.3.4"})
    salts = range(4 if quick else 12)
    for (name, f), kind, salt in itertools.product(OPCTX.items(), KINDS, salts):
        pol = single(f(copy.deepcopy(a), copy.deepcopy(b)), algo=["deny-overrides", "permit-overrides", "first-applicable"][salt % 3])
        api = ["async", "sync", "sync_in_loop"][(salt + len(name)) % 3] if salt % 4 == 3 else "async"
        out.append(seq_case("opctx:" + name, pol, [mkreq(ctx={"_rebac": {"ip": "10.0.0.1"}})], kind, [{"salt": salt}], api=api,
                            twin=(salt % 2 == 0)))
    # 5. several rules / sets sharing nodes, effects, algorithms, fallback from the compiled function
    for algo, salt in itertools.product(["deny-overrides", "permit-overrides", "first-applicable"], salts):
        rules = [rule("r1", {"and": [a, b]}, "deny"), rule("r2", {"or": [b, a]}, "permit"), rule("r3", {"not": a}, "permit"),
                 rule("r4", a, "deny", actions=["write"]), rule("r5", b, "permit", resource={"type": "img"})]
        pol = {"id": "p", "algorithm": algo, "rules": copy.deepcopy(rules)}
        out.append(seq_case("rules", pol, [mkreq(), mkreq(action="write"), mkreq(rtype="img")], "mixed", [{"salt": salt}]))
        ps = {"id": "s", "algorithm": algo, "policies": [
            {"id": "c1", "algorithm": "permit-overrides", "rules": copy.deepcopy(rules[:2])},
            {"id": "s2", "algorithm": algo, "policies": [{"id": "c2", "algorithm": "deny-overrides", "rules": copy.deepcopy(rules[1:4])},
                                                         {"id": "c3", "rules": copy.deepcopy(rules[2:])}]}]}
        out.append(seq_case("sets", ps, [mkreq(), mkreq(action="write")], "sync", [{"salt": salt}], twin=True))
        # a later rule whose condition raises: the compiled function fails, the interpreter runs with the same frame
        fb = {"id": "p", "algorithm": algo, "rules": [rule("r1", a, "permit"), rule("r2", {"and": [b, {"==": [1]}]}, "deny"),
                                                       rule("r3", b, "permit")]}
        out.append(seq_case("fallback", fb, [mkreq()], "sync", [{"salt": salt}]))
        nc = {"id": "p", "algorithm": algo, "rules": [rule("r1", a, "permit"), "not-a-rule"]}
        out.append(seq_case("uncompilable", nc, [mkreq()], "sync", [{"salt": salt}]))
    # 6. degenerate rel operands
    for e in ["", None, 5, [], ["viewer"], True, {}, {"relation": ""}, {"relation": None}, {"relation": 7}, {"relation": ["v"]},
              {"relation": "viewer", "subject": None, "resource": None, "ctx": None}, {"subject": "user:x"}]:
        out.append(seq_case("operand", single({"or": [{"rel": e}, {"rel": "viewer"}]}), [mkreq()], "sync", [{"mode": "all"}]))
    # 7. sequences: relationship data changes between decisions; same and alternating requests
    for salt in salts:
        pol = single(OPCTX["nested"](copy.deepcopy(a), copy.deepcopy(b)), algo="permit-overrides")
        r1, r2 = mkreq(), mkreq(sid="u2")
        for kind in ("sync", "async", "values", "flaky"):
            out.append(seq_case("sequence", pol, [r1, r1, r2, r1, r1, r2],
                                kind, [{"salt": salt}, {"salt": salt, "neg": True}, {"mode": "all"}, {"mode": "none"},
                                       {"salt": salt + 1}, {"salt": salt, "neg": True}],
                                api=["async", "sync", "sync_in_loop"][salt % 3]))
        out.append(seq_case("sequence", single(a), [r1, r1, r1, r1], "sync", [{"mode": "all"}, {"mode": "none"}, {"mode": "all"}, {"mode": "none"}]))
        out.append(seq_case("sequence", single({"not": a}), [r1, r1, r1], "raising" if salt % 2 else "sync",
                            [{"mode": "none"}, {"mode": "all"}, {"mode": "none"}]))
    # 8. the same triple with different contexts (the context is part of the key), every operator context
    A1, A2, A3 = node("viewer", ctx={"ip": "1"}), node("viewer", ctx={"ip": "2"}), node("viewer", ctx={"ip": 1})
    for (name, f), salt, (x, y) in itertools.product(OPCTX.items(), salts, [(A1, A2), (A1, A3), (a, A1)]):
        out.append(seq_case("ctxkey:" + name, single(f(copy.deepcopy(x), copy.deepcopy(y)), algo="permit-overrides"),
                            [mkreq(ctx={"_rebac": {"z": 1}})], ["sync", "async", "values"][salt % 3], [{"salt": salt}], twin=(salt % 3 == 0)))
    # 9. every way a checker can be asynchronous x answer kind (affirmative / negative / non-bool / raising /
    #    raising in bool() / never finishing) x operator context: same decisions and lookups as the plain checker
    for shape, kind, name, salt in itertools.product(SHAPES + ["mixed"], ["sync", "values", "flaky", "raising", "badbool"],
                                                     ["bare", "not_a", "or_ab", "and_ab", "nested"], range(2 if quick else 6)):
        pol = single(OPCTX[name](copy.deepcopy(a), copy.deepcopy(b)), algo=["permit-overrides", "deny-overrides"][salt % 2])
        api = ["async", "sync", "sync_in_loop"][(salt + len(name) + len(shape)) % 3]
        out.append(seq_case("shape:" + shape, pol, [mkreq(ctx={"_rebac": {"ip": "10.0.0.1"}}), mkreq(sid="u2")], kind,
                            [{"salt": salt}, {"salt": salt, "neg": True}], api=api, twin=(shape != "plain"), shape=shape))
    for shape, mode in itertools.product(SHAPES + ["mixed"], ["all", "none"]):
        for name in ("bare", "not_a"):
            out.append(seq_case("shape:" + shape, single(OPCTX[name](copy.deepcopy(a), copy.deepcopy(b))), [mkreq()], "sync",
                                [{"mode": mode}], twin=(shape != "plain"), shape=shape))
    # 10. the checker OBJECT is false as a Python value (empty list / dict / set subclass, __len__ == 0, __bool__ False,
    #     a list of its own lookups) x plain / class-level async def / the other asynchronous shapes x answer kind x
    #     operator context: a configured checker is consulted all the same (same decisions and lookups as the ordinary one)
    fshapes = [("sync", "plain"), ("async", None)] + [("sync", x) for x in ASYNC_SHAPES + ["mixed"]]
    fkinds = ["sync", "values"] if quick else ["sync", "values", "flaky", "raising", "badbool"]
    n = 0
    for falsy, (k0, shape), name, salt in itertools.product(FALSY_OBJS, fshapes, ["bare", "not_a", "or_ab", "and_ab", "nested", "thrice"],
                                                            range(1 if quick else 4)):
        n += 1
        if quick and shape not in ("plain", None) and (n + chk.seed) % 5:
            continue                                    # quick: plain and async def always, a rotating fifth of the rest
        kind = k0 if k0 == "async" else fkinds[n % len(fkinds)]
        pol = single(OPCTX[name](copy.deepcopy(a), copy.deepcopy(b)), algo=["permit-overrides", "deny-overrides", "first-applicable"][n % 3])
        api = ["async", "sync", "sync_in_loop"][n % 3]
        out.append(seq_case("falsy:" + falsy, pol, [mkreq(ctx={"_rebac": {"ip": "10.0.0.1"}}), mkreq(sid="u2"), mkreq()], kind,
                            [{"salt": salt}, {"salt": salt, "neg": True}, {"mode": "all"}], api=api,
                            twin=(kind != "async" and n % (4 if quick else 2) == 0), shape=shape, falsy=falsy))
    for falsy, mode, name in itertools.product(FALSY_OBJS, ["all", "none"], ["bare", "not_a"]):
        out.append(seq_case("falsy:" + falsy, single(OPCTX[name](copy.deepcopy(a), copy.deepcopy(b))), [mkreq(), mkreq()], "sync",
                            [{"mode": mode}, {"mode": "none" if mode == "all" else "all"}], twin=(name == "bare" or not quick),
                            shape="plain", falsy=falsy))
    #     ... and in rule lists / nested sets, with the relationship data changed between decisions
    for k, falsy in enumerate(FALSY_OBJS):
        algo = ["deny-overrides", "permit-overrides", "first-applicable"][k % 3]
        rules = [rule("r1", {"and": [a, b]}, "deny"), rule("r2", {"or": [b, a]}, "permit"), rule("r3", {"not": a}, "permit"),
                 rule("r4", a, "deny", actions=["write"])]
        ps = {"id": "s", "algorithm": algo, "policies": [{"id": "c1", "algorithm": "permit-overrides", "rules": copy.deepcopy(rules[:2])},
                                                         {"id": "c2", "algorithm": "deny-overrides", "rules": copy.deepcopy(rules[1:])}]}
        for pol in ({"id": "p", "algorithm": algo, "rules": copy.deepcopy(rules)}, ps):
            out.append(seq_case("falsy:" + falsy, pol, [mkreq(), mkreq(action="write"), mkreq(), mkreq()], ["sync", "async"][k % 2],
                                [{"salt": k}, {"mode": "all"}, {"mode": "none"}, {"salt": k, "neg": True}],
                                api=["async", "sync", "sync_in_loop"][k % 3], twin=(k % 2 == 0), falsy=falsy))
    return out


def rand_tree(rng, depth, leaves):
    if depth <= 0 or rng.random() < 0.2:
        r = rng.random()
        if r < 0.85:
            return copy.deepcopy(rng.choice(leaves))
        return rng.choice([True, False, {"==": [{"attr": "action"}, "read"]}, {"==": [1, 2]}, {"<": ["a", 1]}])
    op = rng.choice(["and", "or", "not", "and", "or"])
    if op == "not":
        return {"not": rand_tree(rng, depth - 1, leaves)}
    return {op: [rand_tree(rng, depth - 1, leaves) for _ in range(rng.choice([2, 2, 3, 4]))]}


RAND_CTX = ["<absent>", "<absent>", {}, {"ip": "1.2.3.4"}, {"new": 1}, {"z": 2, "ip": "9.9.9.9"}, {"ip": "10.0.0.1"}, {"z": 1, "ip": "10.0.0.1"},
            {"new": 1.0}, {"new": True}, {"k": {"b": 1, "a": 2}}, {"k": {"a": 2, "b": 1}}]


def rand_leaves(rng):
    out = []
    for _ in range(rng.choice([2, 3, 4, 5, 6])):
        r = rng.random()
        if r < 0.25:
            out.append({"rel": rng.choice(["viewer", "editor", "owner"])})
        elif r < 0.6:
            # the same triple as the short form, told apart (or not) by the context only
            out.append(node(rng.choice(["viewer", "editor"]), ctx=rng.choice(RAND_CTX)))
        else:
            out.append(node(rng.choice(["viewer", "editor"]), subject=rng.choice(["<absent>"] + SUBJ_OVR[1:10]),
                            resource=rng.choice(["<absent>"] + RES_OVR[1:8]), ctx=rng.choice(RAND_CTX)))
    return out


def rand_policy(rng, leaves, depth=0):
    if depth < 2 and rng.random() < 0.3:
        ps = {"id": "s%d" % rng.randrange(99), "policies": [rand_policy(rng, leaves, depth + 1) for _ in range(rng.choice([1, 2, 3]))]}
        al = rng.choice(["deny-overrides", "permit-overrides", "first-applicable", None])
        if al:
            ps["algorithm"] = al
        return ps
    rules = []
    for i in range(rng.choice([1, 2, 3, 4])):
        rules.append(rule("r%d" % rng.randrange(999), rand_tree(rng, rng.choice([1, 2, 3, 4]), leaves) if rng.random() < 0.9 else None,
                          rng.choice(["permit", "permit", "deny"]), actions=rng.choice([["read"], ["read"], ["*"], ["write"], ["read", "write"]]),
                          resource=rng.choice([{"type": "doc"}, {}, {}, {"type": "*"}, {"type": "doc", "id": "d1"}, {"type": ["doc", "img"]}, {"type": "img"}])))
    return {"id": "p%d" % rng.randrange(99), "algorithm": rng.choice(["deny-overrides", "permit-overrides", "first-applicable"]), "rules": rules}


def rand_req(rng):
    return mkreq(sid=rng.choice(IDS[:10]), rtype=rng.choice(["doc", "doc", "doc", "img", None, "", 1]), rid=rng.choice(["d1", "d1", "x:y", None, 7]),
                 sattrs=rng.choice([{}, {"team": "team:t1"}, {"team": "t1"}, {"team": 5}]),
                 rattrs=rng.choice([{}, {"parent": "folder:f1"}, {"parent": "f2"}, {"parent": 7}]),
                 ctx=ctx_with_rebac(rng.choice(["<absent>", {}, {"ip": "10.0.0.1"}, {"ip": "10.0.0.1", "z": 1}, {"z": 1, "ip": "10.0.0.1"}, None])),
                 action=rng.choice(["read", "read", "read", "write"]))


def random_cases(chk, n):
    rng = chk.rng
    out = []
    for _ in range(n):
        leaves = rand_leaves(rng)
        pol = rand_policy(rng, leaves)
        reqs = [rand_req(rng) for _ in range(rng.choice([1, 2, 3]))]
        if rng.random() < 0.5:
            reqs = reqs + [copy.deepcopy(reqs[0])]
        datas = [{"salt": rng.randrange(1000), "neg": rng.random() < 0.3} for _ in range(rng.choice([1, 2, 3]))]
        out.append(seq_case("random", pol, reqs, rng.choice(KINDS + ["sync", "async"]), datas, strict=rng.random() < 0.2,
                            api=rng.choice(["async", "async", "async", "sync", "sync_in_loop"]), twin=rng.random() < 0.3,
                            shape=rng.choice([None, None] + SHAPES + ["mixed"])))
        f = falsy_by_hash(out[-1], 6)
        if f and out[-1]["checker"]:
            out[-1]["falsy"] = f
    return out


def conc_cases(chk, n):
    rng = chk.rng
    out = []
    for k in range(n):
        leaves = rand_leaves(rng)
        polA = rand_policy(rng, leaves)
        polB = polA if rng.random() < 0.6 else rand_policy(rng, leaves)
        salt = rng.randrange(1000)
        kinds = rng.choice([("sync", "sync"), ("async", "async"), ("sync", "async"), ("mixed", "values"), ("async", None), ("flaky", "async")])
        engines = [{"policy": polA, "strict": False, "checker": kinds[0], "data": {"salt": salt}},
                   {"policy": polB, "strict": False, "checker": kinds[1], "data": {"salt": salt, "neg": True}}]
        for e in engines:
            sh = rng.choice([None] + SHAPES + ["mixed"])
            if sh and e["checker"]:
                e["shape"] = sh
            f = falsy_by_hash([k, e], 6)
            if f and e["checker"]:
                e["falsy"] = f
        reqs = [rand_req(rng) for _ in range(rng.choice([2, 3]))]
        jobs = []
        for j in range(rng.choice([6, 10, 16])):
            jobs.append({"engine": j % 2 if rng.random() < 0.8 else rng.randrange(2), "req": copy.deepcopy(reqs[(j // 2) % len(reqs)])})
        mode = "threads" if k % 3 == 2 else "gather"
        out.append({"fam": "conc:" + mode, "kind": "conc", "mode": mode, "threads": rng.choice([2, 4, 6]), "engines": engines, "jobs": jobs})
    return out


def overlap_cases(chk):
    """decisions on ONE engine that start while earlier ones are between two lookups of a repeated node (lookups take a
    few ms, starts are staggered): each decision still asks each triple-and-context once, from its own frame"""
    out = []
    a, b = node("viewer", short=True), node("editor", subject="group:g1", ctx={"ip": "1.2.3.4"})
    cond = {"and": [a, b, copy.deepcopy(a), {"or": [{"not": copy.deepcopy(b)}, copy.deepcopy(a)]}, copy.deepcopy(b), copy.deepcopy(a)]}
    pol = single(cond, algo="permit-overrides")
    for k, shape in enumerate(["coro", "async_def", "future", "task", "await_obj", "plain", "plain", "partial"]):
        mode = "threads" if shape == "plain" else "gather"
        engines = [{"policy": pol, "strict": False, "checker": "sync", "shape": shape, "data": {"mode": "all", "lag": 0.003}},
                   {"policy": pol, "strict": False, "checker": "sync", "shape": shape, "data": {"mode": "all", "lag": 0.003, "neg": k % 2 == 0}}]
        jobs = [{"engine": 0 if j % 4 else 1, "req": mkreq(sid="u%d" % (j % 2))} for j in range(8)]
        out.append({"fam": "conc:overlap:" + shape, "kind": "conc", "mode": mode, "threads": 8, "stagger": 0.002, "engines": engines, "jobs": jobs})
    return out


def slow_cases(chk, n):
    out = []
    a, b = node("viewer", short=True), node("editor", subject="group:g1", ctx={"ip": "1.2.3.4"})
    shapes = [None] + ASYNC_SHAPES + ["mixed"]
    for salt in range(n):
        name = list(OPCTX)[salt % len(OPCTX)]
        pol = single(OPCTX[name](copy.deepcopy(a), copy.deepcopy(b)), algo="permit-overrides")
        out.append(seq_case("slow:" + name, pol, [mkreq(), mkreq()], "slow", [{"salt": salt}, {"salt": salt + 50}],
                            shape=shapes[salt % len(shapes)], twin=(salt % 2 == 0)))
    # a lookup that never finishes under `not` / `or`, through every asynchronous shape
    for k, shape in enumerate(ASYNC_SHAPES + ["mixed"]):
        for name in ("not_a", "or_ab"):
            out.append(seq_case("slow:shape:" + shape, single(OPCTX[name](copy.deepcopy(a), copy.deepcopy(b))), [mkreq()], "slow",
                                [{"salt": 100 + k}], shape=shape, twin=(name == "not_a")))
    return out


def nest_cases(chk):
    """a relationship checker whose check() evaluates a request on another Guard (with its own checker, a raising
    one, or none), one and two levels deep; the inner policy tests the same triple-and-context the outer decision
    has memoised, the same triple under another context, or other relations"""
    quick = chk.tier == "quick"
    out = []
    a = {"rel": "viewer"}
    dl = {"rel": "shareable"}                       # answered by the inner engine's decision
    outer = {"and_ad": {"and": [a, dl]}, "and_da_a": {"and": [dl, a, {"rel": "editor"}]}, "or_not": {"or": [{"not": a}, dl, {"rel": "owner"}]}}
    inner = {"same": a, "other_ctx": {"or": [node("viewer", ctx={"ip": "1.2.3.4"}), {"rel": "editor"}]},
             "and_more": {"and": [a, {"not": {"rel": "owner"}}]}}
    ctx = {"_rebac": {"ip": "10.0.0.1"}}
    req, req2 = mkreq(ctx=ctx), mkreq(sid="u2", ctx=ctx)
    inner_checkers = [(None, {}), ("raising", {}), ("sync", {"salt": 5, "neg": True}), ("sync", {"mode": "all"})]
    n = 0
    for shape, (kin, din), iname, oname, via in itertools.product(SHAPES + ["mixed"], inner_checkers, inner, outer, ["evaluate", "is_allowed"]):
        n += 1
        depth = 1 + n % 2
        dataA = {"mode": "all"} if n % 3 else {"salt": n % 7}
        api = ["async", "sync", "sync_in_loop"][n % 3]
        engs = [{"policy": single(copy.deepcopy(outer[oname]), algo="permit-overrides"), "strict": False, "checker": ["sync", "values"][n % 2],
                 "shape": shape, "data": dataA, "delegates": {"shareable": {"engine": 1, "req": req if n % 5 else req2, "via": via}}}]
        last = {"policy": single(copy.deepcopy(inner[iname])), "strict": False, "checker": kin, "data": din}
        if kin:
            last["shape"] = SHAPES[n % len(SHAPES)]
        if depth == 1:
            engs.append(last)
        else:
            engs.append({"policy": single({"and": [a, {"rel": "orgok"}]}), "strict": False, "checker": "sync", "data": {"mode": "all"},
                         "shape": SHAPES[(n // 2) % len(SHAPES)], "delegates": {"orgok": {"engine": 2, "req": req, "via": via}}})
            engs.append(last)
        out.append({"fam": "nest:%d:%s" % (depth, shape), "kind": "nest", "api": api, "engines": engs,
                    "roots": [{"engine": 0, "req": req}, {"engine": 0, "req": req2}], "twin": n % 4 == 0})
    if quick:
        # every shape, every inner checker and every combination that puts the outer memo entry under the inner rel stay
        out = [c for k, c in enumerate(out) if c["engines"][-1]["checker"] is None or k % 2 == chk.seed % 2]
    return out


def cond_cases(chk):
    out = []
    quick = chk.tier == "quick"
    a, b = node("viewer", short=True), node("editor", subject="group:g1", ctx={"ip": "1.2.3.4"})
    env = spec_env(mkreq(ctx={"_rebac": {"ip": "10.0.0.1"}}))
    for (name, f), memo, kind, salt in itertools.product(OPCTX.items(), [True, False, "nondict"], ["sync", "async", None, "raising", "values"], range(2)):
        out.append({"fam": "cond", "kind": "cond", "cond": f(copy.deepcopy(a), copy.deepcopy(b)), "env": env, "checker": kind,
                    "data": {"salt": salt}, "memo": memo})
    for shape, kind, name in itertools.product(SHAPES + ["mixed"], ["sync", "flaky", "values"], ["not_a", "or_ab", "nested"]):
        out.append({"fam": "cond:shape", "kind": "cond", "cond": OPCTX[name](copy.deepcopy(a), copy.deepcopy(b)), "env": env,
                    "checker": kind, "shape": shape, "data": {"salt": 3}, "memo": True})
    for falsy, (kind, shape), name, memo in itertools.product(FALSY_OBJS, [("sync", "plain"), ("async", None), ("values", "coro")],
                                                              ["bare", "not_a", "nested"], [True] if quick else [True, False]):
        out.append({"fam": "cond:falsy", "kind": "cond", "cond": OPCTX[name](copy.deepcopy(a), copy.deepcopy(b)), "env": env,
                    "checker": kind, "data": {"salt": 3}, "memo": memo, "falsy": falsy})
        if shape:
            out[-1]["shape"] = shape
    return out


HASH_POOL = [{}, {"a": 1}, {"a": 1.0}, {"a": True}, {"a": "1"}, {"a": None}, {"a": 1, "b": 2}, {"b": 2, "a": 1}, {"a": [1, 2]}, {"a": [2, 1]},
             {"a": {"x": 1, "y": 2}}, {"a": {"y": 2, "x": 1}}, {"a": "ü"}, {"a": "\\u00fc"}, {"a": 0}, {"a": -0.0}, {"a": 0.0}, {"a": False},
             {"a": ""}, {"a": []}, {"a": {}}, {"a": 10 ** 20}, {"a": 1e20}, {"a,": 1}, {"a": ",", "b": 1}, {"a": "\","}, {"A": 1},
             {"a": float("inf")}, {"a": "Infinity"}, {"a": [[]]}, {"a": [{}]}, {"": 1}, {"a": {"b": {"c": [1, {"d": None}]}}},
             {"a": {"b": {"c": [1, {"d": 0}]}}}, {"t": _dt.datetime(2020, 1, 1, tzinfo=_dt.timezone.utc)}, {"t": "2020-01-01 00:00:00+00:00"},
             {"t": _dt.datetime(2020, 1, 1)}, {"t": "2020-01-01 00:00:00"}, {"t": "2020-01-01T00:00:00+00:00"}]


def hash_cases(chk):
    return [{"fam": "hash", "kind": "hash", "a": a, "b": b} for a, b in itertools.product(HASH_POOL, HASH_POOL)]


def f23_cases():
    t = _dt.datetime(2020, 1, 1, tzinfo=_dt.timezone.utc)
    pol = single({"and": [{"rel": "viewer"}, node("viewer", ctx={"t": str(t)})]})
    return [seq_case("F25", pol, [mkreq(ctx={"_rebac": {"t": t}})], "sync", [{"mode": "has_dt"}])]


# ---- the local checker behind the Guard (stores, rule maps and registries are c12's; rel leaves, trees, policies c13's) ----
LOCAL_REBAC = ["<absent>", None] + c12.HCTXS[1:] + [{"ip": "10.0.0.1"}, {"ip": "8.8.8.8", "ok": True},
                                                     {"hour": 22, "ip": "10.0.0.1", "ok": False}]
LOCAL_NODE_CTX = ["<absent>", "<absent>", {}, {"ok": True}, {"ok": False}, {"hour": 10}, {"hour": 22}, {"hour": "x"},
                  {"ip": "10.0.0.1"}, {"ip": "1.2.3.4", "ok": 0}, {"ok": True, "hour": 12}, {"ok": 1, "z": [1]}]
LOCAL_LIMITS = [[8, 10000], [8, 10000], [None, None], [4, 10000], [3, 10000], [2, 10000], [1, 10000], [0, 10000], [-1, 10000],
                [8, 1], [8, 2], [8, 3], [8, 5], [8, 10], [2, 4], [50, 10000], [8, 0]]
LOCAL_SEED_REGS = [None, {"c1": "T", "c2": "F"}, {"c1": "ctx", "c2": "nok"}, {"c1": "hour", "c2": "R", "": "T"},
                   {"c1": "office", "c2": "get"}]
_ROLES = {"viewer": c12.un("this", c12.cu("editor"), c12.ttu("parent", "viewer")),
          "editor": c12.un("this", c12.cu("owner")), "owner": "this"}
RL_RULES = {"doc": _ROLES, "folder": _ROLES}          # theories/RelLocal.v: rl_rules, rl_store (alice / bob / carol)
RL_STORE = [["folder:a", "parent", "doc:7", None], ["folder:root", "parent", "folder:a", None],
            ["user:alice", "owner", "folder:root", None], ["user:bob", "viewer", "doc:8", None],
            ["user:carol", "viewer", "doc:7", "office"]]


def local_case(fam, store, rules, reg, limits, policy, steps, strict=False, api="async"):
    return {"fam": fam, "kind": "local", "store": [list(t) for t in store], "rules": rules, "reg": reg, "limits": list(limits),
            "policy": policy, "strict": strict, "api": api, "steps": steps}


def local_req(q, rebac="<absent>", team=None, parent=None, int_id=False, action="read"):
    """the request whose canonical (subject, resource) are those of the c12 query q = [subject, relation, resource]"""
    s, _r, o = q
    sid = s[5:] if s.startswith("user:") else s
    rtype, _, rid = o.partition(":")
    if int_id and rid.isdigit() and str(int(rid)) == rid:
        rid = int(rid)
    return mkreq(sid=sid, rtype=rtype, rid=rid, sattrs={"team": team} if team is not None else {},
                 rattrs={"parent": parent} if parent is not None else {}, ctx=ctx_with_rebac(copy.deepcopy(rebac)), action=action)


def anywhere(pol):
    for r in pol["rules"]:
        r["resource"] = {}
    return pol


def local_leaves(rng, rels, subjects, objects, store=()):
    """rel leaves (c13's node forms) whose relations, overrides and contexts are the store's and the predicates'"""
    sub_lit = list(subjects) + [s[5:] for s in subjects if s.startswith("user:")]
    obj_lit = list(objects) + [o.partition(":")[2] for o in objects if ":" in o]
    grants = [t for t in store if t[1] in ("viewer", "editor", "owner", "member")]
    weaker = {"owner": ["owner", "editor", "viewer"], "editor": ["editor", "viewer"], "viewer": ["viewer"], "member": ["member", "viewer"]}
    out = []
    for _ in range(rng.choice([2, 3, 4, 5])):
        x, rel = rng.random(), rng.choice(rels)
        if x < 0.25:
            out.append({"rel": rel})
        elif x < 0.45:
            out.append(node(rel, ctx=rng.choice(LOCAL_NODE_CTX)))
        elif x < 0.7 and grants:
            # a stored grant, asked for the role itself or one it implies, on the object or on something it contains
            t = rng.choice(grants)
            below = [e[2] for e in store if e[1] == "parent" and e[0] == t[2]]
            out.append(node(rng.choice(weaker[t[1]]), subject=t[0], resource=rng.choice([t[2]] + below),
                            ctx=rng.choice(LOCAL_NODE_CTX + [{"ok": True, "hour": 10, "ip": "10.0.0.1"}])))
        else:
            so = rng.choice(["<absent>", "<absent>", {"attr": "subject.attrs.team"}, {"attr": "subject.id"}, rng.choice(sub_lit), rng.choice(sub_lit)])
            ro = rng.choice(["<absent>", "<absent>", {"attr": "resource.attrs.parent"}, {"attr": "resource.id"}, rng.choice(obj_lit), rng.choice(obj_lit)])
            out.append(node(rel, subject=so, resource=ro, ctx=rng.choice(LOCAL_NODE_CTX)))
    return out


def local_enumerated(chk):
    quick = chk.tier == "quick"
    apis = ["async", "sync", "sync_in_loop"]
    out = []
    # 1. the example of theories/RelLocal.v (viewer <- editor <- owner, parent folders, carol's office caveat):
    #    who x request-level caveat context x limits x registry x policy form
    viewer = {"rel": "viewer"}
    pols = [single(viewer),
            single(node("viewer", ctx={"ip": "10.0.0.1"})),                      # the node's ctx wins over context._rebac
            single({"or": [node("viewer", ctx={"ip": "8.8.8.8", "site": "hq"}), {"rel": "owner"}]}),   # ... also when it is the wrong one
            {"id": "p", "algorithm": "deny-overrides", "rules": [rule("view", viewer), rule("noedit", {"not": {"rel": "editor"}}, "deny", actions=["write"]),
                                                               rule("edit", {"rel": "editor"}, "permit", actions=["write"])]},
            single({"or": [{"rel": "owner"}, {"and": [viewer, node("viewer", subject="user:alice", resource={"attr": "resource.attrs.parent"})]}]},
                   algo="permit-overrides")]
    part = []
    n = 0
    for rb, lims, reg, (pi, pol) in itertools.product(["<absent>", {"ip": "10.0.0.1"}, {"ip": "8.8.8.8"}],
                                                      [[8, 10000], [4, 10000], [3, 10000], [8, 3], [None, None], [8, 4]],
                                                      [{"office": "office"}, {}, None, {"office": "R"}], enumerate(pols)):
        n += 1
        steps = [{"req": local_req(["user:" + who, "viewer", "doc:7"], rb, parent="folder:a", int_id=True,
                                   action="write" if (pi == 3 and who in ("alice", "bob")) else "read")}
                 for who in ("alice", "bob", "carol", "dave")]
        part.append(local_case("local:example", RL_STORE, RL_RULES, reg, lims, copy.deepcopy(pol), steps, api=apis[n % 3]))
    out += [c for k, c in enumerate(part) if not quick or k % 3 == chk.seed % 3]
    # 2. c12's hand-picked store shapes (chains, cycles, self-loops, fan-out, duplicates, caveated edges and direct tuples,
    #    shipped-helper rule maps, ...) x registries x operator contexts x limits
    part = []
    names = list(OPCTX)
    n = 0
    for name, store, rules in c12.seeds():
        caveated = any(t[3] is not None for t in store)
        subs = [t[0] for t in store if ":" in t[0]] or ["user:a"]
        objs = [t[2] for t in store] or ["doc:1"]
        for reg in (LOCAL_SEED_REGS if caveated else LOCAL_SEED_REGS[:1]):
            for j in range(3):
                n += 1
                a = {"rel": "viewer"}
                b = node(["viewer", "editor"][n % 2], subject=subs[n % len(subs)], resource=objs[n % len(objs)],
                         ctx=LOCAL_NODE_CTX[n % len(LOCAL_NODE_CTX)])
                pol = anywhere(single(OPCTX[names[n % len(names)]](copy.deepcopy(a), copy.deepcopy(b)),
                                      algo=["deny-overrides", "permit-overrides", "first-applicable"][n % 3]))
                steps = [{"req": local_req(q, LOCAL_REBAC[(n + qi) % len(LOCAL_REBAC)], int_id=bool(n % 2))}
                         for qi, q in enumerate([["user:a", "viewer", "doc:1"], ["user:b", "viewer", "doc:1"],
                                                 ["user:a", "viewer", "folder:1"], ["user:a", "viewer", "doc:2"]])]
                part.append(local_case("local:shape:" + name, store, rules, reg, LOCAL_LIMITS[n % len(LOCAL_LIMITS)], pol, steps,
                                       api=apis[n % 3]))
    out += [c for k, c in enumerate(part) if not quick or k % 2 == chk.seed % 2]
    # 3. widely shared resources: a document with w direct viewers / a group of w members granted the document, and a
    #    subject who holds the same relation elsewhere only
    for w in range(2, 15):
        people = [["user:v%d" % i, "viewer", "doc:pub", None] for i in range(w)] + [["user:eve", "viewer", "doc:own", None]]
        group = ([["user:v%d" % i, "member", "group:all", None] for i in range(w)] +
                 [["user:eve", "member", "group:small", None], ["group:all", "granted", "doc:pub", None],
                  ["group:small", "granted", "doc:own", None]])
        asks = [["user:eve", "viewer", "doc:pub"], ["user:v0", "viewer", "doc:pub"], ["user:eve", "viewer", "doc:own"],
                ["user:v%d" % (w - 1), "viewer", "doc:own"]]
        for store, rules in ((people, {"doc": {"viewer": c12.un("this", c12.cu("editor")), "editor": c12.un("this")}}),
                             (group, {"doc": {"viewer": c12.un("this", c12.ttu("granted", "member"))}, "group": {"member": c12.un("this")}})):
            pol = single({"rel": "viewer"}) if w % 2 else single({"or": [node("viewer", subject="user:eve", resource="doc:pub"), {"rel": "viewer"}]})
            out.append(local_case("local:shared", store, rules, None, [8, 10000], pol, [{"req": local_req(q)} for q in asks], api=apis[w % 3]))
    # 4. relationships granted between two decisions of the same engine over the same checker and store
    for k, api in enumerate(apis):
        alice, carol = local_req(["user:alice", "viewer", "doc:7"], int_id=True), local_req(["user:carol", "viewer", "doc:7"], {"ip": "10.0.0.1"})
        out.append(local_case("local:granted-later", [t for t in RL_STORE if t[0] not in ("user:alice", "user:carol")], RL_RULES,
                              {"office": "office"}, [8, 10000], single({"rel": "viewer"}),
                              [{"req": alice}, {"req": carol}, {"req": alice, "add": [RL_STORE[2]]}, {"req": carol},
                               {"req": carol, "add": [RL_STORE[4]]}, {"req": alice}], api=api))
        out.append(local_case("local:granted-later", RL_STORE[2:], RL_RULES, {"office": "office"}, [None, None],
                              single({"and": [{"rel": "viewer"}, {"not": {"rel": "owner"}}]}),
                              [{"req": alice}, {"req": alice, "add": [RL_STORE[0]]}, {"req": alice, "add": [RL_STORE[1]]},
                               {"req": alice, "add": [["user:alice", "owner", "doc:7", "office"]]},
                               {"req": local_req(["user:alice", "viewer", "doc:7"], {"ip": "10.0.0.1"})}], api=api))
    return out


def local_random(chk, n, rng=None):
    """c12's layered stores (containment hierarchies, group grants, cycles, duplicates, caveats) under random policies
    built by c13's generators from rel leaves over the store's own subjects / objects / relations"""
    rng = rng or chk.rng
    out = []
    for _ in range(n):
        store, rules, _reg, queries = c12.gen_layered(rng)
        for t in store:
            if t[3] is None and rng.random() < 0.2:
                t[3] = rng.choice(c12.CAVS)
        reg = {cav: rng.choice(c12.HKINDS + ["office", "office"]) for cav in c12.CAVS if rng.random() < 0.85}
        if rng.random() < 0.08:
            reg = None
        if rng.random() < 0.15:
            rules = c12.RULE_POOL[rng.randrange(len(c12.RULE_POOL))]
        queries = queries + [[t[0], t[1], t[2]] for t in store if t[1] not in ("parent", "granted")][:4]
        subjects = sorted({t[0] for t in store})
        objects = sorted({t[2] for t in store} | {q[2] for q in queries})
        rels = sorted({q[1] for q in queries} | {"viewer", "editor", "owner", "member"})
        pol = rand_policy(rng, local_leaves(rng, rels, subjects, objects, store))
        later = []
        if rng.random() < 0.3 and len(store) > 1:
            k = rng.randint(1, len(store) - 1)
            store, later = store[:k], store[k:]
        reqs = [local_req(rng.choice(queries), rng.choice(LOCAL_REBAC), team=rng.choice([None, None] + subjects),
                          parent=rng.choice([None, None] + objects), int_id=rng.random() < 0.3,
                          action=rng.choice(["read", "read", "read", "write"])) for _ in range(rng.choice([1, 2, 3]))]
        if rng.random() < 0.5 or later:
            reqs.append(copy.deepcopy(reqs[0]))
        steps = [{"req": r} for r in reqs]
        if later:
            steps[-1]["add"] = later
        out.append(local_case("local:random", store, rules, reg, rng.choice(LOCAL_LIMITS), pol, steps, strict=rng.random() < 0.15,
                              api=rng.choice(["async", "async", "sync", "sync_in_loop"])))
    return out


def corpus_cases():
    out = []
    for f in sorted((lib.VERIF / "corpus" / "C13").glob("*.json")):
        data = json.loads(f.read_text())
        for c in data.get("cases", [data["case"]] if "case" in data else []):
            out.append(lib.unjson(c))
    return out


def run(chk):
    quick = chk.tier == "quick"
    chk.rule = ("through Guard (evaluate_async, evaluate_sync, evaluate_sync under a running loop) with recording "
                "relationship checkers: exhaustive small families (subject override x subject id x attribute value; resource "
                "override x type x id x attribute; _rebac shape x node ctx shape; 12 operator contexts x 8 checker kinds x "
                "relationship data; rule lists, nested sets, compiled->interpreter fallback; degenerate operands; sequences "
                "with the data changed between decisions; checker objects that are false as Python values (empty list / dict / "
                "set subclass, __len__ == 0, __bool__ False) x sync / async shapes x operator contexts, and one in six of the "
                "random and concurrent cases), seeded random condition trees in random policies/sets, "
                "asyncio.gather and threads over two engines with complementary data, slow checkers with the time-out "
                "patched down, eval_condition with the context variables set by hand (memo on / off / not a dict), and "
                "_ctx_hash equality vs the model's canonical form over all pairs of a context pool; and the C13 x C12 "
                "composition tied to the code: a real Guard over a real LocalRelationshipChecker / InMemoryRelationshipStore "
                "(c12's store shapes, rule maps and caveat registries; rel leaves over the store's subjects / objects / "
                "relations; limits that bind or not; relationships granted between decisions), every lookup judged by the C12 "
                "model, the Decision by the C13 model fed the C12 model's answers, evaluate_sync against evaluate_async. "
                "non-trivial = at least one lookup reached a checker (or a hash pair); distinct = distinct case")
    chk.assumptions = ["the decision cache is off (cache=None): reuse of whole cached decisions is C08's subject",
                       "relationship checkers raise only Exception subclasses and return JSON-like values",
                       "attribution of a lookup to its decision uses a harness ContextVar carried by the engine's own context "
                       "propagation (asyncio tasks, asyncio.to_thread, run_coroutine_threadsafe)",
                       "local-checker family: deadline_ms = %d (wall-clock time never binds; the model's clock never reaches the "
                       "deadline); caveat predicates are pure functions of the call's context raising only Exception subclasses"
                       % LOCAL_DEADLINE_MS]
    chk.extra.setdefault("timing_dependent_not_reproduced", 0)
    cases = corpus_cases() + f23_cases()
    cases += enumerated(chk)
    cases += conc_cases(chk, 150 if quick else 1500)
    cases += slow_cases(chk, 10 if quick else 150)
    cases += nest_cases(chk)
    cases += overlap_cases(chk)
    cases += cond_cases(chk)
    cases += hash_cases(chk)
    cases += local_enumerated(chk)
    # seeded random part of the local-checker family: drawn from a copy of chk.rng's state (a function of VERIF_SEED), so
    # that the streams of the families above and below stay what they were before this family existed
    fork = random.Random()
    fork.setstate(chk.rng.getstate())
    cases += local_random(chk, 250 if quick else 5000, rng=fork)
    chk.exhaustive = True
    check_cases(chk, cases)
    n = 3000 if quick else 40000
    while n > 0 and len(chk.violations) < 20:
        k = min(n, 4000)
        check_cases(chk, random_cases(chk, k))
        n -= k
    chk.extra["local_checker_cases"] = sum(v for k, v in chk.dist.items() if k.startswith("fam:local:") or k.startswith("fam:corpus:local"))
    chk.extra["decisions_checked"] = chk.traces
    chk.extra["f23_switch"] = "datetime and its str() share a memo key" if f23_present() else "datetimes kept apart (repaired)"
