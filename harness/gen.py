"""Shared value pools and small generators for the engine-core checks (C01-C07, C11...).

Pools deliberately contain near-duplicates (1, 1.0, True, "1", "True", None, "None",
-0.0, 2**53, 2**53+1, 10**400, NaN, +-inf, date-like strings, non-ASCII strings):
the properties are about exactly those confusions."""
import datetime as dt
import math

NAN = float("nan")
INF = float("inf")
UTC = dt.timezone.utc

SCALARS = [
    None, True, False, 0, 1, -1, 2, 3, 2**53, 2**53 + 1, -(2**63), 10**400,
    0.0, -0.0, 1.0, 1.5, 2.5, 1e308, 5e-324, NAN, INF, -INF,
    "", "1", "1.0", "a", "abc", "ab", "True", "true", "None", "é", "日本",
    "2025-01-01T00:00:00Z", "2025-01-01", "1735689600",
]
CONTAINERS = [
    [], [1], [1.0, "a"], ["a", "b"], [None], [[1]], [True], ["1"], [1, 2, 3], [NAN],
    {}, {"a": 1}, {"k": [1]}, {"a": 1, "b": 2},
]
DATES = [
    dt.datetime(2025, 1, 1, tzinfo=UTC),
    dt.datetime(2025, 1, 1),
    dt.datetime(2025, 1, 1, 1, 0, tzinfo=dt.timezone(dt.timedelta(hours=1))),
]
VALUES = SCALARS + CONTAINERS + DATES

BINOPS = ["==", "!=", ">", "<", ">=", "<=", "contains", "in", "hasAll", "hasAny",
          "startsWith", "endsWith", "before", "after"]

TIME_STRINGS = [
    "2025-01-01T00:00:00Z", "2025-01-01T00:00:00+00:00", "2025-01-01T01:00:00+01:00",
    "2024-12-31T23:59:59.999999Z", "2025-01-01T00:00:00.000001Z", "2025-01-01", "2025-01-01 00:00",
    "2025-01-01T00:00", "2024-02-29T12:00:00Z", "2023-02-29T12:00:00Z", "2025-13-01T00:00:00Z",
    "2025-01-01T24:00:00Z", "2025-01-01T23:59:60Z", "0001-01-01T00:00:00Z", "0001-01-01T00:00:00+23:59",
    "9999-12-31T23:59:59.999999Z", "9999-12-31T23:59:59.999999-23:59", "0000-01-01T00:00:00Z",
    "2025-01-01T00:00:00+23:59", "2025-01-01T00:00:00-23:59", "2025-01-01T00:00:00+24:00",
    "2025-01-01T00:00:00+00:60", "2025-01-01T00:00:00.5Z", "2025-01-01T00:00:00.123Z",
    "2025-01-01T00:00:00.1234567Z", "2025-01-01T00:00:00.Z", "2025-01-01T00:00Z", "2025-06-15T12:30:45.250000+05:30",
    "1969-12-31T23:59:59Z", "1970-01-01T00:00:00Z", "2025-01-01T00:00:00ZZ", "2025-01-01T00:00:00z",
    "20250101", "2025-W01-1", "2025-1-1", "not a date", "", "2025", "abcdefgh", " 2025-01-01", "2025-01-01 ",
    "2025-01-01T00:00:00+01", "2025-01-01T00:00:00+0100", "2025-01-01X00:00:00", "2025-04-31", "2025-04-30",
    "1900-02-29", "2000-02-29", "2100-02-29T00:00:00Z",
    # text that digit/number predicates treat differently from plain ASCII digits
    "1735689600", "1735689600.5", "\u00b2", "\u2460\u2461", "1\u00b3", "\u0661\u0662\u0663", "\uff11\uff12", "1_000", " 12 ",
    "+5", "1e5", "nan", "inf", "Infinity", "9" * 5000, "\u00a0", "-0",
]
EPOCHS = [
    0, 1, -1, 1735689600, 1735689600.0, 1735689600.5, 1735689599.9999995, 1735689600.0000005,
    0.5, -0.5, 1.5e-6, 2.5e-6, 0.0000005, -0.0000005, 1e-7, 253402300799, 253402300799.9, 253402300799.9999999,
    253402300800, -62135596800, -62135596800.5, -62135596801, 1e18, -1e18, 1e30, 10**400, NAN, INF, -INF,
    True, False, 2**53, 2**53 + 1, 1735689600.123456, 1735689600.1234565, 86400 * 365.25,
]


def same_value(a, b):
    """structural equality that distinguishes 1 / 1.0 / True and treats NaN as equal to NaN."""
    if type(a) is not type(b):
        return False
    if isinstance(a, float):
        return (math.isnan(a) and math.isnan(b)) or (a == b and math.copysign(1, a) == math.copysign(1, b))
    if isinstance(a, list):
        return len(a) == len(b) and all(same_value(x, y) for x, y in zip(a, b))
    if isinstance(a, dict):
        return list(a.keys()) == list(b.keys()) and all(same_value(a[k], b[k]) for k in a)
    return a == b


def fresh(v):
    """deep copy that also makes a fresh object for every float (so that CPython's identity
    shortcut in container equality cannot differ between two operands built from one pool entry)."""
    if isinstance(v, float):
        return float(repr(v)) if not math.isnan(v) else float("nan")
    if isinstance(v, list):
        return [fresh(x) for x in v]
    if isinstance(v, dict):
        return {k: fresh(x) for k, x in v.items()}
    return v


def kind(v):
    if v is None:
        return "null"
    if isinstance(v, bool):
        return "bool"
    if isinstance(v, int):
        return "int" if abs(v) <= 2**53 else "bigint"
    if isinstance(v, float):
        return "nan" if math.isnan(v) else ("inf" if math.isinf(v) else "float")
    if isinstance(v, str):
        return "str"
    if isinstance(v, list):
        return "list"
    if isinstance(v, dict):
        return "obj"
    if isinstance(v, dt.datetime):
        return "datetime"
    return type(v).__name__
